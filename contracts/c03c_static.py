"""C03 static obligations (tag c03c), decided on the real AST (pyvc.repo; biogeme is never imported).

HAND-OVER: the vectors that travel between the functions under contract are passed on unchanged.  The contracts prove what
each function does with names and positions; between them the estimation driver hands a vector of values to the
optimiser / the engine / the results object.  Each obligation below says that a given argument of a given call IS a given
expression (after resolving a local that is bound exactly once), so that no re-ordering can slip in between two contracts.
Sound for exactly this syntactic shape: a call that is not found, or an argument that resolves to something else, fails
the obligation.

POSITION WRITES: every statement of the package that stores into / mutates in place `free_betas_values`,
`fixed_betas_values`, `bounds` or a `.names` list of an id manager lies in a function that is under contract (or in the
reviewed list below, with the reason).  A new site is reported as `unknown` (not covered), never silently accepted.
"""
from __future__ import annotations

import ast
import time

BG = 'biogeme.biogeme.BIOGEME.'


def _bindings(fn: ast.FunctionDef) -> dict[str, list]:
    """local name -> list of bound expressions; a tuple target records (value, position)."""
    out: dict[str, list] = {}
    params = {a.arg for a in fn.args.args + fn.args.kwonlyargs}
    for p in params:
        out.setdefault(p, []).append(('param', p))
    for n in ast.walk(fn):
        tgts, val = [], None
        if isinstance(n, ast.Assign):
            tgts, val = n.targets, n.value
        elif isinstance(n, ast.AnnAssign) and n.value is not None:
            tgts, val = [n.target], n.value
        elif isinstance(n, (ast.AugAssign,)):
            tgts, val = [n.target], ('aug', n)
        elif isinstance(n, (ast.For, ast.comprehension)):
            tgts, val = [n.target], ('iter', n.iter)
        for t in tgts:
            if isinstance(t, ast.Name):
                out.setdefault(t.id, []).append(val)
            elif isinstance(t, (ast.Tuple, ast.List)):
                for k, e in enumerate(t.elts):
                    if isinstance(e, ast.Name):
                        out.setdefault(e.id, []).append(('item', val, k))
    return out


def _resolve(expr, binds, depth=0):
    """canonical text of an argument: locals bound exactly once are replaced by what they are bound to; parameters keep
    their name (`p` when never re-bound, `p or E` for the idiom `if p is None: p = E`)"""
    if isinstance(expr, ast.Name):
        if expr.id not in binds or depth >= 6:
            return expr.id
        bs = binds[expr.id]
        if len(bs) == 1:
            b = bs[0]
            if isinstance(b, tuple) and b[0] == 'param':
                return b[1]
            if isinstance(b, tuple) and b[0] == 'item' and isinstance(b[1], ast.AST):
                return f'{_resolve(b[1], binds, depth + 1)}[{b[2]}]'
            if isinstance(b, ast.AST):
                return _resolve(b, binds, depth + 1)
            return f'<{b[0]}>'
        kinds = [(b[0] if isinstance(b, tuple) else 'expr') for b in bs]
        if sorted(kinds) == ['expr', 'param']:
            e = next(b for b in bs if isinstance(b, ast.AST))
            return f'({expr.id} or {_resolve(e, binds, depth + 1)})'
        return f'<{len(bs)} bindings of {expr.id}>'

    class Sub(ast.NodeTransformer):
        def visit_Name(self, node):
            if isinstance(node.ctx, ast.Load) and node.id in binds:
                return ast.copy_location(ast.Name(id=_resolve(node, binds, depth + 1), ctx=ast.Load()), node)
            return node
    import copy
    return ast.unparse(Sub().visit(copy.deepcopy(expr))).replace('\n', ' ')


def _calls(fn, pred):
    return [n for n in ast.walk(fn) if isinstance(n, ast.Call) and pred(ast.unparse(n.func))]


def _arg(call: ast.Call, pos: int | None, kw: str | None):
    if kw is not None:
        for k in call.keywords:
            if k.arg == kw:
                return k.value
    if pos is not None and pos < len(call.args):
        return call.args[pos]
    return None


# (function, callee text, (position, keyword), accepted resolved texts, what it means)
XSTAR = 'self.optimize(np.array(self.id_manager.free_betas_values))[0]'
HANDOVERS = [
    ('simulate', 'self.theC.simulateSeveralFormulas', (1, None), ['self.beta_values_dict_to_list(the_beta_values)'],
     'the free vector given to the engine is the by-name conversion of the dictionary'),
    ('simulate', 'self.theC.simulateSeveralFormulas', (2, None), ['self.id_manager.fixed_betas_values'],
     'the fixed vector given to the engine is the one numbered by the id manager'),
    ('optimize', 'the_algorithm', (None, 'init_betas'), ['(starting_values or np.array(self.id_manager.free_betas_values))'],
     'the optimiser starts from the vector of the id manager (or the vector it was given)'),
    ('optimize', 'the_algorithm', (None, 'bounds'), ['self.id_manager.bounds'], 'bounds list of the id manager (bounds[i] belongs to names[i])'),
    ('optimize', 'the_algorithm', (None, 'variable_names'),
     ['self.free_beta_names if len((starting_values or np.array(self.id_manager.free_betas_values))) <= self.max_number_parameters_to_report else None',
      'self.free_beta_names'], 'names reported by the optimiser are the sorted names'),
    ('calculate_init_likelihood', 'self.calculate_likelihood', (0, 'x'), ['self.id_manager.free_betas_values'], 'initial likelihood at the vector of the id manager'),
    ('estimate', 'self.optimize', (0, 'starting_values'), ['np.array(self.id_manager.free_betas_values)', XSTAR],
     'estimation starts from the vector of the id manager (bootstrap: from the estimate)'),
    ('estimate', 'self.calculate_likelihood_and_derivatives', (0, 'x'), [XSTAR], 'statistics are computed at the vector returned by the optimiser'),
    ('estimate', 'res.RawResults', (1, 'beta_values'), [XSTAR], 'the results object receives the vector returned by the optimiser'),
    ('quick_estimate', 'self.optimize', (0, 'starting_values'), ['np.array(self.id_manager.free_betas_values)'], 'estimation starts from the vector of the id manager'),
    ('quick_estimate', 'self.calculate_likelihood', (0, 'x'), [XSTAR], 'final likelihood at the vector returned by the optimiser'),
    ('quick_estimate', 'res.RawResults', (1, 'beta_values'), [XSTAR], 'the results object receives the vector returned by the optimiser'),
]


def handovers(repo):
    from pyvc.driver import Extra
    out = []
    for fname, callee, (pos, kw), accepted, what in HANDOVERS:
        t0 = time.time()
        name = f'C03:static:handover:{fname}:{callee.split(".")[-1]}:{kw or "arg%d" % pos}'
        fi = repo.function(BG + fname)
        if fi is None:
            out.append(Extra(name, 'static', 'failed', 'ast-static', 0.0, f'BIOGEME.{fname} not found', {'function': fname}))
            continue
        binds = _bindings(fi.node)
        calls = _calls(fi.node, lambda t: t == callee)
        if not calls:
            out.append(Extra(name, 'static', 'failed', 'ast-static', time.time() - t0, f'no call of {callee} in BIOGEME.{fname}', {'function': fname}))
            continue
        wrong = []
        for c in calls:
            a = _arg(c, pos, kw)
            txt = _resolve(a, binds) if a is not None else '<missing>'
            if txt not in accepted:
                wrong.append({'line': c.lineno, 'argument': txt})
        if wrong:
            out.append(Extra(name, 'static', 'failed', 'ast-static', time.time() - t0,
                             f'{what}: expected {accepted}, found {wrong}', {'function': fname, 'sites': wrong}))
        else:
            out.append(Extra(name, 'static', 'discharged', 'ast-static', time.time() - t0, f'{what} ({len(calls)} call site(s))'))
    return out


# ---------------------------------------------------------------------------------------------------------------------
WATCHED = ('free_betas_values', 'fixed_betas_values')
WATCHED_TUPLE_LISTS = ('names', 'indices')     # of self.free_betas / fixed_betas / elementary_expressions ...
MUTATORS = {'append', 'extend', 'insert', 'pop', 'remove', 'sort', 'reverse', 'clear', 'update', 'setdefault', 'popitem', '__setitem__', '__delitem__'}
# function -> why a write there is accepted
COVERED = {
    'biogeme.biogeme.BIOGEME.change_init_values': 'under contract (c03c_positions): position q gets the value of names[q]',
    'biogeme.expressions.idmanager.IdManager.prepare': 'under contract (c03c_prepare): built by sorted name',
    'biogeme.expressions.idmanager.IdManager.__init__': 'initialises the fields to None before prepare()',
    'biogeme.expressions.base_expressions.Expression.get_value_and_derivatives': 'under contract (c03c_values): list rebuilt by name from the dictionary',
    'biogeme.expressions.base_expressions.Expression.create_function.my_function':
        'whole-vector replacement by the caller\'s vector x after a length check (x[i] is by definition the value of names[i]: C02/C07)',
}


def _is_watched(node) -> str | None:
    """text of the watched container an expression denotes, if any"""
    if isinstance(node, ast.Attribute):
        if node.attr in WATCHED:
            return ast.unparse(node)
        if node.attr == 'bounds' and isinstance(node.value, ast.Attribute) and node.value.attr == 'id_manager':
            return ast.unparse(node)
        if node.attr in WATCHED_TUPLE_LISTS and isinstance(node.value, ast.Attribute) and \
                node.value.attr in ('free_betas', 'fixed_betas', 'elementary_expressions'):
            return ast.unparse(node)
    return None


def position_writes(repo):
    from pyvc.driver import Extra
    t0 = time.time()
    sites = []

    def visit(node, qual):
        for ch in ast.iter_child_nodes(node):
            if isinstance(ch, (ast.FunctionDef, ast.AsyncFunctionDef, ast.ClassDef)):
                visit(ch, f'{qual}.{ch.name}')
                continue
            tg = []
            if isinstance(ch, ast.Assign):
                tg = ch.targets
            elif isinstance(ch, (ast.AugAssign, ast.AnnAssign)):
                tg = [ch.target]
            elif isinstance(ch, ast.Delete):
                tg = ch.targets
            for t in tg:
                for e in ([t] if not isinstance(t, (ast.Tuple, ast.List)) else t.elts):
                    w = _is_watched(e) or (isinstance(e, ast.Subscript) and _is_watched(e.value))
                    if w:
                        sites.append((qual, ch.lineno, f'store to {ast.unparse(e)}'))
            if isinstance(ch, ast.Expr) or True:
                for c in ([ch] if isinstance(ch, ast.Call) else []):
                    if isinstance(c.func, ast.Attribute) and c.func.attr in MUTATORS and _is_watched(c.func.value):
                        sites.append((qual, c.lineno, f'{ast.unparse(c.func)}(...)'))
            visit(ch, qual)

    for mname, mi in repo.modules.items():
        visit(mi.tree if hasattr(mi, 'tree') else mi.node, mname)
    uncovered = [s for s in sites if s[0] not in COVERED]
    name = 'C03:static:position-writes-only-in-functions-under-contract'
    detail = f'{len(sites)} write sites in {sorted({s[0].split(".", 1)[1] if "." in s[0] else s[0] for s in sites})}'
    if not sites:
        return [Extra(name, 'static', 'unknown', 'ast-static', time.time() - t0, 'no write site found at all: the scan no longer sees the code (vacuous)')]
    if uncovered:
        return [Extra(name, 'static', 'unknown', 'ast-static', time.time() - t0,
                      f'write sites outside the functions under contract (not covered, review needed): {uncovered}', {'sites': uncovered})]
    return [Extra(name, 'static', 'discharged', 'ast-static', time.time() - t0, detail)]


def obligations():
    from pyvc.repo import get_repo
    repo = get_repo()
    return handovers(repo) + position_writes(repo)
