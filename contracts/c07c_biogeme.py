"""C07 (round 2, tag c07c): the caller side of the optimisation glue in biogeme.py / negative_likelihood.py."""
from pyvc.contract import contract, field_type
import contracts.c03_byname  # noqa: F401  (get_bounds_on_beta is proved there (C03): reused at its call site in RawResults.__init__;
#                                          imported first so that the field types declared below take precedence)

B = 'biogeme.biogeme.BIOGEME.'
N = 'biogeme.negative_likelihood.NegativeLikelihood.'

def _given(key):
    return f"(parameters is not None and {key!r} in parameters and parameters[{key!r}] is not None)"


contract(N + '__init__', 'C07', types={'parameters': 'dict[str, Any] | None'},
         modifies=['self.epsilon', 'self.steptol', 'self.x', 'self.the_dimension', 'self.like', 'self.like_derivatives'],
         ensures={'dimension': 'same(self.the_dimension, dimension)',
                  'likelihood_callback': 'same(self.like, like)',
                  'derivatives_callback': 'same(self.like_derivatives, like_derivatives)',
                  'no_point_yet': 'self.x is None',
                  'tolerance_from_the_parameters': f"same(self.epsilon, parameters['tolerance'] if {_given('tolerance')} else ftm_default('epsilon'))",
                  'steptol_from_the_parameters': f"same(self.steptol, parameters['steptol'] if {_given('steptol')} else ftm_default('steptol'))"})

# ---- the parameter dict per algorithm name -----------------------------------------------------------------------------
# The TOML-backed attributes (optimization_algorithm, max_iterations, ...) are dynamic properties that return the stored
# parameter value: read as plain fields (A-PARAM, listed in props/C07.py).
field_type('BIOGEME', 'optimization_algorithm', 'str')
field_type('BIOGEME', 'algo_parameters', 'dict[str, Any] | None')
field_type('BIOGEME', 'function_parameters', 'dict[str, Any] | None')
contract(B + 'is_model_complex', 'C07', verify=False, pure=True, returns='bool', ensures={'t': 'True'},
         note='assumed: only selects the proportion of analytical Hessians of the automatic algorithm')

ALG = 'self.optimization_algorithm'
SB_COMMON = {'infeasibleConjugateGradient': 'self.infeasible_cg', 'radius': 'self.initial_radius',
             'enlargingFactor': 'self.enlarging_factor', 'maxiter': 'self.max_iterations'}


def dict_is(entries):
    """self.algo_parameters is a dict with exactly these entries."""
    keys = ' or '.join(f'k == {k!r}' for k in entries)
    each = ' and '.join(f'same(self.algo_parameters[{k!r}], {v})' for k, v in entries.items())
    return f'(self.algo_parameters is not None and forall(lambda k: iff(k in self.algo_parameters, {keys})) and {each})'


CASES = {
    'automatic': f"implies({ALG} == 'automatic', " + dict_is({**SB_COMMON, 'proportionAnalyticalHessian': '(0 if self.is_model_complex() else 1)'}) + ')',
    'simple_bounds': f"implies({ALG} == 'simple_bounds', " + dict_is({**SB_COMMON, 'proportionAnalyticalHessian': 'self.second_derivatives'}) + ')',
    'simple_bounds_newton_and_BFGS': f"implies({ALG} == 'simple_bounds_newton' or {ALG} == 'simple_bounds_BFGS', " + dict_is(SB_COMMON) + ')',
    'trust_region': f"implies({ALG} == 'TR-newton' or {ALG} == 'TR-BFGS', "
                    + dict_is({'dogleg': 'self.dogleg', 'radius': 'self.initial_radius', 'maxiter': 'self.max_iterations'}) + ')',
    'line_search': f"implies({ALG} == 'LS-newton' or {ALG} == 'LS-BFGS', " + dict_is({'maxiter': 'self.max_iterations'}) + ')',
    'any_other_name': "implies(" + ' and '.join(f'{ALG} != {n!r}' for n in ('automatic', 'simple_bounds', 'simple_bounds_newton', 'simple_bounds_BFGS',
                                                                            'TR-newton', 'TR-BFGS', 'LS-newton', 'LS-BFGS'))
                      + ", self.algo_parameters is None)",
}
contract(B + '_set_algorithm_parameters', 'C07', modifies=['self.algo_parameters'], ensures=CASES)

# ---- BIOGEME.optimize -----------------------------------------------------------------------------------------------------
field_type('BIOGEME', 'id_manager', 'IdManager')
field_type('IdManager', 'free_betas_values', 'list[float]')
field_type('IdManager', 'number_of_free_betas', 'int')
field_type('IdManager', 'free_betas', 'ElementsTuple')
field_type('ElementsTuple', 'names', 'list[str]')
field_type('IdManager', 'bounds', 'list[tuple[float | None, float | None]]')
field_type('BIOGEME', 'log_like', 'Expression')
field_type('BIOGEME', 'number_of_draws', 'int')
field_type('BIOGEME', 'max_number_parameters_to_report', 'int')
contract('biogeme.expressions.base_expressions.Expression.requires_draws', 'C07', verify=False, pure=True, returns='bool',
         ensures={'t': 'True'}, note='assumed: only selects a warning message')

NAME = f"('simple_bounds' if {ALG} == 'automatic' else {ALG})"
TABLE = {'scipy': 'scipy', 'LS-newton': 'newton_linesearch_for_biogeme', 'TR-newton': 'newton_trust_region_for_biogeme',
         'LS-BFGS': 'bfgs_linesearch_for_biogeme', 'TR-BFGS': 'bfgs_trust_region_for_biogeme',
         'simple_bounds': 'simple_bounds_newton_algorithm_for_biogeme', 'simple_bounds_newton': 'bio_newton',
         'simple_bounds_BFGS': 'bio_bfgs'}
KNOWN = ' or '.join(f'{ALG} == {n!r}' for n in ['automatic'] + list(TABLE))
CHOSEN = {f'algorithm_{n}': f"implies({NAME} == {n!r}, same(opt_callee(1), opt_algorithm('biogeme.optimization.{f}')))" for n, f in TABLE.items()}
FN = "typed(opt_arg(1, 'fct'), 'biogeme.negative_likelihood.NegativeLikelihood')"

contract(B + 'optimize', 'C07', types={'starting_values': 'np.ndarray | None'},
         modifies=['self.algo_parameters'],
         raises={'BiogemeError': f'not ({KNOWN})'},
         ensures={'one_algorithm_call': 'opt_ncalls() == 1',
                  'argument_names': "opt_sig(1) == '0|bounds,fct,init_betas,parameters,variable_names'",
                  **CHOSEN,
                  'function_is_a_new_negative_likelihood': f"same({FN}.like, self.calculate_likelihood) and "
                                                           f"same({FN}.like_derivatives, self.calculate_likelihood_and_derivatives) and "
                                                           f"same({FN}.the_dimension, self.id_manager.number_of_free_betas) and {FN}.x is None",
                  'starting_point_given': "implies(starting_values is not None, same(opt_arg(1, 'init_betas'), starting_values))",
                  'starting_point_default_is_the_current_free_values':
                      "implies(starting_values is None, opt_is_array_of(opt_arg(1, 'init_betas'), self.id_manager.free_betas_values))",
                  'bounds_are_those_of_the_id_manager': "opt_bounds_ok(1, 'bounds', self.id_manager.bounds)",
                  'variable_names_are_the_free_names_or_absent': "opt_arg(1, 'variable_names') is None or "
                                                                 "same(opt_arg(1, 'variable_names'), self.id_manager.free_betas.names)",
                  # round 3 (m1): the names are handed over exactly when the point is short enough to be reported
                  'variable_names_absent_iff_too_many_parameters_given_start':
                      "implies(starting_values is not None, iff(opt_arg(1, 'variable_names') is None, "
                      "len(starting_values) > self.max_number_parameters_to_report))",
                  # (default start: the length of numpy.array(list) is not modelled, so that case is not pinned)
                  'parameters_are_the_algorithm_parameters': "same(opt_arg(1, 'parameters'), self.algo_parameters)",
                  # round 3 (m1): ... and that dict is the one built for THIS algorithm name by this call (not a stale one of an earlier run)
                  **{f'parameters_built_for_{k}': v for k, v in CASES.items()},
                  'result_is_the_algorithms': 'same(result, opt_result(1))'})

# ---- packaging of the solution and of the final evaluation into the raw results ---------------------------------------------
R = 'biogeme.results.'
field_type('RawResults', 'betas', 'list[Any]')
field_type('BIOGEME', 'database', 'Database')
field_type('RawResults', 'betaNames', 'list[str]')     # annotated tuple[str] in the source; it is the id manager's list of names
# round 3 (m1): the source annotates these fields with a type the stored value need not have (`self.gradientNorm: float = ... else None`,
# `self.bootstrap: np.ndarray = bootstrap` with default None, `self.g: np.ndarray = f_g_h_b.gradient` of an Optional field).  A field
# read in a postcondition is assumed to have its annotated type: with the source annotation the clause was discharged from a
# contradiction (is_num(None)) when a mutant stored None -- declared with the type the value really has.
field_type('RawResults', 'gradientNorm', 'float | None')
field_type('RawResults', 'bootstrap', 'Any')
field_type('RawResults', 'g', 'Any')
field_type('RawResults', 'H', 'Any')
field_type('RawResults', 'bhhh', 'Any')
field_type('RawResults', 'initLogLike', 'float | None')
field_type('RawResults', 'nullLogLike', 'float | None')
RAW_REPLAY = '''
import types
import numpy as np
from biogeme.results import RawResults
from biogeme.function_output import BiogemeFunctionOutput
names = ['b1', 'b2', 'b3']
db = types.SimpleNamespace(name='d', get_sample_size=lambda: 5, get_number_of_observations=lambda: 5, typesOfDraws={}, excludedData=0)
model = types.SimpleNamespace(modelName='m', user_notes='', id_manager=types.SimpleNamespace(free_betas=types.SimpleNamespace(names=names)),
                              initLogLike=-10.0, nullLogLike=-12.0, get_bounds_on_beta=lambda n: (None, 0.0), database=db, monte_carlo=False,
                              number_of_draws=0, drawsProcessingTime=None, optimizationMessages={}, convergence=True, number_of_threads=1)
x = np.array([3.0, -1.0, 2.0]); g = np.array([0.1, 0.2, 0.3]); H = -2.0 * np.eye(3); B = 5.0 * np.eye(3)
r = RawResults(model, x, BiogemeFunctionOutput(function=-7.5, gradient=g, hessian=H, bhhh=B))
checks = {'betaValues': r.betaValues is x, 'nparam': r.nparam == 3, 'betaNames': list(r.betaNames) == names, 'logLike': r.logLike == -7.5,
          'g': r.g is g, 'H': r.H is H, 'bhhh': r.bhhh is B, 'initLogLike': r.initLogLike == -10.0, 'convergence': r.convergence is True,
          'betas': [(b.name, b.value, b.lb, b.ub) for b in r.betas] == [(n, v, None, 0.0) for n, v in zip(names, [3.0, -1.0, 2.0])]}
violated = not all(checks.values())
detail = 'wrong: ' + ', '.join(k for k, v in checks.items() if not v)
'''

_NAMES = 'the_model.id_manager.free_betas.names'
_BOUNDS_OF_Q = f'the_model.id_manager.bounds[the_model.id_manager.free_betas.indices[{_NAMES}[q]]]'

contract(R + 'RawResults.__init__', 'C07', replay=RAW_REPLAY,
         types={'beta_values': 'list[float]', 'f_g_h_b': 'Any'},
         requires={'bounds_len': 'len(the_model.id_manager.bounds) == len(the_model.id_manager.free_betas.names)',
                   'indices_in_range': "forall(lambda x: implies(x in the_model.id_manager.free_betas.indices, "
                                       "0 <= the_model.id_manager.free_betas.indices[x] < len(the_model.id_manager.free_betas.names)), ty='str')",
                   'names_indexed': "forall(lambda q: the_model.id_manager.free_betas.names[q] in the_model.id_manager.free_betas.indices, "
                                    "0, len(the_model.id_manager.free_betas.names))"},
         check_frame=False,
         ensures={'estimates_are_the_solution': 'same(self.betaValues, beta_values) and self.nparam == len(beta_values)',
                  'names_in_id_order': 'same(self.betaNames, the_model.id_manager.free_betas.names)',
                  'final_log_likelihood': 'same(self.logLike, f_g_h_b.function)',
                  'gradient': 'same(self.g, f_g_h_b.gradient)',
                  'hessian': 'same(self.H, f_g_h_b.hessian)',
                  'bhhh': 'same(self.bhhh, f_g_h_b.bhhh)',
                  'initial_log_likelihood': 'same(self.initLogLike, the_model.initLogLike)',
                  'convergence': 'same(self.convergence, the_model.convergence)',
                  # round 3 (m1, mutation survivors): the whole object, not only the fields estimate() reads back
                  'null_log_likelihood': 'same(self.nullLogLike, the_model.nullLogLike)',
                  'one_beta_record_per_estimate': f'len(self.betas) == ite(len(beta_values) <= len({_NAMES}), len(beta_values), len({_NAMES}))',
                  'beta_records_hold_name_estimate_and_bounds_of_that_name':
                      f"forall(lambda q: same(typed(self.betas[q], 'biogeme.results.Beta').name, {_NAMES}[q]) and "
                      f"same(typed(self.betas[q], 'biogeme.results.Beta').value, beta_values[q]) and "
                      f"same(typed(self.betas[q], 'biogeme.results.Beta').lb, {_BOUNDS_OF_Q}[0]) and "
                      f"same(typed(self.betas[q], 'biogeme.results.Beta').ub, {_BOUNDS_OF_Q}[1]), 0, len(self.betas))",
                  'gradient_norm': "same(self.gradientNorm, ite(f_g_h_b.gradient is None, None, app('scipy.linalg.norm', f_g_h_b.gradient)))",
                  'sample_size_is_the_databases': 'same(self.sampleSize, the_model.database.get_sample_size())',
                  'number_of_observations_is_the_databases': 'same(self.numberOfObservations, the_model.database.get_number_of_observations())',
                  'excluded_data': 'same(self.excludedData, the_model.database.excludedData)',
                  'draws': 'same(self.monte_carlo, the_model.monte_carlo) and same(self.numberOfDraws, the_model.number_of_draws) and '
                           'same(self.typesOfDraws, the_model.database.typesOfDraws) and same(self.drawsProcessingTime, the_model.drawsProcessingTime)',
                  'threads_and_messages': 'same(self.numberOfThreads, the_model.number_of_threads) and '
                                          'same(self.optimizationMessages, the_model.optimizationMessages)',
                  'bootstrap_sample_kept': 'same(self.bootstrap, bootstrap)',
                  'bootstrap_time_kept_when_there_is_a_sample': 'implies(bootstrap is not None, same(self.bootstrap_time, the_model.bootstrap_time))',
                  'no_second_order_table_yet': 'self.secondOrderTable is None'},
         invariants={1: {'clauses': {
             'count': 'len(self.betas) == _k',
             # the records made so far exist, hence differ from the record the next iteration creates (spec of specs/c03c_specs.py)
             'records_exist': 'forall(lambda q: c03c_allocated(self.betas[q]), 0, _k)',
             'rec_name': f"forall(lambda q: same(typed(self.betas[q], 'biogeme.results.Beta').name, {_NAMES}[q]), 0, _k)",
             'rec_value': f"forall(lambda q: same(typed(self.betas[q], 'biogeme.results.Beta').value, beta_values[q]), 0, _k)",
             'rec_lb': f"forall(lambda q: same(typed(self.betas[q], 'biogeme.results.Beta').lb, {_BOUNDS_OF_Q}[0]), 0, _k)",
             'rec_ub': f"forall(lambda q: same(typed(self.betas[q], 'biogeme.results.Beta').ub, {_BOUNDS_OF_Q}[1]), 0, _k)",
             'names_kept': f'same(self.betaNames, {_NAMES}) and same(self.betaValues, beta_values)'}}})
