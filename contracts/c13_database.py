"""Contracts for biogeme.database (C13): the row-selection arithmetic of split / extract_rows / sample_*.

pandas members are the assumed LIBSPEC-pd contracts of pyvc/libext/c13_pandas.py (opaque immutable
handles; positional take and concatenation described through ghost observers, see specs/c13_pd.py).
What is PROVED for all inputs is which rows (positions / chunks) each function hands to those members.
"""
from pyvc.contract import contract, field_type

Q = 'biogeme.database.'

field_type('Database', 'data', 'pd.DataFrame')
field_type('Database', 'individualMap', 'pd.DataFrame | None')
field_type('Database', 'fullIndividualMap', 'pd.DataFrame | None')
field_type('Database', 'panelColumn', 'str | None')
field_type('Database', 'name', 'str')
field_type('Database', 'excludedData', 'int')
field_type('EstimationValidation', 'estimation', 'pd.DataFrame')
field_type('EstimationValidation', 'validation', 'pd.DataFrame')

# ---------------------------------------------------------------------------------------------
# assumed: the constructor stores the frame it is given (it audits it and may reject it)
# ---------------------------------------------------------------------------------------------
contract(Q + 'Database.__init__', 'C13', verify=False,
         types={'name': 'str', 'pandas_database': 'pd.DataFrame'},
         may_raise=['BiogemeError'],
         modifies=['self.' + f for f in ('name', 'data', 'fullData', 'variables', 'excludedData', 'panelColumn', 'individualMap',
                                          'fullIndividualMap', 'userRandomNumberGenerators', 'number_of_draws', 'typesOfDraws',
                                          'theDraws', '_avail', '_choice', '_expression')],
         ensures={'stores': 'self.data is pandas_database and self.name == name and self.panelColumn is None '
                            'and self.individualMap is None and self.excludedData == 0'})

_NATIVE = """
# replay on the real code: the bounded stand-in (row-level oracle) restricted to the catalogue tables and short
# operation sequences; reproduces when the oracle disagrees with the real function on one of them
import sys
sys.path.insert(0, '/verif/bounded')
import c13_native
n, bad = c13_native.replay(CLAUSE)
violated = bool(bad)
detail = f"{n} native cases; first mismatch: {bad[0] if bad else None}"
"""

# ---------------------------------------------------------------------------------------------
# extract_rows: range check (IFF) and positional take of exactly the requested positions
# ---------------------------------------------------------------------------------------------
contract(Q + 'Database.extract_rows', 'C13',
         types={'a_range': 'list[int]'},
         raises={'IndexError': 'exists(lambda q: a_range[q] < 0 or a_range[q] >= len(self.data), 0, len(a_range))'},
         may_raise=['BiogemeError'],
         ensures={
             'source': 'c13_src(result.data) is old(self.data)',
             'count': 'c13_npos(result.data) == len(a_range)',
             'positions': 'forall(lambda q: c13_pos(result.data, q) == a_range[q], 0, len(a_range))',
             'fresh_cross_section': 'result.panelColumn is None and result.excludedData == 0',
             'source_untouched': 'self.data is old(self.data)',
         },
         replay="CLAUSE = 'extract_rows'\n" + _NATIVE)

# ---------------------------------------------------------------------------------------------
# bootstrap samples: positions drawn inside the table => only existing rows / individuals
# ---------------------------------------------------------------------------------------------
contract(Q + 'Database.sample_with_replacement', 'C13',
         types={'size': 'int | None'},
         requires={'size_ok': 'size is None or size >= 0',
                   'not_empty': 'len(self.data) > 0 or size is None or size == 0'},
         ensures={
             'source': 'c13_src(result) is self.data',
             'size': 'c13_npos(result) == (len(self.data) if size is None else size)',
             'existing_rows': 'forall(lambda q: 0 <= c13_pos(result, q) and c13_pos(result, q) < len(self.data), 0, c13_npos(result))',
         },
         replay="CLAUSE = 'sample_with_replacement'\n" + _NATIVE)

contract(Q + 'Database.sample_individual_map_with_replacement', 'C13',
         types={'size': 'int | None'},
         requires={'size_ok': 'size is None or size >= 0',
                   'panel_has_map': 'implies(self.panelColumn is not None, self.individualMap is not None)',
                   'not_empty': 'implies(self.panelColumn is not None, len(self.individualMap) > 0 or size is None or size == 0)'},
         raises={'BiogemeError': 'self.panelColumn is None'},
         ensures={
             'source': 'c13_src(result) is self.individualMap',
             'size': 'c13_npos(result) == (len(self.individualMap) if size is None else size)',
             'existing_individuals': 'forall(lambda q: 0 <= c13_pos(result, q) and c13_pos(result, q) < len(self.individualMap), 0, c13_npos(result))',
         },
         replay="CLAUSE = 'sample_individual_map'\n" + _NATIVE)

# ---------------------------------------------------------------------------------------------
# split: fold i validates on chunk i and estimates on the concatenation of exactly the other chunks
# ---------------------------------------------------------------------------------------------
_G = "(self.panelColumn if self.panelColumn is not None else groups)"
# chunk q of the partition that array_split makes of the shuffled rows / of the shuffled group ids
_ROWS_CHUNK = "c13_pd('chunk', c13_pd('sample$frac', self.data, 1), slices, Q)"
_IDS_CHUNK = f"c13_pd('chunk', c13_pd('shuffled', c13_pd('unique', c13_pd('col', self.data, typed({_G}, 'str')))), slices, Q)"
_GROUP_ROWS = f"c13_pd('mask', self.data, c13_pd('isin', c13_pd('col', self.data, typed({_G}, 'str')), {_IDS_CHUNK}))"


def _chunk(q):
    return (f"ite({_G} is None, {_ROWS_CHUNK}, {_GROUP_ROWS})").replace('Q', q)


contract(Q + 'Database.split', 'C13',
         types={'slices': 'int', 'groups': 'str | None'},
         raises={'BiogemeError': 'slices < 2 or (groups is not None and self.panelColumn is not None and groups != self.panelColumn)'},
         ensures={
             'n_folds': 'len(result) == slices',
             'validation_is_chunk': f"forall(lambda i: same(result[i].validation, {_chunk('i')}), 0, slices)",
             'estimation_n_parts': "forall(lambda i: c13_nparts(result[i].estimation) == slices - 1, 0, slices)",
             'estimation_is_complement': "forall(lambda i: forall(lambda j: same(c13_part(result[i].estimation, j), "
                                         f"{_chunk('(j if j < i else j + 1)')}), 0, slices - 1), 0, slices)",
             'table_untouched': 'self.data is old(self.data)',
         },
         invariants={1: {'clauses': {
             'lens': 'len(estimation_sets) == _k and len(validation_sets) == _k',
             # the frames collected so far are existing objects, distinct from the two lists that grow
             'allocated': 'forall(lambda q: c13_allocated(estimation_sets[q]) and estimation_sets[q] is not estimation_sets '
                          'and estimation_sets[q] is not validation_sets, 0, _k)',
             'val': 'forall(lambda q: same(validation_sets[q], the_slices[q]), 0, _k)',
             'est_n': 'forall(lambda q: c13_nparts(estimation_sets[q]) == len(the_slices) - 1, 0, _k)',
             'est': 'forall(lambda q: forall(lambda j: same(c13_part(estimation_sets[q], j), '
                    'the_slices[(j if j < q else j + 1)]), 0, len(the_slices) - 1), 0, _k)',
         }}},
         replay="CLAUSE = 'split'\n" + _NATIVE)
