"""C17 (round 3, agent c17d): lemma linking the two ways the piecewise variables are written in the contracts.

contracts/c17d_piecewise.py proves the VALUE of every built variable in the max / min form of the documentation (PWV_DOC),
contracts/piecewise.py proves piecewise_function against the case form PWV (requires increasing thresholds).  For t_q < t_q+1
the two forms are the same real function (z3, all reals): hence, for increasing thresholds,
    value(piecewise_formula(x, thresholds, betas)) == piecewise_function(value(x), thresholds, values of betas).
No contract is registered here (not a contract module): used by props/C17.extra only.
"""
import time

import z3

from pyvc.driver import Extra


def lemma_extras():
    t0 = time.time()
    x, a, b = z3.Reals('x a b')

    def mn(u, v):
        return z3.If(u <= v, u, v)

    def mx0(u):
        return z3.If(0 >= u, z3.RealVal(0), u)
    cases = {
        # (documentation form, case form of contracts/piecewise.py)
        'open lower end': (mn(x, b), z3.If(x < b, x, b)),
        'open upper end': (mx0(x - a), z3.If(x - a > 0, x - a, 0)),
        'closed interval': (mx0(mn(x - a, b - a)), z3.If(x - a < 0, 0, z3.If(x - a < b - a, x - a, b - a))),
    }
    bad = []
    for label, (doc, case) in cases.items():
        s = z3.Solver()
        s.set('timeout', 10000)
        s.add(a < b, doc != case)
        r = str(s.check())
        if r != 'unsat':
            bad.append({'case': label, 'solver': r, 'model': str(s.model()) if r == 'sat' else ''})
    name = 'C17:lemma:piecewise:documentation-form-is-case-form-for-increasing-thresholds'
    if bad:
        st = 'failed' if any(b_['solver'] == 'sat' for b_ in bad) else 'unknown'
        return [Extra(name, 'lemma', st, f'z3-{z3.get_version_string()}', time.time() - t0, str(bad)[:600], {'cases': bad})]
    return [Extra(name, 'lemma', 'discharged', f'z3-{z3.get_version_string()}', time.time() - t0,
                  'max(0, min(x - a, b - a)) == ite(x - a < 0, 0, ite(x - a < b - a, x - a, b - a)) for a < b (and the two open-end forms), all reals')]
