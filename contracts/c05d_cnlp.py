"""C05 (round 3, agent c05d): ln G_i of the CROSS-NESTED logit model for every number of nests and alternatives.

models.cnl.get_mev_for_cross_nested on the real node constructors / operator overloads (contracts/c05c_nodes.py,
contracts/c05d_nodes.py).  Nest parameters and allocation parameters are Expression objects (OneNestForCrossNestedLogit
converts the allocation dictionary with get_dict_expressions), nest parameters of value != 0, allocation parameters of
value > 0.  Products / powers / quotients of symbolic reals are uninterpreted (nla_uf): the obligations are equalities of TERMS.
"""
from pyvc.contract import contract, field_type

import contracts.c05c_builders as Bd   # noqa: F401
import contracts.c05c_nested as Ne     # noqa: F401
import contracts.c05c_nodes as N       # noqa: F401
import contracts.c05d_nodes as Nd      # noqa: F401

P = 'C05'
M = 'biogeme.models.cnl.'

field_type('NestsForCrossNestedLogit', 'tuple_of_nests', 'list[OneNestForCrossNestedLogit]')
field_type('OneNestForCrossNestedLogit', 'nest_param', 'Expression')
field_type('OneNestForCrossNestedLogit', 'dict_of_alpha', 'dict[int, Expression]')
field_type('OneNestForCrossNestedLogit', 'list_of_alternatives', 'list[int]')

# ASSUMED (pure, not verified: dict / set comprehensions over the nests are outside the engine): the validity check is a
# function of the nests object; nothing is assumed about WHEN it accepts - the facts the builder needs about the nests are
# `requires` clauses of the builder, proved at its call sites
contract('biogeme.nests.NestsForCrossNestedLogit.check_validity', P, verify=False, pure=True, returns='tuple[bool, str]',
         ensures={}, note='assumed: check_validity is a pure function of the nests object (no fact about its result is assumed)')

T = 'nests.tuple_of_nests'
AV = 'availability'
DA = lambda q: f'{T}[{q}].dict_of_alpha'                    # noqa: E731
KEY = lambda q, p: f'keys_of({DA(q)})[{p}]'                 # noqa: E731
IN_ALONE = lambda x: f"(nests.alone is not None and {x} in typed(nests.alone, 'set[int]'))"     # noqa: E731
ALL_QP = lambda body, hi=f'len({T})': f"forall(lambda q: forall(lambda p: {body}, 0, len({DA('q')})), 0, {hi})"   # noqa: E731

_REQ = {
    'python_dict': f'c05c_dict_wf({AV})',
    'nest_parameters_nonzero': f"forall(lambda q: c05c_val({T}[q].nest_param) != 0, 0, len({T}))",
    'allocation_parameters_positive': ALL_QP(f"c05c_val({DA('q')}[{KEY('q', 'p')}]) > 0"),
    'nest_alternatives_have_utilities': ALL_QP(f"{KEY('q', 'p')} in util"),
    'nest_alternatives_are_not_alone': ALL_QP(f"not {IN_ALONE(KEY('q', 'p'))}"),
    'nest_alternatives_have_availabilities': f"implies({AV} is not None, " + ALL_QP(f"{KEY('q', 'p')} in {AV}") + ")",
    'every_alternative_alone_or_in_a_nest':
        f"forall(lambda r: {IN_ALONE('keys_of(util)[r]')} or exists(lambda a: keys_of(util)[r] in {DA('a')}, 0, len({T})), 0, len(util))",
}


K = 'c05c_pos(m)'
MU = 'c05c_val(m.nest_param)'
_KM = 'keys_of(m.dict_of_alpha)[_k - 1]'
_LST = f'gi_terms[{_KM}]'
TERM = (f"c05c_val(m.dict_of_alpha[{_KM}]) ** {MU} * app('numpy.exp', ({MU} - 1) * c05c_val(util[{_KM}])) * "
        f"c05d_cnsum(m, util, {AV}) ** ((1.0 - {MU}) / {MU})")
INNER = {'current_nest': f"0 <= {K} and {K} < len({T}) and m is {T}[{K}]",
         'inner_sum': f"c05c_val(biosum) == c05d_cnsum(m, util, {AV})",
         'nest_parameter_nonzero': f"{MU} != 0",
         'appended_term': f"c05c_cut('appended_term:allocation-parameter-positive', lambda: implies(_k > 0, c05c_val(m.dict_of_alpha[{_KM}]) > 0)) and "
                          f"c05c_cut('appended_term:list-extended', lambda: implies(_k > 0, len({_LST}) > 0)) and "
                          f"implies(_k > 0, c05c_val({_LST}[len({_LST}) - 1]) == {TERM})"}
GT_NEW = "forall(lambda x: implies(x in gi_terms, c05d_new(gi_terms[x])), ty='int')"
FR = {'entry_containers_unchanged': 'c05d_entry_kept()', 'lists_new': GT_NEW}
INNER.update(FR)
contract(M + 'get_mev_for_cross_nested', P, nla_uf=True, check_safe=False,
         types={'util': 'dict[int, Expression]', AV: 'dict[int, Expression] | None', 'nests': 'NestsForCrossNestedLogit'},
         requires={k: _REQ[k] for k in ('python_dict', 'nest_parameters_nonzero', 'allocation_parameters_positive')},
         may_raise=['BiogemeError', 'KeyError'], modifies=[],
         ensures={},
         invariants={1: {'clauses': FR}, 2: {'clauses': dict(FR, visited='forall(lambda p: c05d_iter_elem(p) == c05d_iter_elem(p), 0, _k)')},
                     3: {'clauses': FR}, 4: {'clauses': INNER}, 5: {'clauses': INNER},
                     6: {'clauses': FR}, 7: {'clauses': INNER}, 8: {'clauses': INNER},
                     9: {'clauses': FR}, 10: {'clauses': FR}})
