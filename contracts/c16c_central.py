"""C16, round 2 (tag c16c): get_configuration (proved variant) and the iteration over the configurations.

CentralController.get_configuration[proved]   one selection per controller of the tuple; modifies nothing.  (That
    selection p is (name, current name) of a controller, and BiogemeError IFF two controllers share a name, go through
    the permutation of sorted(): no stable proof within 20 s -- those clauses stay bounded, c16c_ctor_native.)
SelectedExpressionsIterator.__init__/__next__/__iter__, Expression.__iter__   ghost position of the set iterator.
"""
from pyvc.contract import contract, field_type
from contracts import c16_controller, c16_configuration, c16c_ctor  # noqa

Q = 'biogeme.controller.'
_C = 'self.controllers'
_REPLAY = """
import sys
sys.path.insert(0, '/verif/bounded')
import c16c_ctor_native as N
n, bad = N.FAMILIES['get_configuration']()
violated = bool(bad)
detail = f'{n} cases; first mismatch: {bad[0] if bad else None}'
"""
_DUPC = (f'exists(lambda a: exists(lambda b: a < b and {_C}[a].controller_name == {_C}[b].controller_name, '
         f'0, len({_C})), 0, len({_C}))')
# Proved variant of get_configuration (the round-1 contract of the same function is ASSUMED and says nothing).  It is
# registered for the receiver class CentralController, so call sites (`self.get_configuration()` in the operators) now
# use THIS contract.  No `requires` (the operators establish nothing about the tuple `controllers`); the generator body
# is evaluated without safety obligations by the engine, so that every controller index is in range is the hypothesis
# of the clauses (same device as `under_inv` in c16_controller.py).
_INR = f'old(forall(lambda q: 0 <= {_C}[q].current_index < len({_C}[q].specification_names), 0, len({_C})))'
contract(Q + 'CentralController.get_configuration', 'C16', self_class='CentralController',
         label='CentralController.get_configuration[proved]',
         returns='biogeme.configuration.Configuration',
         # BiogemeError IFF two controllers of the tuple share a name (_DUPC): the direction "returns => names pairwise
         # different" goes through the permutation of sorted(); z3 proves it in 1 s in some name orders and not at all in
         # others, so the raise condition is left to the native candidates (c16c_ctor_native: get_configuration).
         may_raise=['BiogemeError', 'IndexError'],   # IndexError: an out-of-range index inside the generator (not seen by the engine)
         modifies=[],
         ensures={
             'one_selection_per_controller': f'len(result.selections) == len({_C})',
         },
         replay=_REPLAY)


# ---------------------------------------------------------------------------------------------------------------
# SelectedExpressionsIterator: the k-th call of __next__ (k = 1 .. len(configurations)) returns the expression configured
# with the element at position k-1 of the set's enumeration; call number len+1 raises StopIteration.  With the LIBSPEC
# of set enumeration (positions 0..len-1 deliver every member exactly once) every configuration is visited exactly once.
# GHOST: `configure_catalogs(c)` records c in the ghost field `ghost_configured` of the expression (no real code reads
# it); what configure_catalogs does to the controllers is the contract of CentralController.set_configuration.
# ---------------------------------------------------------------------------------------------------------------
IT = 'biogeme.expressions.catalog_iterator.SelectedExpressionsIterator.'
EXPR = 'biogeme.expressions.base_expressions.Expression'
field_type('SelectedExpressionsIterator', 'the_expression', EXPR)
field_type('SelectedExpressionsIterator', 'configurations', 'set[biogeme.configuration.Configuration]')
field_type('SelectedExpressionsIterator', 'set_iterator', 'c16c_set_iterator')
field_type('SelectedExpressionsIterator', 'first', 'bool')
field_type('SelectedExpressionsIterator', 'number', 'int')

contract(EXPR + '.configure_catalogs', 'C16', verify=False,
         modifies=['self.central_controller', '*.current_index', 'self.ghost_configured'],
         ensures={'ghost_records_the_configuration': 'same(self.ghost_configured, configuration)'})

_IT_REPLAY = """
import sys
sys.path.insert(0, '/verif/bounded')
import c16c_ctor_native as N
n, bad = N.FAMILIES['iterator']()
violated = bool(bad)
detail = f'{n} cases; first mismatch: {bad[0] if bad else None}'
"""
_CUR = 'same(self.the_expression.ghost_configured, set_at(self.configurations, iter_pos(self.set_iterator) - 1))'
contract(IT + '__init__', 'C16',
         types={'the_expression': EXPR, 'configurations': 'set[biogeme.configuration.Configuration]'},
         modifies=['self.the_expression', 'self.configurations', 'self.set_iterator', 'self.first', 'self.number',
                   'the_expression.central_controller', '*.current_index', 'the_expression.ghost_configured'],
         raises={'StopIteration': 'len(configurations) == 0'},
         ensures={
             'fields': 'self.the_expression is the_expression and self.configurations is configurations',
             'not_started': 'self.first and self.number == 0',
             'iterator_over_the_set': 'iter_over(self.set_iterator, configurations) and iter_pos(self.set_iterator) == 1',
             'configured_with_element_0': _CUR,
         },
         replay=_IT_REPLAY)

contract(IT + '__next__', 'C16',
         requires={
             'iterator_over_the_set': 'iter_over(self.set_iterator, self.configurations)',
             'first_state': 'implies(self.first, self.number == 0 and iter_pos(self.set_iterator) == 1)',
             'running_state': 'implies(not self.first, self.number >= 1 and iter_pos(self.set_iterator) == self.number)',
             'configured_with_last_delivered': _CUR,
         },
         modifies=['self.first', 'self.number', '*.$it_pos',
                   'self.the_expression.central_controller', '*.current_index', 'self.the_expression.ghost_configured'],
         raises={'StopIteration': 'not self.first and self.number >= len(self.configurations)'},
         ensures={
             'counts_calls': 'self.number == old(self.number) + 1',
             'returns_the_expression': 'result is self.the_expression',
             'running_state': 'not self.first and iter_pos(self.set_iterator) == self.number',
             'iterator_over_the_set': 'iter_over(self.set_iterator, self.configurations)',
             # call number k leaves the expression configured with element k-1 of the enumeration
             'configured_with_element_number_minus_1':
                 'same(self.the_expression.ghost_configured, set_at(self.configurations, self.number - 1))',
         },
         replay=_IT_REPLAY)

contract(IT + '__iter__', 'C16', ensures={'itself': 'result is self'}, replay=_IT_REPLAY)

# Expression.__iter__: a fresh iterator over set_of_configurations() (ASSUMED abstract: it builds the central controller;
# returns the set `central_controller.all_configurations`), not started, positioned on the first element.
contract(EXPR + '.set_of_configurations', 'C16', verify=False,
         returns='set[biogeme.configuration.Configuration]',
         modifies=['self.central_controller'],
         ensures={'is_the_central_set': 'same(result, self.central_controller.all_configurations)'})
contract(EXPR + '.__iter__', 'C16',
         returns='biogeme.expressions.catalog_iterator.SelectedExpressionsIterator',
         modifies=['self.central_controller', '*.current_index', 'self.ghost_configured'],
         may_raise=['StopIteration'],
         ensures={
             'iterates_over_this_expression': 'result.the_expression is self',
             'not_started': 'result.first and result.number == 0 and iter_pos(result.set_iterator) == 1',
             'configured_with_element_0': 'same(self.ghost_configured, set_at(result.configurations, 0))',
         },
         replay=_IT_REPLAY)
