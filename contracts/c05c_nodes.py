"""C05 (round 2): value semantics of the expression NODES the model builders create.

Layer 1  K.get_value == defining equation over the children's values (same text as contracts/c01_values.py, which
         cannot be imported next to contracts/c05_logit.py: both define Expression.get_value / LogLogit.get_value).
Layer 2  constructors:  after K.__init__(args) the value of the new node, c05c_val(self), is the defining equation over
         the NUMERIC MEANING c05c_num(.) of the constructor arguments (real __init__ bodies: Expression.__init__,
         validate_and_convert, field stores).
Layer 3  operator overloading: Expression.__add__ & co. return a node whose value is the arithmetic of the operands.
The value function c05c_val and the dispatch link are in specs/c05c_specs.py.
"""
from pyvc.contract import contract, field_type
from pyvc.libext import c05c_tree

import contracts.c05_logit   # noqa: F401  (abstract Expression.get_value + LogLogit.get_value kernel contract)

c05c_tree.ENABLED = True

P = 'C05'
B = 'biogeme.expressions.'

_REPLAY_NODES = '''
# value semantics of the expression nodes on the real Python evaluator (fixed candidates): constructors, operator
# overloads, validate_and_convert, n-ary sums, log-logit node
import logging, math, warnings
logging.disable(logging.CRITICAL); warnings.filterwarnings('ignore')
from biogeme.expressions import (Beta, Numeric, exp, log, logzero, bioMultSum, ConditionalSum, ConditionalTermTuple,
                                 validate_and_convert)
from biogeme.expressions.logit_expressions import LogLogit, _bioLogLogit, _bioLogLogitFullChoiceSet
a, b = Beta('a', 0.75, None, None, 0), Beta('b', -1.5, None, None, 0)
x, y = 0.75, -1.5
checks = [
    ('a + b', (a + b).get_value(), x + y), ('a - b', (a - b).get_value(), x - y), ('a * b', (a * b).get_value(), x * y),
    ('a / b', (a / b).get_value(), x / y), ('2.0 / a', (2.0 / a).get_value(), 2.0 / x), ('a - 1.0', (a - 1.0).get_value(), x - 1.0),
    ('3 - a', (3 - a).get_value(), 3 - x), ('2 * b', (2 * b).get_value(), 2 * y), ('1 + b', (1 + b).get_value(), 1 + y),
    ('a != b', (a != b).get_value(), 1.0), ('a != 0.75', (a != Numeric(0.75)).get_value(), 0.0),
    ('exp(b)', exp(b).get_value(), math.exp(y)), ('log(a)', log(a).get_value(), math.log(x)),
    ('logzero(0)', logzero(Numeric(0)).get_value(), 0.0), ('logzero(a)', logzero(a).get_value(), math.log(x)),
    ('Numeric(2)', Numeric(2).get_value(), 2.0), ('convert(True)', validate_and_convert(True).get_value(), 1.0),
    ('convert(False)', validate_and_convert(False).get_value(), 0.0), ('convert(3)', validate_and_convert(3).get_value(), 3.0),
    ('convert(a) is a', 1.0 if validate_and_convert(a) is a else 0.0, 1.0),
    ('bioMultSum', bioMultSum([a, b, a]).get_value(), x + y + x),
    ('ConditionalSum', ConditionalSum([ConditionalTermTuple(condition=Numeric(1), term=a), ConditionalTermTuple(condition=Numeric(0), term=b),
                                       ConditionalTermTuple(condition=b, term=b)]).get_value(), x + y),
]
V, av = {1: a, 3: b, 4: Numeric(0.25)}, {1: Numeric(1), 3: Numeric(1), 4: Numeric(0)}
for cls, args, want in ((LogLogit, (V, av, 3), -math.log(math.exp(x - y) + 1.0)), (_bioLogLogit, (V, av, Numeric(1)), -math.log(1.0 + math.exp(y - x))),
                        (LogLogit, (V, None, 4), -math.log(math.exp(x - 0.25) + math.exp(y - 0.25) + 1.0)),
                        (_bioLogLogitFullChoiceSet, (V, 1), -math.log(1.0 + math.exp(y - x) + math.exp(0.25 - x)))):
    node = cls(*args)
    checks.append((f'{cls.__name__}{tuple(args[1:])}', node.get_value(), want))
    checks.append((f'{cls.__name__} keeps the utilities', 1.0 if list(node.util) == list(V) and all(node.util[k] is V[k] for k in V) else 0.0, 1.0))
violated = False
for what, got, want in checks:
    if not (abs(got - want) <= 1e-12 * max(1.0, abs(want))):
        violated = True
        detail = f'{what}: real evaluator gives {got!r}, defining equation {want!r}'
        break
'''

for cls, fld in (('BinaryOperator', 'left'), ('BinaryOperator', 'right'), ('UnaryOperator', 'child'),
                 ('ComparisonOperator', 'left'), ('ComparisonOperator', 'right')):
    field_type(cls, fld, 'Expression')
field_type('Numeric', 'value', 'float')
field_type('PowerConstant', 'exponent', 'float')
field_type('PowerConstant', 'integer_exponent', 'int | None')
field_type('Expression', 'children', 'list[Expression]')
field_type('ConditionalTermTuple', 'condition', 'Expression')
field_type('ConditionalTermTuple', 'term', 'Expression')
field_type('ConditionalSum', 'list_of_terms', 'list[ConditionalTermTuple]')

L, R, C = 'self.left.get_value()', 'self.right.get_value()', 'self.child.get_value()'

# ---------------------------------------------------------------- layer 1: get_value of the node classes
BINARY = {'Plus': f'{L} + {R}', 'Minus': f'{L} - {R}', 'Times': f'{L} * {R}', 'Power': f'{L} ** {R}'}
for cls, sem in BINARY.items():
    contract(B + f'binary_expressions.{cls}.get_value', P, ensures={'sem': f'result == {sem}'}, modifies=[])
contract(B + 'binary_expressions.Divide.get_value', P, requires={'nonzero_divisor': f'{R} != 0'},
         ensures={'sem': f'result == {L} / {R}'}, modifies=[])
contract(B + 'comparison_expressions.NotEqual.get_value', P, ensures={'sem': f'result == ite({L} != {R}, 1, 0)'}, modifies=[])
UNARY = {'exp': f"app('numpy.exp', {C})", 'log': f"app('numpy.log', {C})",
         'logzero': f"ite({C} == 0, 0, app('numpy.log', {C}))"}
for cls, sem in UNARY.items():
    contract(B + f'unary_expressions.{cls}.get_value', P, ensures={'sem': f'result == {sem}'}, modifies=[])
contract(B + 'numeric_expressions.Numeric.get_value', P, ensures={'sem': 'result == self.value'}, modifies=[])

# ---------------------------------------------------------------- layer 2: constructors
_EXPR_FIELDS = ['self.children', 'self.id_manager', 'self.keep_id_manager', 'self.fixedBetaValues', 'self.numberOfDraws',
                'self._row', 'self.missingData', 'self.central_controller']

contract(B + 'numeric_expressions.Numeric.__init__', P, types={'value': 'float'},
         modifies=_EXPR_FIELDS + ['self.value'],
         ensures={'value': 'c05c_val(self) == value'})

contract(B + 'convert.validate_and_convert', P, pure=True, returns='Expression', check_frame=False,
         raises={'TypeError': 'not isinstance(expression, (int, float, bool)) and not isinstance(expression, Expression)'},
         ensures={'value': 'c05c_val(result) == c05c_num(expression)',
                  'identity_on_expressions': 'implies(isinstance(expression, Expression), result is expression)'},
         note='pure: the Numeric node wrapped around a number is a function of the number (allocation abstracted)')

contract(B + 'unary_expressions.UnaryOperator.__init__', P, exact_self=False,
         modifies=_EXPR_FIELDS + ['self.child'],
         raises={'TypeError': 'not isinstance(child, (int, float, bool)) and not isinstance(child, Expression)'},
         ensures={'child': 'c05c_val(self.child) == c05c_num(child)',
                  'child_identity': 'implies(isinstance(child, Expression), self.child is child)'})
for cls, sem in (('exp', "app('numpy.exp', c05c_num(child))"), ('log', "app('numpy.log', c05c_num(child))"),
                 ('logzero', "ite(c05c_num(child) == 0, 0, app('numpy.log', c05c_num(child)))")):
    contract(B + f'unary_expressions.{cls}.__init__', P,
             modifies=_EXPR_FIELDS + ['self.child'],
             raises={'TypeError': 'not isinstance(child, (int, float, bool)) and not isinstance(child, Expression)'},
             ensures={'value': f'c05c_val(self) == {sem}',
                      'child_identity': 'implies(isinstance(child, Expression), self.child is child)'})

_NOT_OPERAND = 'not isinstance({0}, (int, float, bool)) and not isinstance({0}, Expression)'
contract(B + 'binary_expressions.BinaryOperator.__init__', P, exact_self=False,
         modifies=_EXPR_FIELDS + ['self.left', 'self.right'],
         raises={'TypeError': f"({_NOT_OPERAND.format('left')}) or ({_NOT_OPERAND.format('right')})"},
         ensures={'left': 'c05c_val(self.left) == c05c_num(left)', 'right': 'c05c_val(self.right) == c05c_num(right)'})
NL, NR = 'c05c_num(left)', 'c05c_num(right)'
BIN_INIT = {'binary_expressions.Plus': f'{NL} + {NR}', 'binary_expressions.Minus': f'{NL} - {NR}',
            'binary_expressions.Times': f'{NL} * {NR}', 'binary_expressions.Power': f'{NL} ** {NR}',
            'comparison_expressions.NotEqual': f'ite({NL} != {NR}, 1, 0)'}
for q, sem in BIN_INIT.items():
    contract(B + q + '.__init__', P, modifies=_EXPR_FIELDS + ['self.left', 'self.right'],
             raises={'TypeError': f"({_NOT_OPERAND.format('left')}) or ({_NOT_OPERAND.format('right')})"},
             ensures={'value': f'c05c_val(self) == {sem}'})
contract(B + 'binary_expressions.Divide.__init__', P, modifies=_EXPR_FIELDS + ['self.left', 'self.right'],
         raises={'TypeError': f"({_NOT_OPERAND.format('left')}) or ({_NOT_OPERAND.format('right')})"},
         ensures={'value': f'implies({NR} != 0, c05c_val(self) == {NL} / {NR})'})
contract(B + 'comparison_expressions.ComparisonOperator.__init__', P, exact_self=False,
         modifies=_EXPR_FIELDS + ['self.left', 'self.right'],
         raises={'TypeError': f"({_NOT_OPERAND.format('left')}) or ({_NOT_OPERAND.format('right')})"},
         ensures={'left': 'c05c_val(self.left) == c05c_num(left)', 'right': 'c05c_val(self.right) == c05c_num(right)'})

# ---------------------------------------------------------------- layer 3: operator overloading (real bodies)
_BAD = 'not (is_numeric(other) or isinstance(other, Expression))'
OPS = {'__add__': 'c05c_val(self) + c05c_num(other)', '__sub__': 'c05c_val(self) - c05c_num(other)',
       '__mul__': 'c05c_val(self) * c05c_num(other)', '__rmul__': 'c05c_num(other) * c05c_val(self)',
       '__radd__': 'c05c_num(other) + c05c_val(self)', '__rsub__': 'c05c_num(other) - c05c_val(self)',
       '__ne__': 'ite(c05c_val(self) != c05c_num(other), 1, 0)'}
for op, sem in OPS.items():
    contract(B + f'base_expressions.Expression.{op}', P, pure=True, returns='Expression', exact_self=False,
             raises={'BiogemeError': _BAD},
             ensures={'value': f'c05c_val(result) == {sem}'},
             note='pure: the node built by the operator is a function of the operands (allocation abstracted)')
contract(B + 'base_expressions.Expression.__truediv__', P, pure=True, returns='Expression', exact_self=False,
         raises={'BiogemeError': _BAD},
         ensures={'value': 'implies(c05c_num(other) != 0, c05c_val(result) == c05c_val(self) / c05c_num(other))'})
contract(B + 'base_expressions.Expression.__rtruediv__', P, pure=True, returns='Expression', exact_self=False,
         raises={'BiogemeError': _BAD},
         ensures={'value': 'implies(c05c_val(self) != 0, c05c_val(result) == c05c_num(other) / c05c_val(self))'})

# ---------------------------------------------------------------- n-ary nodes
_MS = "sum_range(lambda q: self.children[q].get_value(), 0, LIM)"
contract(B + 'nary_expressions.bioMultSum.get_value', P, modifies=[],
         ensures={'sem': f"result == {_MS.replace('LIM', 'len(self.children)')}"},
         invariants={1: {'clauses': {'partial': f"result == {_MS.replace('LIM', '_k')}"}}})
_CS = ("sum_range(lambda q: ite(self.list_of_terms[q].condition.get_value() != 0, "
       "self.list_of_terms[q].term.get_value(), 0.0), 0, LIM)")
contract(B + 'nary_expressions.ConditionalSum.get_value', P, modifies=[],
         ensures={'sem': f"result == {_CS.replace('LIM', 'len(self.list_of_terms)')}"},
         invariants={1: {'clauses': {'partial': f"result == {_CS.replace('LIM', '_k')}"}}})

contract(B + 'nary_expressions.bioMultSum.__init__', P, types={'list_of_expressions': 'list[Expression]'},
         modifies=_EXPR_FIELDS,
         raises={'BiogemeError': 'not list_of_expressions'},
         ensures={'value': 'c05c_val(self) == sum_range(lambda q: c05c_val(list_of_expressions[q]), 0, len(list_of_expressions))'},
         invariants={1: {'clauses': {
             'copied': 'len(self.children) == _k and forall(lambda q: self.children[q] is list_of_expressions[q], 0, _k)',
             'argument_kept': 'len(list_of_expressions) == old(len(list_of_expressions))'}}},
         note='argument restricted to a list of Expression objects (the builders pass lists of nodes)')

contract(B + 'nary_expressions.ConditionalSum.__init__', P, types={'list_of_terms': 'list[ConditionalTermTuple]'},
         modifies=_EXPR_FIELDS + ['self.list_of_terms'],
         raises={'BiogemeError': 'not list_of_terms'},
         ensures={'value': 'c05c_val(self) == sum_range(lambda q: ite(c05c_val(list_of_terms[q].condition) != 0, '
                           'c05c_val(list_of_terms[q].term), 0.0), 0, len(list_of_terms))'},
         invariants={1: {'clauses': {
             'terms_kept': 'len(self.list_of_terms) == len(list_of_terms) and len(list_of_terms) == old(len(list_of_terms)) and '
                           'forall(lambda q: self.list_of_terms[q].condition is list_of_terms[q].condition and '
                           'self.list_of_terms[q].term is list_of_terms[q].term, 0, len(list_of_terms))'}}})

# ---------------------------------------------------------------- the log-logit node
# LogLogit.get_value is under contract in contracts/c05_logit.py (kernel over the node's own dictionaries); the
# constructor copies the dictionaries of the caller: the value of the new node is the kernel over the ARGUMENTS.
_CH = 'int(c05c_num(choice))'
_K = 'keys_of(util)[q]'
_SAME = 'forall(lambda q: keys_of(util)[q] in av, 0, len(util))'
_T_AV = (f"ite(c05c_val(typed(av, 'dict[int, Expression]')[{_K}]) != 0.0, "
         f"app('numpy.exp', c05c_val(util[{_K}]) - c05c_val(util[{_CH}])), 0.0)")
_T_FULL = f"app('numpy.exp', c05c_val(util[{_K}]) - c05c_val(util[{_CH}]))"
# pointwise agreement of the kernel terms over the node's own dictionaries (contract of LogLogit.get_value) and over the
# constructor arguments: proved first (cut), then the sum-congruence lemma closes the equality of the two sums
_F_KEY = 'keys_of(NODE.util)[q]'
_F_CH = 'int(NODE.choice.get_value())'
_F_AV = (f"ite(NODE.av[{_F_KEY}].get_value() != 0.0, "
         f"app('numpy.exp', NODE.util[{_F_KEY}].get_value() - NODE.util[{_F_CH}].get_value()), 0.0)")
_A_AV = (f"av is not None and {_CH} in util and {_CH} in av and {_SAME} and "
         f"c05c_val(typed(av, 'dict[int, Expression]')[{_CH}]) != 0.0")
_A_FULL = f"av is None and {_CH} in util"
_S_NODE = f"sum_range(lambda q: {_F_AV}, 0, len(NODE.util))"
LOGLOGIT_ENSURES = {
    'kernel': f"c05c_cut('kernel:terms-agree', lambda: implies({_A_AV}, "
              f"forall(lambda q: {_F_AV} == {_T_AV}, 0, len(util)))) and "
              f"c05c_cut('kernel:sums-agree', lambda: implies({_A_AV}, "
              f"{_S_NODE} == sum_range(lambda q: {_T_AV}, 0, len(util)))) and "
              f"implies({_A_AV}, c05c_val(NODE) == -app('numpy.log', sum_range(lambda q: {_T_AV}, 0, len(util))))",
    'unavailable_choice': f"implies(av is not None and {_CH} in util and {_CH} in av and {_SAME} and "
                          f"c05c_val(typed(av, 'dict[int, Expression]')[{_CH}]) == 0.0, c05c_val(NODE) == -c05c_inf())",
    'kernel_full_choice_set': f"c05c_cut('kernel_full:terms-agree', lambda: implies({_A_FULL}, "
                              f"forall(lambda q: {_F_AV} == {_T_FULL}, 0, len(util)))) and "
                              f"c05c_cut('kernel_full:sums-agree', lambda: implies({_A_FULL}, "
                              f"{_S_NODE} == sum_range(lambda q: {_T_FULL}, 0, len(util)))) and "
                              f"implies({_A_FULL}, c05c_val(NODE) == -app('numpy.log', sum_range(lambda q: {_T_FULL}, 0, len(util))))",
}
_UTIL_COPIED = ('len(self.util) == len(util) and forall(lambda q: keys_of(self.util)[q] == keys_of(util)[q] and '
                'self.util[keys_of(util)[q]] is util[keys_of(util)[q]], 0, len(util)) and '
                "forall(lambda x: (x in self.util) == (x in util), ty='int')")
_AVD = "typed(av, 'dict[int, Expression]')"
_AV_COPIED = (f"implies(av is not None, len(self.av) == len({_AVD}) and "
              f"forall(lambda q: keys_of(self.av)[q] == keys_of({_AVD})[q] and "
              f"self.av[keys_of({_AVD})[q]] is {_AVD}[keys_of({_AVD})[q]], 0, len({_AVD})) and "
              f"forall(lambda x: (x in self.av) == (x in {_AVD}), ty='int'))")
_AV_ONES = ('implies(av is None, len(self.av) == len(util) and forall(lambda q: keys_of(self.av)[q] == keys_of(util)[q] and '
            "c05c_val(self.av[keys_of(util)[q]]) == 1, 0, len(util)) and forall(lambda x: (x in self.av) == (x in util), ty='int'))")
_CHOICE = 'c05c_val(self.choice) == c05c_num(choice)'
_KEPT = ("len(util) == old(len(util)) and implies(av is not None, len(typed(av, 'dict[int, Expression]')) == old(len(typed(av, 'dict[int, Expression]'))))")
_UTIL_BY_KEY = "forall(lambda x: implies(x in util, self.util[x] is util[x]), ty='int')"
_AV_BY_KEY = f"implies(av is not None, forall(lambda x: implies(x in {_AVD}, self.av[x] is {_AVD}[x]), ty='int'))"
_AV_ONES_BY_KEY = "implies(av is None, forall(lambda x: implies(x in util, c05c_val(self.av[x]) == 1), ty='int'))"
_AV_DOM = (f"implies(av is not None, forall(lambda x: (x in self.av) == (x in {_AVD}), ty='int')) and "
           "implies(av is None, forall(lambda x: (x in self.av) == (x in util), ty='int'))")
# the same facts in the shape of the kernel terms (one instantiation per position)
_UTIL_POS = 'forall(lambda q: self.util[keys_of(self.util)[q]] is util[keys_of(util)[q]], 0, len(util))'
_AV_POS = (f"implies(av is not None, forall(lambda q: implies(keys_of(util)[q] in {_AVD}, "
           f"self.av[keys_of(self.util)[q]] is {_AVD}[keys_of(util)[q]]), 0, len(util)))")
_AV_ONES_POS = 'implies(av is None, forall(lambda q: c05c_val(self.av[keys_of(self.util)[q]]) == 1, 0, len(util)))'
_INV = {'util_pos': _UTIL_POS, 'av_pos': _AV_POS, 'av_ones_pos': _AV_ONES_POS, 'util_copied': _UTIL_COPIED, 'av_copied': _AV_COPIED, 'av_ones': _AV_ONES, 'choice': _CHOICE,
        'util_by_key': _UTIL_BY_KEY, 'av_by_key': _AV_BY_KEY, 'av_ones_by_key': _AV_ONES_BY_KEY, 'av_dom': _AV_DOM}
# what callers get: keys of util by position, values by key, domains (the positional facts about av stay loop invariants only)
_ENS = {k: _INV[k] for k in ('util_copied', 'util_by_key', 'av_dom', 'av_by_key', 'av_ones_by_key', 'choice',
                             'util_pos', 'av_pos', 'av_ones_pos')}
contract(B + 'logit_expressions.LogLogit.__init__', P, exact_self=False,
         types={'util': 'dict[int, Expression]', 'av': 'dict[int, Expression] | None'},
         modifies=_EXPR_FIELDS + ['self.util', 'self.av', 'self.choice'],
         raises={'TypeError': _NOT_OPERAND.format('choice')},
         requires={'python_dict': 'c05c_dict_wf(av)'},
         ensures=dict(_ENS),
         # the two construction paths (av None / given) are kept apart, each runs the two loops: ordinals 1-4
         invariants={k: {'clauses': dict(_INV)} for k in (1, 2, 3, 4)},
         note='dictionaries restricted to Expression values (numbers in the dictionaries: bounded translation validation only)')
# the subclass overrides __init__ (util, choice): needs its own contract (the core would otherwise apply the parent's
# contract to the subclass's argument list)
contract(B + 'logit_expressions._bioLogLogitFullChoiceSet.__init__', P,
         types={'util': 'dict[int, Expression]'},
         modifies=_EXPR_FIELDS + ['self.util', 'self.av', 'self.choice'],
         raises={'TypeError': _NOT_OPERAND.format('choice')},
         ensures={'util_copied': _UTIL_COPIED, 'choice': _CHOICE, 'util_by_key': _UTIL_BY_KEY,
                  'av_dom': "forall(lambda x: (x in self.av) == (x in util), ty='int')",
                  'av_ones_by_key': _AV_ONES_BY_KEY.replace('implies(av is None, ', '(', 1),
                  'util_pos': _UTIL_POS, 'av_ones_pos': _AV_ONES_POS.replace('implies(av is None, ', '(', 1)})


# one native replay for every contract of this module (fixed candidates on the real evaluator)
from pyvc.contract import REGISTRY as _REG   # noqa: E402
for _k, _c in _REG.contracts.items():
    if P in _c.props and _c.verify and _c.replay is None and _k.startswith(B) and 'LogLogit.get_value' not in _k:
        _c.replay = _REPLAY_NODES
