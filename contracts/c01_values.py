"""C01: the pure-Python evaluator returns the mathematical value (one defining equation per
node kind, children's values through the abstract get_value contract = structural induction)."""
from pyvc.contract import contract, field_type

B = 'biogeme.expressions.'

# abstract method: value of an arbitrary sub-formula (the induction hypothesis)
contract(B + 'base_expressions.Expression.get_value', ['C01', 'C05'], verify=False, pure=True, returns='float',
         ensures={'t': 'True'}, note='abstract contract: the value SEM(e) of a sub-formula; deterministic, no side effect')

for cls, fld in (('BinaryOperator', 'left'), ('BinaryOperator', 'right'), ('UnaryOperator', 'child'),
                 ('ComparisonOperator', 'left'), ('ComparisonOperator', 'right')):
    field_type(cls, fld, 'Expression')
field_type('Numeric', 'value', 'float')
field_type('biogeme.expressions.beta_parameters.Beta', 'initValue', 'float')
field_type('PowerConstant', 'exponent', 'float')
field_type('PowerConstant', 'integer_exponent', 'int | None')

L, R = 'self.left.get_value()', 'self.right.get_value()'
C = 'self.child.get_value()'

BINARY = {
    'Plus': (f'{L} + {R}', {}),
    'Minus': (f'{L} - {R}', {}),
    'Times': (f'{L} * {R}', {}),
    'Divide': (f'{L} / {R}', {'nonzero_divisor': f'{R} != 0'}),
    'Power': (f'{L} ** {R}', {}),
    'bioMin': (f'ite({L} <= {R}, {L}, {R})', {}),
    'bioMax': (f'ite({L} >= {R}, {L}, {R})', {}),
    'And': (f'ite({L} != 0 and {R} != 0, 1.0, 0.0)', {}),
    'Or': (f'ite({L} != 0 or {R} != 0, 1.0, 0.0)', {}),
}
for cls, (sem, req) in BINARY.items():
    contract(B + f'binary_expressions.{cls}.get_value', 'C01', requires=req,
             ensures={'sem': f'result == {sem}'}, modifies=[])

COMPARISON = {'Equal': '==', 'NotEqual': '!=', 'LessOrEqual': '<=', 'GreaterOrEqual': '>=', 'Less': '<', 'Greater': '>'}
for cls, op in COMPARISON.items():
    contract(B + f'comparison_expressions.{cls}.get_value', 'C01',
             ensures={'sem': f'result == ite({L} {op} {R}, 1, 0)'}, modifies=[])

UNARY = {
    'UnaryMinus': f'-{C}',
    'exp': f"app('numpy.exp', {C})",
    'sin': f"app('numpy.sin', {C})",
    'cos': f"app('numpy.cos', {C})",
    'log': f"app('numpy.log', {C})",
    'logzero': f"ite({C} == 0, 0, app('numpy.log', {C}))",
}
for cls, sem in UNARY.items():
    contract(B + f'unary_expressions.{cls}.get_value', 'C01', ensures={'sem': f'result == {sem}'}, modifies=[])

# round 3 (m4): the domain is no longer a precondition: outside it (negative base, non-integer exponent) the evaluator REFUSES
# (BiogemeError since the repair `raise BiogemeError(error_msg)`; before, a str was raised, i.e. a TypeError)
contract(B + 'unary_expressions.PowerConstant.get_value', 'C01',
         raises={'BiogemeError': f'{C} < 0 and self.integer_exponent is None'},
         ensures={'sem': f"result == ite({C} == 0, 0.0, ite({C} > 0, {C} ** self.exponent, {C} ** typed(self.integer_exponent, 'int')))"},
         modifies=[])
contract(B + 'numeric_expressions.Numeric.get_value', 'C01', ensures={'sem': 'result == self.value'}, modifies=[])
contract(B + 'beta_parameters.Beta.get_value', ['C01', 'C03'], ensures={'sem': 'result == self.initValue'}, modifies=[])

# ---- n-ary operators (loops with sum invariants) ------------------------------------------
field_type('ConditionalTermTuple', 'condition', 'Expression')
field_type('ConditionalTermTuple', 'term', 'Expression')
field_type('ConditionalSum', 'list_of_terms', 'list[ConditionalTermTuple]')
field_type('Expression', 'children', 'list[Expression]')
field_type('Elem', 'keyExpression', 'Expression')
field_type('Elem', 'dict_of_expressions', 'dict[int, Expression]')
field_type('LogLogit', 'choice', 'Expression')
field_type('LogLogit', 'util', 'dict[int, Expression]')
field_type('LogLogit', 'av', 'dict[int, Expression]')

_CS = ("sum_range(lambda q: ite(self.list_of_terms[q].condition.get_value() != 0, "
       "self.list_of_terms[q].term.get_value(), 0.0), 0, LIM)")
contract(B + 'nary_expressions.ConditionalSum.get_value', 'C01', modifies=[],
         ensures={'sem': f"result == {_CS.replace('LIM', 'len(self.list_of_terms)')}"},
         invariants={1: {'clauses': {'partial': f"result == {_CS.replace('LIM', '_k')}"}}})

_MS = "sum_range(lambda q: self.children[q].get_value(), 0, LIM)"
contract(B + 'nary_expressions.bioMultSum.get_value', 'C01', modifies=[],
         ensures={'sem': f"result == {_MS.replace('LIM', 'len(self.children)')}"},
         invariants={1: {'clauses': {'partial': f"result == {_MS.replace('LIM', '_k')}"}}})

_KEY = "int(self.keyExpression.get_value())"
contract(B + 'nary_expressions.Elem.get_value', 'C01', modifies=[],
         raises={'BiogemeError': f'{_KEY} not in self.dict_of_expressions'},
         ensures={'sem': f'result == self.dict_of_expressions[{_KEY}].get_value()'})

_CH = "int(self.choice.get_value())"
_DEN = ("sum_range(lambda q: ite(self.av[keys_of(self.util)[q]].get_value() != 0.0, "
        f"app('numpy.exp', self.util[keys_of(self.util)[q]].get_value() - self.util[{_CH}].get_value()), 0.0), 0, LIM)")
contract(B + 'logit_expressions.LogLogit.get_value', ['C01', 'C05'], modifies=[],
         requires={'same_keys': "forall(lambda x: (x in self.util) == (x in self.av), ty='int')",
                   # the property quantifies over observations whose chosen alternative is available
                   'chosen_available': f"implies({_CH} in self.av, self.av[{_CH}].get_value() != 0.0)"},
         raises={'BiogemeError': f'{_CH} not in self.util'},
         ensures={'sem': f"result == -app('numpy.log', {_DEN.replace('LIM', 'len(self.util)')})"},
         invariants={1: {'clauses': {'partial': f"denom == {_DEN.replace('LIM', '_k')}"}}},
         note='log-sum-exp kernel in its shifted form: -log sum_{av_j != 0} exp(V_j - V_c); equal to V_c - log sum exp V_j (lemma over spec functions)')
