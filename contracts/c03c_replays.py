"""Replay snippets (run by tools/replay.py under /venv/bin/python, fresh process) of the c03c contracts: each reproduces a
failed / undecided obligation on the real code from a small fixed candidate list and sets `violated` and `detail`."""

_HEAD = '''
import warnings, logging, itertools; warnings.simplefilter('ignore'); logging.disable(logging.CRITICAL)
import pandas as pd
from biogeme.expressions import Beta, Variable, Numeric, exp, log
from biogeme.database import Database
from biogeme.biogeme import BIOGEME
from biogeme.parameters import Parameters
NAMES = ['delta', 'alpha', 'charlie', 'bravo']          # order of appearance differs from the sorted order
def model(names=NAMES, fixed=('fixed_one',), name='c03c'):
    db = Database('d', pd.DataFrame({'x': [1.0, 2.0, 3.0], 'y': [1.0, 0.0, 1.0]}))
    f = Numeric(0)
    for k, nm in enumerate(fixed):
        f = f + Variable('x') * Beta(nm, 0.5 + k, None, None, 1)
    for k, nm in enumerate(names):
        w = NAMES.index(nm) if nm in NAMES else k       # weight, start value and bounds are tied to the NAME
        f = f + Beta(nm, 0.1 * (w + 1), -10.0 - w, 10.0 + w, 0) * Variable('x') * (w + 2)
    b = BIOGEME(db, -(f - Variable('y')) * (f - Variable('y')), parameters=Parameters())
    b.modelName = name
    b.generate_html = b.generate_pickle = False
    return b
'''

CHANGE_INIT = _HEAD + '''
bad, n = [], 0
for r in range(len(NAMES) + 1):
    for sub in itertools.combinations(NAMES, r):
        b = model()
        before = dict(zip(b.id_manager.free_betas.names, b.id_manager.free_betas_values))
        d = {nm: 10.0 + NAMES.index(nm) for nm in sub}
        d['fixed_one'] = 99.0
        d['not_a_parameter'] = 7.0
        b.change_init_values(d)
        after = dict(zip(b.id_manager.free_betas.names, b.id_manager.free_betas_values))
        want = {nm: d.get(nm, before[nm]) for nm in before}
        n += 1
        if after != want or list(b.id_manager.free_betas.names) != sorted(NAMES) or list(b.id_manager.fixed_betas_values) != [0.5] \\
                or len(b.id_manager.bounds) != len(NAMES):
            bad.append((sub, after, want))
violated = bool(bad)
detail = f'{len(bad)} of {n} partial dictionaries mis-assigned; first: {bad[:1]}'
'''

LOAD_ITER = _HEAD + '''
import os
bad, n = [], 0
for r in range(len(NAMES) + 1):
    for sub in itertools.permutations(NAMES, r):
        if r == len(NAMES) and sub[0] != 'delta':
            continue
        b = model()
        before = dict(zip(b.id_manager.free_betas.names, b.id_manager.free_betas_values))
        d = {nm: 20.0 + NAMES.index(nm) for nm in sub}
        with open(b._save_iterations_file_name(), 'w') as fh:
            for nm in sub:                      # lines in an order that is not the sorted one
                print(f'{nm} = {d[nm]}', file=fh)
        b._load_saved_iteration()
        os.remove(b._save_iterations_file_name())
        after = dict(zip(b.id_manager.free_betas.names, b.id_manager.free_betas_values))
        want = {nm: d.get(nm, before[nm]) for nm in before}
        n += 1
        if after != want:
            bad.append((sub, after, want))
b = model(name='c03c_no_such_file')
before = list(b.id_manager.free_betas_values)
b._load_saved_iteration()
if list(b.id_manager.free_betas_values) != before:
    bad.append(('missing file', list(b.id_manager.free_betas_values), before))
violated = bool(bad)
detail = f'{len(bad)} of {n + 1} iteration files mis-assigned; first: {bad[:1]}'
'''

RESULTS = _HEAD + '''
bad = []
for names in (NAMES, sorted(NAMES), sorted(NAMES, reverse=True)):
    b = model(names)
    r = b.quick_estimate()
    srt = sorted(names)
    raw = r.data
    bounds = {nm: (-10.0 - NAMES.index(nm), 10.0 + NAMES.index(nm)) for nm in names}
    if list(raw.betaNames) != srt or [x.name for x in raw.betas] != srt:
        bad.append(('names', names, list(raw.betaNames), [x.name for x in raw.betas]))
    if [x.value for x in raw.betas] != list(raw.betaValues):
        bad.append(('values', names, [x.value for x in raw.betas], list(raw.betaValues)))
    if [(x.lb, x.ub) for x in raw.betas] != [bounds[nm] for nm in srt]:
        bad.append(('bounds', names, [(x.lb, x.ub) for x in raw.betas]))
    want = dict(zip(srt, raw.betaValues))
    if r.get_beta_values() != want:
        bad.append(('get_beta_values()', names, r.get_beta_values(), want))
    for sub in (['delta'], ['charlie', 'alpha'], ['bravo', 'delta', 'alpha']):
        if r.get_beta_values(sub) != {k: want[k] for k in sub}:
            bad.append(('get_beta_values(sub)', names, sub, r.get_beta_values(sub)))
    try:
        r.get_beta_values(['no_such_parameter']); bad.append(('unknown name accepted',))
    except (ValueError, Exception) as e:
        refusal = type(e).__name__
violated = bool(bad)
detail = f'{len(bad)} mismatches; first: {bad[:1]}; unknown name refused with {refusal}'
'''

VALUES = _HEAD + '''
bad, n = [], 0
ws = {nm: 10.0 ** k for k, nm in enumerate(NAMES)}
for r in range(len(NAMES) + 1):
    for sub in itertools.combinations(NAMES, r):
        f = Numeric(0)
        for k, nm in enumerate(NAMES):
            f = f + Beta(nm, 1.0 + k, None, None, 0) * ws[nm]
        f = f + Beta('fixed_one', 0.5, None, None, 1)
        d = {nm: 5.0 + NAMES.index(nm) for nm in sub}
        got = f.get_value_c(betas=dict(d, other_name=3.0), prepare_ids=True)
        want = 0.5 + sum(ws[nm] * d.get(nm, 1.0 + k) for k, nm in enumerate(NAMES))
        n += 1
        if abs(got - want) > 1e-9:
            bad.append((sub, got, want))
violated = bool(bad)
detail = f'{len(bad)} of {n} partial dictionaries mis-applied; first: {bad[:1]}'
'''

PREPARE = '''
import warnings, logging, itertools; warnings.simplefilter('ignore'); logging.disable(logging.CRITICAL)
import pandas as pd
from biogeme.expressions import Beta, Variable, Numeric, RandomVariable
from biogeme.expressions.idmanager import IdManager
from biogeme.database import Database
from biogeme.exceptions import BiogemeError
db = Database('d', pd.DataFrame({'x': [1.0, 2.0], 'y': [0.0, 1.0]}))
free = {'delta': (0.1, -1.0, 1.0), 'alpha': (0.2, None, 2.0), 'charlie': (0.3, -3.0, None), 'bravo': (0.4, None, None)}
fixed = {'zulu': 5.0, 'echo': 6.0}
bad, n = [], 0
def terms(order):
    out = []
    for nm in order:
        if nm in free:
            v, lb, ub = free[nm]; out.append(Beta(nm, v, lb, ub, 0) * Variable('x'))
        else:
            out.append(Beta(nm, fixed[nm], None, None, 1) * Variable('y'))
    return out
ref = None
for order in list(itertools.permutations(list(free) + list(fixed)))[::37]:
    for split in (0, 2, 4):
        ts = terms(order)
        f1 = sum(ts[:split], Numeric(0)); f2 = sum(ts[split:], Numeric(0))
        for forms in ([f1, f2], [f2, f1]):
            im = IdManager(forms, db, 0); n += 1
            fn, xn = im.free_betas.names, im.fixed_betas.names
            ok = (fn == sorted(free) and xn == sorted(fixed)
                  and all(im.free_betas.indices[nm] == q for q, nm in enumerate(fn)) and all(im.fixed_betas.indices[nm] == q for q, nm in enumerate(xn))
                  and im.bounds == [(free[nm][1], free[nm][2]) for nm in fn] and im.number_of_free_betas == len(fn)
                  and list(im.free_betas_values) == [free[nm][0] for nm in fn] and list(im.fixed_betas_values) == [fixed[nm] for nm in xn]
                  and im.elementary_expressions.names == fn + xn + im.random_variables.names + im.draws.names + im.variables.names
                  and all(im.elementary_expressions.indices[nm] == q for q, nm in enumerate(im.elementary_expressions.names)))
            snap = (fn, xn, dict(im.elementary_expressions.indices))
            ref = ref or snap
            if not ok or snap != ref:
                bad.append((order, split, snap))
for dup in ([Beta('x', 1, None, None, 0) * Variable('x')], [Beta('k', 1, None, None, 0) + Beta('k', 2, None, None, 1)],
            [Beta('w', 1, None, None, 0) + RandomVariable('w')]):
    n += 1
    try:
        IdManager(dup, db, 0); bad.append(('one name for two kinds accepted', str(dup[0])))
    except BiogemeError:
        pass
violated = bool(bad)
detail = f'{len(bad)} of {n} numberings wrong or order-dependent; first: {bad[:1]}'
'''
