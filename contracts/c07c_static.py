"""C07 (round 2, tag c07c): static obligations decided on the real AST (pyvc.repo; biogeme is not imported).

  C07:static:algorithms-table:*      the module-level table biogeme.optimization.algorithms is ONE dict display that maps
                                     each of the eight documented names to its wrapper, and nothing in the package writes to it.
  C07:static:estimate:* / quick_estimate:*
      data flow of the part of BIOGEME.estimate / quick_estimate between the optimiser and the results object.  Names of
      locals are DISCOVERED by def-use (the variable that receives self.optimize(...), the first component unpacked from
      it, ...), so renaming a local does not raise an alarm.  Verdicts: `discharged`; `failed` when the statement is found
      and says something else (scaled=True, another point, another vector into the results, ...); `unknown` (undecided,
      never green, never a violation) when the statement is not found in a shape this analysis recognises -- the bounded
      estimation harness then remains the only judge.
BIOGEME.estimate / quick_estimate take **kwargs and call into pandas / datetime / pickle: they are outside the executor's
subset, which is why these clauses are static and not deductive."""
from __future__ import annotations

import ast
import time

OK, BAD, UNK = 'discharged', 'failed', 'unknown'
TABLE = {'scipy': 'scipy', 'LS-newton': 'newton_linesearch_for_biogeme', 'TR-newton': 'newton_trust_region_for_biogeme',
         'LS-BFGS': 'bfgs_linesearch_for_biogeme', 'TR-BFGS': 'bfgs_trust_region_for_biogeme',
         'simple_bounds': 'simple_bounds_newton_algorithm_for_biogeme', 'simple_bounds_newton': 'bio_newton',
         'simple_bounds_BFGS': 'bio_bfgs'}


def _u(n):
    return ast.unparse(n) if n is not None else None


def _is_self_call(node, meth):
    return (isinstance(node, ast.Call) and isinstance(node.func, ast.Attribute) and node.func.attr == meth
            and isinstance(node.func.value, ast.Name) and node.func.value.id == 'self')


def _call_args(call: ast.Call, params: list[str]) -> dict | None:
    """keyword view of a call (positional arguments mapped to `params`); None if *args / **kwargs are used."""
    out = {}
    for i, a in enumerate(call.args):
        if isinstance(a, ast.Starred) or i >= len(params):
            return None
        out[params[i]] = a
    for k in call.keywords:
        if k.arg is None or k.arg in out:
            return None
        out[k.arg] = k.value
    return out


def _stores(fn, name):
    """every node of the function that (re)binds or mutates the local `name`"""
    out = []
    for n in ast.walk(fn):
        if isinstance(n, ast.Name) and n.id == name and isinstance(n.ctx, (ast.Store, ast.Del)):
            out.append(n)
        if isinstance(n, (ast.Subscript, ast.Attribute)) and isinstance(n.ctx, (ast.Store, ast.Del)):
            b = n.value
            while isinstance(b, (ast.Subscript, ast.Attribute)):
                b = b.value
            if isinstance(b, ast.Name) and b.id == name:
                out.append(n)
        if isinstance(n, ast.AugAssign):
            b = n.target
            while isinstance(b, (ast.Subscript, ast.Attribute)):
                b = b.value
            if isinstance(b, ast.Name) and b.id == name and not isinstance(n.target, ast.Name):
                out.append(n)
    return out


def _assign_target_value(stmt):
    if isinstance(stmt, ast.Assign) and len(stmt.targets) == 1:
        return stmt.targets[0], stmt.value
    if isinstance(stmt, ast.AnnAssign) and stmt.value is not None:
        return stmt.target, stmt.value
    return None, None


class Flow:
    """Top-level statements of one method, with the locals discovered so far."""

    def __init__(self, fn):
        self.fn = fn
        self.top = list(fn.body)
        self.res = []       # (clause, status, detail)

    def add(self, clause, status, detail=''):
        self.res.append((clause, status, detail))

    def find_top(self, pred, start=0):
        for i in range(start, len(self.top)):
            t, v = _assign_target_value(self.top[i])
            if v is not None and pred(t, v):
                return i, t, v
        return None, None, None


def _optimize_and_point(fl: Flow):
    """statement `O = self.optimize(np.array(self.id_manager.free_betas_values))` and `X, M, C = O`;
    returns (index after which X is defined, X) or (None, None)."""
    i, t, v = fl.find_top(lambda t, v: _is_self_call(v, 'optimize'))
    if i is None:
        fl.add('starting-point-is-the-current-free-values', UNK, 'no top-level `... = self.optimize(...)`')
        fl.add('solution-is-the-first-component-of-the-optimiser-output', UNK, '')
        return None, None
    a = _call_args(v, ['starting_values'])
    want = 'np.array(self.id_manager.free_betas_values)'
    if a is None or set(a) != {'starting_values'}:
        fl.add('starting-point-is-the-current-free-values', BAD, f'self.optimize called as {_u(v)}')
    else:
        got = _u(a['starting_values'])
        fl.add('starting-point-is-the-current-free-values', OK if got == want else BAD, f'starting point: {got} (expected {want})')
    x = None
    idx = i
    if isinstance(t, ast.Tuple):
        if len(t.elts) == 3 and all(isinstance(e, ast.Name) for e in t.elts):
            x = t.elts[0].id
    elif isinstance(t, ast.Name):
        o = t.id
        j, t2, v2 = fl.find_top(lambda t2, v2: isinstance(v2, ast.Name) and v2.id == o and isinstance(t2, ast.Tuple), i + 1)
        if j is not None and len(t2.elts) == 3 and all(isinstance(e, ast.Name) for e in t2.elts) and len(_stores(fl.fn, o)) == 1:
            x, idx = t2.elts[0].id, j
    if x is None:
        fl.add('solution-is-the-first-component-of-the-optimiser-output', UNK, 'unpacking of the optimiser output not recognised')
        return None, None
    st = _stores(fl.fn, x)
    fl.add('solution-is-the-first-component-of-the-optimiser-output', OK if len(st) == 1 else BAD,
           f'`{x}` is bound {len(st)} time(s) / mutated in the function (expected: bound once, by unpacking the optimiser output)')
    return idx, x


def _results(fl: Flow, idx, x, f_name):
    """RawResults(self, X, F, ...) -> bioResults(raw, ...) -> return"""
    i, t, v = fl.find_top(lambda t, v: isinstance(v, ast.Call) and _u(v.func).split('.')[-1] == 'RawResults', idx + 1)
    if i is None or not isinstance(t, ast.Name):
        fl.add('results-built-from-the-solution-and-the-final-evaluation', UNK, 'no top-level `raw = ...RawResults(...)`')
        fl.add('returns-the-results-of-this-estimation', UNK, '')
        return None, None
    a = _call_args(v, ['the_model', 'beta_values', 'f_g_h_b', 'bootstrap'])
    ok = (a is not None and _u(a.get('the_model')) == 'self' and _u(a.get('beta_values')) == x and _u(a.get('f_g_h_b')) == f_name
          and set(a) <= {'the_model', 'beta_values', 'f_g_h_b', 'bootstrap'})
    fl.add('results-built-from-the-solution-and-the-final-evaluation', OK if ok else BAD,
           f'{_u(v)} (expected RawResults(self, {x}, {f_name}, bootstrap=...))')
    raw = t.id
    j, t2, v2 = fl.find_top(lambda t2, v2: isinstance(v2, ast.Call) and _u(v2.func).split('.')[-1] == 'bioResults', i + 1)
    if j is None or not isinstance(t2, ast.Name):
        fl.add('returns-the-results-of-this-estimation', UNK, 'no top-level `r = ...bioResults(...)` after the raw results')
        return None, None
    a2 = _call_args(v2, ['the_raw_results', 'pickle_file', 'identification_threshold'])
    r = t2.id
    last = fl.top[-1]
    inner_returns = [n for s in fl.top[idx:] for n in ast.walk(s) if isinstance(n, ast.Return) and n is not last]
    ok = (a2 is not None and _u(a2.get('the_raw_results')) == raw and 'pickle_file' not in a2 and len(_stores(fl.fn, raw)) == 1
          and len(_stores(fl.fn, r)) == 1 and isinstance(last, ast.Return) and _u(last.value) == r and not inner_returns)
    fl.add('returns-the-results-of-this-estimation', OK if ok else BAD,
           f'{r} = {_u(v2)}; last statement `{_u(last)[:60]}`; other returns after the optimisation: {len(inner_returns)}')
    return j, r


def estimate_flow(fn) -> list:
    fl = Flow(fn)
    idx, x = _optimize_and_point(fl)
    if x is None:
        for c in ('initial-likelihood-evaluated-before-the-optimisation', 'final-evaluation-at-the-solution-unscaled',
                  'only-the-hessian-may-be-replaced', 'results-built-from-the-solution-and-the-final-evaluation',
                  'returns-the-results-of-this-estimation', 'estimates-written-back-to-every-formula'):
            fl.add(c, UNK, 'solution variable not identified')
        return fl.res
    # initial likelihood before the optimisation, at top level
    opt_i = next(i for i, s in enumerate(fl.top) if any(_is_self_call(n, 'optimize') for n in ast.walk(s)))
    init = [i for i, s in enumerate(fl.top[:opt_i]) if isinstance(s, ast.Expr) and _is_self_call(s.value, 'calculate_init_likelihood')
            and not s.value.args and not s.value.keywords]
    fl.add('initial-likelihood-evaluated-before-the-optimisation', OK if init else BAD,
           'self.calculate_init_likelihood() ' + ('precedes' if init else 'does not precede') + ' self.optimize(...) at top level')
    # final evaluation
    i, t, v = fl.find_top(lambda t, v: _is_self_call(v, 'calculate_likelihood_and_derivatives'), idx + 1)
    if i is None or not isinstance(t, ast.Name):
        fl.add('final-evaluation-at-the-solution-unscaled', UNK, 'no top-level `F = self.calculate_likelihood_and_derivatives(...)` after the optimisation')
        fl.add('only-the-hessian-may-be-replaced', UNK, '')
        fname = None
    else:
        fname = t.id
        a = _call_args(v, ['x', 'scaled', 'hessian', 'bhhh', 'batch'])
        got = {k: _u(w) for k, w in (a or {}).items()}
        ok = a is not None and got == {'x': x, 'scaled': 'False', 'hessian': 'True', 'bhhh': 'True'}
        fl.add('final-evaluation-at-the-solution-unscaled', OK if ok else BAD,
               f'{_u(v)} (expected the solution `{x}`, scaled=False, hessian=True, bhhh=True, no batch)')
        # every other binding of F keeps function, gradient and bhhh
        bad = []
        for n in ast.walk(fn):
            tt, vv = _assign_target_value(n) if isinstance(n, (ast.Assign, ast.AnnAssign)) else (None, None)
            if vv is None or not (isinstance(tt, ast.Name) and tt.id == fname) or vv is v:
                continue
            a = _call_args(vv, []) if isinstance(vv, ast.Call) and _u(vv.func).split('.')[-1] == 'BiogemeFunctionOutput' else None
            keep = a is not None and all(_u(a.get(k)) == f'{fname}.{k}' for k in ('function', 'gradient', 'bhhh')) and set(a) == {'function', 'gradient', 'hessian', 'bhhh'}
            if not keep:
                bad.append(_u(vv)[:120])
        others = [s for s in _stores(fn, fname) if not isinstance(s, ast.Name)]
        fl.add('only-the-hessian-may-be-replaced', BAD if (bad or others) else OK,
               'rebinding that changes value / gradient / BHHH: ' + '; '.join(bad) if bad else 'every rebinding keeps .function, .gradient, .bhhh')
    if fname is None:
        fl.add('results-built-from-the-solution-and-the-final-evaluation', UNK, '')
        fl.add('returns-the-results-of-this-estimation', UNK, '')
        fl.add('estimates-written-back-to-every-formula', UNK, '')
        return fl.res
    j, r = _results(fl, i, x, fname)
    if r is None:
        fl.add('estimates-written-back-to-every-formula', UNK, '')
        return fl.res
    # write-back
    k, t3, v3 = fl.find_top(lambda t3, v3: isinstance(v3, ast.Call) and isinstance(v3.func, ast.Attribute) and v3.func.attr == 'get_beta_values'
                            and _u(v3.func.value) == r and not v3.args and not v3.keywords, j + 1)
    wb = False
    detail = f'no top-level `E = {r}.get_beta_values()`'
    if k is not None and isinstance(t3, ast.Name) and len(_stores(fn, t3.id)) == 1:
        e = t3.id
        detail = f'no top-level loop over self.formulas.values() calling change_init_values({e})'
        for s in fl.top[k + 1:]:
            if isinstance(s, ast.For) and _u(s.iter) == 'self.formulas.values()' and isinstance(s.target, ast.Name) and not s.orelse:
                calls = [b for b in s.body if isinstance(b, ast.Expr) and isinstance(b.value, ast.Call)
                         and _u(b.value.func) == f'{s.target.id}.change_init_values' and [_u(a_) for a_ in b.value.args] == [e]
                         and not b.value.keywords]
                if calls and calls[0] is s.body[0]:
                    wb = True
                    detail = f'for {s.target.id} in self.formulas.values(): {s.target.id}.change_init_values({e}) with {e} = {r}.get_beta_values()'
    fl.add('estimates-written-back-to-every-formula', OK if wb else BAD, detail)
    return fl.res


def quick_estimate_flow(fn) -> list:
    fl = Flow(fn)
    idx, x = _optimize_and_point(fl)
    if x is None:
        for c in ('final-likelihood-at-the-solution-unscaled', 'results-built-from-the-solution-and-the-final-evaluation',
                  'returns-the-results-of-this-estimation'):
            fl.add(c, UNK, 'solution variable not identified')
        return fl.res
    i, t, v = fl.find_top(lambda t, v: _is_self_call(v, 'calculate_likelihood'), idx + 1)
    if i is None or not isinstance(t, ast.Name):
        fl.add('final-likelihood-at-the-solution-unscaled', UNK, 'no top-level `f = self.calculate_likelihood(...)` after the optimisation')
        fl.add('results-built-from-the-solution-and-the-final-evaluation', UNK, '')
        fl.add('returns-the-results-of-this-estimation', UNK, '')
        return fl.res
    f = t.id
    a = _call_args(v, ['x', 'scaled', 'batch'])
    got = {k: _u(w) for k, w in (a or {}).items()}
    j, t2, v2 = fl.find_top(lambda t2, v2: isinstance(v2, ast.Call) and _u(v2.func).split('.')[-1] == 'BiogemeFunctionOutput', i + 1)
    a2 = _call_args(v2, []) if j is not None else None
    pack = (a2 is not None and isinstance(t2, ast.Name) and {k: _u(w) for k, w in a2.items()} == {'function': f, 'gradient': 'None', 'hessian': 'None', 'bhhh': 'None'}
            and len(_stores(fn, f)) == 1 and len(_stores(fn, t2.id)) == 1)
    ok = a is not None and got == {'x': x, 'scaled': 'False'} and pack
    fl.add('final-likelihood-at-the-solution-unscaled', OK if ok else (BAD if j is not None else UNK),
           f'{f} = {_u(v)}; packaged as {_u(v2) if j is not None else "?"} (expected the solution `{x}`, scaled=False, no derivatives)')
    if j is None or not isinstance(t2, ast.Name):
        fl.add('results-built-from-the-solution-and-the-final-evaluation', UNK, '')
        fl.add('returns-the-results-of-this-estimation', UNK, '')
        return fl.res
    _results(fl, j, x, t2.id)
    return fl.res


def algorithms_table(repo) -> list:
    out = []
    mi = repo.modules.get('biogeme.optimization')
    g = mi.globals_.get('algorithms') if mi is not None else None
    if not isinstance(g, ast.Dict):
        return [('algorithms-table:is-one-dict-display', UNK, 'biogeme.optimization.algorithms is not a module-level dict display')]
    got = {}
    for k, v in zip(g.keys, g.values):
        got[_u(k)] = _u(v)
    for name, func in TABLE.items():
        have = got.get(repr(name))
        ok = have == func and func in mi.functions
        out.append((f'algorithms-table:{name}', OK if ok else BAD, f'{name!r} -> {have} (expected {func})'))
    extra = sorted(set(got) - {repr(n) for n in TABLE})
    out.append(('algorithms-table:no-other-name', OK if not extra and len(g.keys) == len(TABLE) else BAD,
                f'additional / duplicate keys: {extra}' if extra or len(g.keys) != len(TABLE) else 'exactly the eight documented names'))
    # nobody writes to the table (module-level rebinding, item store, update/pop/setdefault/clear/del)
    writes = []
    for mod in repo.modules.values():
        tree = getattr(mod, 'tree', None) or getattr(mod, 'node', None)
        if tree is None:
            continue
        for n in ast.walk(tree):
            tgt = None
            if isinstance(n, (ast.Subscript, ast.Attribute, ast.Name)) and isinstance(getattr(n, 'ctx', None), (ast.Store, ast.Del)):
                b = n.value if isinstance(n, ast.Subscript) else n
                txt = _u(b)
                if txt in ('algorithms', 'opt.algorithms', 'optimization.algorithms', 'biogeme.optimization.algorithms'):
                    if not (mod.name == 'biogeme.optimization' and isinstance(n, ast.Name) and _count_global_assign(tree, 'algorithms') == 1):
                        tgt = txt
            if isinstance(n, ast.Call) and isinstance(n.func, ast.Attribute) and n.func.attr in ('update', 'pop', 'setdefault', 'clear', 'popitem', '__setitem__', '__delitem__'):
                if _u(n.func.value) in ('algorithms', 'opt.algorithms', 'optimization.algorithms', 'biogeme.optimization.algorithms'):
                    tgt = _u(n.func)
            if tgt:
                writes.append(f'{mod.name}:{getattr(n, "lineno", 0)} {tgt}')
    out.append(('algorithms-table:never-written', OK if not writes else BAD, '; '.join(writes[:5]) or 'no store / update / deletion found in the package'))
    return out


def _count_global_assign(tree, name):
    c = 0
    for s in tree.body:
        for n in ast.walk(s) if isinstance(s, (ast.Assign, ast.AnnAssign, ast.AugAssign)) else []:
            if isinstance(n, ast.Name) and n.id == name and isinstance(n.ctx, ast.Store):
                c += 1
    return c


def extras(tier, seed):
    from pyvc.driver import Extra
    from pyvc.repo import get_repo
    repo = get_repo()
    out = []
    t0 = time.time()

    def emit(prefix, rows):
        for clause, status, detail in rows:
            out.append(Extra(f'C07:static:{prefix}{clause}', 'static', status, 'ast-static', round(time.time() - t0, 3), detail,
                             {'detail': detail} if status != OK else None))
    try:
        emit('', algorithms_table(repo))
    except Exception as e:        # analysis error: undecided, never green
        out.append(Extra('C07:static:algorithms-table', 'static', UNK, 'ast-static', 0.0, f'analysis error {type(e).__name__}: {e}'))
    for meth, fn_ in (('estimate', estimate_flow), ('quick_estimate', quick_estimate_flow)):
        fi = repo.function(f'biogeme.biogeme.BIOGEME.{meth}')
        if fi is None:
            out.append(Extra(f'C07:static:{meth}', 'static', UNK, 'ast-static', 0.0, 'function not found'))
            continue
        try:
            emit(f'{meth}:', fn_(fi.node))
        except Exception as e:
            out.append(Extra(f'C07:static:{meth}', 'static', UNK, 'ast-static', 0.0, f'analysis error {type(e).__name__}: {e}'))
    return out
