"""C12: the recursive audit of a formula reports a fault wherever it sits in the tree.

Structural induction over the formula tree.  The ASSUMED abstract contract of the virtual method
`Expression.audit(database)` (induction hypothesis, used at every call on a child) says: the call
raises BiogemeError iff AUD_RAISES(child, database); otherwise it returns two newly allocated,
distinct lists, the first of which holds exactly the sequence AUD_ERR(child, database).  The
VERIFIED contract of every implementation (the base body for every node class that inherits it,
and each override) is the induction step:

    raises BiogemeError            iff  a child's audit raises (Variable: iff no database is given)
    errors returned  INCLUDE       every error of every child  (c12_includes / prefix equality)
    number of errors ==            sum of the children's numbers + the number of the node's own faults

The last clause is the bi-implication "own error iff own fault" and, summed over the tree, gives
both directions of the property for the audit: a fault at any node at any depth yields an error
at the root (inclusion), and a formula none of whose nodes has a fault yields none (count).
"""
from pyvc.contract import contract, field_type
from pyvc.repo import get_repo

B = 'biogeme.expressions.'
AUDIT = B + 'base_expressions.Expression.audit'
DB = {'database': 'Database | None'}
RET = 'tuple[list[str], list[str]]'

field_type('Expression', 'children', 'list[Expression]')
field_type('UnaryOperator', 'child', 'Expression')
field_type('BinaryOperator', 'left', 'Expression')
field_type('BinaryOperator', 'right', 'Expression')
field_type('Elementary', 'name', 'str')
field_type('Database', 'data', 'DataFrame')
field_type('LogLogit', 'choice', 'Expression')
field_type('LogLogit', 'util', 'dict[int, Expression]')
field_type('LogLogit', 'av', 'dict[int, Expression]')
field_type('BelongsTo', 'the_set', 'set[float]')

# ---------------------------------------------------------------------------------------------
# induction hypotheses (assumed abstract contracts of the virtual methods)
contract(AUDIT, 'C12', verify=False, types=DB, returns=RET, modifies=[],
         raises={'BiogemeError': 'aud_raises(self, database)'},
         ensures={'errors': 'seq_eq(c12_errs(result), aud_err(self, database))',
                  'fresh': 'c12_fresh_lists(result)'},
         label='Expression.audit(abstract)',
         note='induction hypothesis: what audit returns on a sub-formula (deterministic; two new lists)')
contract(B + 'base_expressions.Expression.embed_expression', 'C12', verify=False, pure=True, returns='bool',
         types={'t': 'str'}, ensures={'t': 'True'}, label='Expression.embed_expression(abstract)',
         note='induction hypothesis: does the sub-formula contain a node of class t (deterministic, no side effect)')
contract(B + 'base_expressions.Expression.__repr__', 'C12', verify=False, pure=True, returns='str',
         ensures={'t': 'True'}, label='Expression.__repr__(abstract)',
         note='text of a sub-formula used in messages (deterministic, no side effect)')

# (m5, round 3) Database.is_panel under a verified contract of its own: calls in specifications are then applied through
# the contract.  Without it the method is INLINED, and inside a `raises` condition (evaluated in the entry state) the engine
# resolves the inlined callee's `self` in the outer function's entry locals (wrong receiver; reported as a soundness incident).
contract('biogeme.database.Database.is_panel', 'C12', pure=True, reads=['panelColumn'], returns='bool', modifies=[],
         ensures={'def': 'result == (self.panelColumn is not None)'},
         replay='''
import warnings; warnings.simplefilter('ignore')
import pandas as pd
from biogeme.database import Database
flat = Database('flat', pd.DataFrame({'x': [1.0, 2.0], 'id': [1, 1]}))
panel = Database('panel', pd.DataFrame({'x': [1.0, 2.0], 'id': [1, 1]})); panel.panel('id')
violated = flat.is_panel() is not False or panel.is_panel() is not True
detail = f'is_panel(): flat {flat.is_panel()}, panel {panel.is_panel()}'
''')

REPLAY_TREE = '''
import warnings; warnings.simplefilter('ignore')
import pandas as pd
from biogeme.database import Database
from biogeme.expressions import *
flat = Database('flat', pd.DataFrame({'x': [1.0, 2.0], 'y': [0.0, 1.0], 'id': [1, 1]}))
panel = Database('panel', pd.DataFrame({'x': [1.0, 2.0], 'y': [0.0, 1.0], 'id': [1, 1]})); panel.panel('id')
def own(e, db):
    """number of errors a node adds to those of its children, natively"""
    errs, _ = e.audit(db)
    sub = sum(len(c.audit(db)[0]) for c in e.get_children())
    return len(errs) - sub, errs
def included(e, db):
    errs, _ = e.audit(db)
    return all(m in errs for c in e.get_children() for m in c.audit(db)[0])
'''

# ---------------------------------------------------------------------------------------------
# overrides with one child
U = B + 'unary_expressions.'
CH = 'aud_err(self.child, database)'
NCH = 'aud_nerr(self.child, database)'
# well-formed unary node (established by UnaryOperator.__init__).  It also makes the list fields part of
# the entry heap, which the frame obligations (nothing that existed before the call is modified) need.
WF1 = {'wf_node': 'len(self.children) == 1 and self.children[0] is self.child'}
KEPT = {'fresh': 'c12_fresh_lists(result)',
        'child_errors_included': f'c12_includes(c12_errs(result), {CH})'}

contract(U + 'PanelLikelihoodTrajectory.audit', 'C12', types=DB, returns=RET, modifies=[], requires=WF1,
         raises={'BiogemeError': 'aud_raises(self.child, database)'},
         ensures={**KEPT,
                  'own_error_iff_not_panel': f'len(c12_errs(result)) == {NCH} + ite(database is None or not database.is_panel(), 1, 0)'},
         replay=REPLAY_TREE + '''
bad = Variable('missing')
n_flat, e1 = own(PanelLikelihoodTrajectory(Variable('x')), flat)
n_none, e2 = own(PanelLikelihoodTrajectory(Numeric(1)), None)
n_panel, e3 = own(PanelLikelihoodTrajectory(Variable('x')), panel)
inc = included(PanelLikelihoodTrajectory(exp(bad)), panel) and included(PanelLikelihoodTrajectory(exp(bad)), flat)
violated = not (n_flat == 1 and n_none == 1 and n_panel == 0 and inc)
detail = f'own errors: flat {n_flat} (want 1), no database {n_none} (want 1), panel {n_panel} (want 0); child errors included: {inc}'
''')

contract(U + 'Integrate.audit', 'C12', types=DB, returns=RET, modifies=[], requires=WF1,
         raises={'BiogemeError': 'aud_raises(self.child, database)'},
         ensures={**KEPT,
                  'own_error_iff_no_random_variable':
                      f"len(c12_errs(result)) == {NCH} + ite(self.child.embed_expression('RandomVariable'), 0, 1)"},
         replay=REPLAY_TREE + '''
bad = Variable('missing')
n_without, _ = own(Integrate(Variable('x'), 'omega'), flat)
n_with, _ = own(Integrate(Variable('x') * RandomVariable('omega'), 'omega'), flat)
inc = included(Integrate(bad * RandomVariable('omega'), 'omega'), flat) and included(Integrate(bad, 'omega'), flat)
violated = not (n_without == 1 and n_with == 0 and inc)
detail = f'own errors: no random variable {n_without} (want 1), with one {n_with} (want 0); child errors included: {inc}'
''')

contract(U + 'BelongsTo.audit', 'C12', types=DB, returns=RET, modifies=[], requires=WF1,
         raises={'BiogemeError': 'aud_raises(self.child, database)'},
         ensures={**KEPT, 'no_own_error': f'len(c12_errs(result)) == {NCH}'},
         replay=REPLAY_TREE + '''
bad = Variable('missing')
n_own, _ = own(BelongsTo(Variable('x'), {1, 2.5}), flat)
inc = included(BelongsTo(bad, {1, 2.5}), flat)
violated = not (n_own == 0 and inc)
detail = f'own errors {n_own} (want 0); child errors included: {inc}'
''')

_MC_OWN = ("ite(database is not None and database.is_panel() and not self.child.embed_expression('PanelLikelihoodTrajectory'), 1, 0)"
           " + ite(self.child.embed_expression('bioDraws'), 0, 1)"
           " + ite(self.child.embed_expression('MonteCarlo'), 1, 0)")
contract(U + 'MonteCarlo.audit', 'C12', types=DB, returns=RET, modifies=[], requires=WF1,
         raises={'BiogemeError': 'aud_raises(self.child, database)'},
         ensures={**KEPT,
                  'own_errors_iff_faults': f'len(c12_errs(result)) == {NCH} + {_MC_OWN}'},
         replay=REPLAY_TREE + '''
bad = Variable('missing')
d = bioDraws('d', 'NORMAL')
cases = {'ok flat': (MonteCarlo(Variable('x') * d), flat, 0),
         'no draws': (MonteCarlo(Variable('x')), flat, 1),
         'nested': (MonteCarlo(d + MonteCarlo(d)), flat, 1),
         'panel without trajectory': (MonteCarlo(Variable('x') * d), panel, 1),
         'panel with trajectory': (MonteCarlo(PanelLikelihoodTrajectory(Variable('x') * d)), panel, 0),
         'no database': (MonteCarlo(Numeric(2) * d), None, 0),
         'all three': (MonteCarlo(MonteCarlo(Variable('x'))), panel, 3)}
got = {k: own(e, db)[0] for k, (e, db, want) in cases.items()}
inc = included(MonteCarlo(bad * d), flat) and included(MonteCarlo(bad), panel)
violated = not (all(got[k] == cases[k][2] for k in cases) and inc)
detail = f'own errors {got}, wanted { {k: v[2] for k, v in cases.items()} }; child errors included: {inc}'
''')

# ---------------------------------------------------------------------------------------------
# the base implementation (loop over the children), verified for receiver classes that inherit it
_SUMN = 'aud_nerr_upto(self.children, database, LIM)'
_INC = 'forall(lambda k: c12_includes(LST, aud_err(self.children[k], database)), 0, LIM)'
_POS = 'aud_in_order(LST, self.children, database, LIM)'
BASE_ENS = {'fresh': 'c12_fresh_lists(result)',
            'every_child_errors_included': _INC.replace('LST', 'c12_errs(result)').replace('LIM', 'len(self.children)'),
            'no_own_error': 'len(c12_errs(result)) == ' + _SUMN.replace('LIM', 'len(self.children)')}
BASE_RAISES = {'BiogemeError': 'exists(lambda k: aud_raises(self.children[k], database), 0, len(self.children))'}
BASE_INV = {1: {'clauses': {
    'locals_are_new_lists': 'c12_fresh_lists((list_of_errors, list_of_warnings))',
    'old_lists_unchanged': 'c12_old_objects_unchanged()',
    'in_order_so_far': _POS.replace('LST', 'list_of_errors').replace('LIM', '_k'),
    'count_so_far': 'len(list_of_errors) == ' + _SUMN.replace('LIM', '_k'),
    'no_raise_so_far': 'forall(lambda q: not aud_raises(self.children[q], database), 0, _k)'}}}
REPLAY_BASE = REPLAY_TREE + '''
bad, bad2 = Variable('missing'), Variable('missing_too')
hosts = {'Plus': lambda a, b: a + b, 'Times': lambda a, b: a * b, 'Power': lambda a, b: a ** b,
         'bioMultSum': lambda a, b: bioMultSum([Numeric(1), a, Numeric(2), b]),
         'Elem': lambda a, b: Elem({0: a, 1: b}, Variable('y')),
         'exp': lambda a, b: exp(a) + log(b), 'bioMin': lambda a, b: bioMin(a, b),
         'ConditionalSum': lambda a, b: ConditionalSum([ConditionalTermTuple(condition=a, term=b)]),
         'Derive': lambda a, b: Derive(a * b, 'x'), 'bioNormalCdf': lambda a, b: bioNormalCdf(a - b)}
bad_hosts = []
for name, mk in hosts.items():
    e = mk(bad, bad2)
    n_own, errs = own(e, flat)
    ok = mk(Variable('x'), Variable('y'))
    if not (n_own == 0 and included(e, flat) and len(errs) == 2 and len(ok.audit(flat)[0]) == 0):
        bad_hosts.append((name, errs))
violated = bool(bad_hosts)
detail = f'hosts whose audit does not return exactly the errors of both operands: {bad_hosts}'
'''
# Every class that inherits Expression.audit runs this same body.  It is verified once per FAMILY = direct
# subclass F of Expression (receiver: an object of F or of any subclass of F; the engine refuses the proof if a
# method called on self is overridden inside the family).  MultipleExpression (catalogs) overrides every
# recursive method and is handled below.  The static obligation C12:static:families-cover (props/C12.py) shows
# that every class inheriting the body belongs to one of the families.
def families():
    repo = get_repo()
    out = []
    for c in repo.subclasses('Expression'):
        if 'Expression' in [b.split('.')[-1] for b in c.bases] and c.name != 'MultipleExpression':
            out.append(c.name)
    return sorted(out)


FAMILIES = families()
for _cls in FAMILIES:
    contract(AUDIT, 'C12', self_class=_cls, exact_self=False, label=f'Expression.audit@{_cls}', types=DB, returns=RET,
             modifies=[], raises=BASE_RAISES, ensures=BASE_ENS, invariants=BASE_INV, replay=REPLAY_BASE)

# comparison operators: the inherited descent (super().audit: the contract just verified for the family of
# BinaryOperator is applied) plus a warning; no own error
contract(B + 'comparison_expressions.ComparisonOperator.audit', 'C12', exact_self=False, types=DB, returns=RET, modifies=[],
         requires={'wf_node': 'len(self.children) == 2 and self.children[0] is self.left and self.children[1] is self.right'},
         raises=BASE_RAISES, ensures=BASE_ENS,
         replay=REPLAY_TREE + '''
bad, bad2 = Variable('missing'), Variable('missing_too')
ops = {'Equal': lambda a, b: a == b, 'NotEqual': lambda a, b: a != b, 'LessOrEqual': lambda a, b: a <= b,
       'GreaterOrEqual': lambda a, b: a >= b, 'Less': lambda a, b: a < b, 'Greater': lambda a, b: a > b}
wrong = []
for name, mk in ops.items():
    for e, want in ((mk(bad, Numeric(1)), 1), (mk(Numeric(1), bad), 1), (mk(bad, bad2), 2), (mk(Variable('x'), Variable('y')), 0),
                    (mk(mk(bad, Numeric(1)), bad2), 2)):
        n_own, errs = own(e, flat)
        if not (n_own == 0 and len(errs) == want and included(e, flat)):
            wrong.append((name, str(e), errs))
violated = bool(wrong)
detail = f'comparison nodes whose audit does not return exactly the errors of their operands: {wrong}'
''')

# ---------------------------------------------------------------------------------------------
# leaves with an own rule
contract(B + 'elementary_expressions.Variable.audit', 'C12', types=DB, returns=RET, modifies=[],
         requires={'wf_leaf': 'len(self.children) == 0'},
         raises={'BiogemeError': 'database is None'},
         ensures={'fresh': 'c12_fresh_lists(result)',
                  'error_iff_column_absent': 'len(c12_errs(result)) == ite(self.name in database.data.columns, 0, 1)'},
         replay=REPLAY_TREE + '''
from biogeme.exceptions import BiogemeError
n_known = len(Variable('x').audit(flat)[0]); n_unknown = len(Variable('missing').audit(flat)[0])
try:
    Variable('x').audit(None); refused = False
except BiogemeError:
    refused = True
violated = not (n_known == 0 and n_unknown == 1 and refused)
detail = f'errors for a known column {n_known} (want 0), for an absent column {n_unknown} (want 1); BiogemeError without database: {refused}'
''')

# ---------------------------------------------------------------------------------------------
# catalogs: delegation to the selected member
M = B + 'multiple_expressions.MultipleExpression.'
contract(M + 'selected', 'C12', verify=False, pure=True, returns='tuple[str, Expression]', ensures={'t': 'True'},
         label='MultipleExpression.selected(abstract)',
         note='the (name, expression) pair a catalog currently selects (deterministic, no side effect)')
SEL = 'self.selected()[1]'
contract(M + 'audit', 'C12', exact_self=False, types=DB, returns=RET, modifies=[],
         raises={'BiogemeError': f'aud_raises({SEL}, database)'},
         ensures={'fresh': 'c12_fresh_lists(result)',
                  'errors_of_selected_member': f'seq_eq(c12_errs(result), aud_err({SEL}, database))'},
         replay=REPLAY_TREE + '''
from biogeme.catalog import Catalog
from biogeme.expressions import NamedExpression
cat = Catalog.from_dict('c', {'good': Variable('x'), 'bad': exp(Variable('missing'))})
first = list(cat.audit(flat)[0])
cat.controlled_by.set_name('bad')
second = list(cat.audit(flat)[0])
violated = not (first == Variable('x').audit(flat)[0] and second == exp(Variable('missing')).audit(flat)[0] and len(second) == 1)
detail = f'catalog selecting the valid member: {first}; selecting the invalid member: {second}'
''')

# ---------------------------------------------------------------------------------------------
# LogLogit: descent over choice, utilities and availabilities + the key-set rule + the early return.  The numpy part
# after the early return is cut off (pyvc/libext/c12_ext.py CUTS: assumed to return normally and only to append).
_N_ALL = 'aud_nerr_upto(self.children, database, len(self.children))'
_KEYS_DIFFER = "(not forall(lambda x: (x in self.util) == (x in self.av), ty='int'))"
_INVALID = (f"{_N_ALL} > 0 or {_KEYS_DIFFER} or c12_nonempty(c12_union_children('draws', self.children)) "
            "or c12_nonempty(c12_union_children('rv', self.children))")
LL_INV = {1: {'clauses': {k: v.replace('self.get_children()', 'self.children') for k, v in BASE_INV[1]['clauses'].items()}}}
contract(B + 'logit_expressions.LogLogit.audit', 'C12', types=DB, returns=RET, modifies=[],
         requires={'wf_node': 'len(self.children) >= 1 and self.children[0] is self.choice'},
         raises=BASE_RAISES,
         ensures={'fresh': 'c12_fresh_lists(result)',
                  'every_child_errors_included': BASE_ENS['every_child_errors_included'],
                  'key_sets_rule': f'len(c12_errs(result)) >= {_N_ALL} + ite({_KEYS_DIFFER}, 1, 0)',
                  'invalid_specification_is_not_evaluated':
                      f'implies({_INVALID}, len(c12_errs(result)) == {_N_ALL} + ite({_KEYS_DIFFER}, 1, 0))'},
         invariants=LL_INV,
         replay=REPLAY_TREE + '''
bad = Variable('missing')
one = Numeric(1)
d = bioDraws('d', 'NORMAL')
cases = {'fault in a utility': (LogLogit({1: bad, 2: one}, {1: one, 2: one}, Variable('y')), 1),
         'fault in an availability': (LogLogit({1: one, 2: one}, {1: one, 2: bad}, Variable('y')), 1),
         'fault in the choice': (LogLogit({1: one, 2: one}, {1: one, 2: one}, bad), 1),
         'key sets differ': (LogLogit({1: one, 2: one}, {1: one, 3: one}, Numeric(1)), 1),
         'availability for an unknown alternative': (LogLogit({1: one, 2: one}, {1: one, 2: one, 3: one}, Numeric(1)), 1),
         'utility without availability': (LogLogit({1: one, 2: one, 3: one}, {1: one, 2: one}, Numeric(1)), 1),
         'fault and key sets': (LogLogit({1: bad, 2: one}, {1: one}, Numeric(1)), 2),
         'valid': (LogLogit({0: Variable('x'), 1: one}, {0: one, 1: one}, Variable('y')), 0)}
def nerr(e):
    try:
        return len(e.audit(flat)[0])
    except Exception as ex:
        return f'{type(ex).__name__} raised'
def inc_ok(e):
    try:
        return included(e, flat)
    except Exception:
        return False
got = {k: nerr(e) for k, (e, _) in cases.items()}
inc = all(inc_ok(e) for e, _ in cases.values())
violated = not (all(got[k] == cases[k][1] for k in cases) and inc)
detail = f'errors {got}, wanted { {k: v[1] for k, v in cases.items()} }; child errors included: {inc}'
''')
