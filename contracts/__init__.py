"""Sidecar contracts for the functions of /repo/src/biogeme (one module per repo module)."""
