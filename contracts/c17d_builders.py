"""C17 (round 3, agent c17d): VALUES of the trees built by boxcox, the density / distribution helpers and the regression
likelihood, for all arguments: value term (c05c_val, specs/c05c_specs.py) == textbook term.  Transcendental functions and
general powers stay uninterpreted (term equality); numeric constants are compared exactly with the coded literal, whose
distance from sqrt(2 pi) / log(2 pi)/2 is decided by the static obligations of contracts/c17_obligations.py.
"""
from pyvc.contract import contract

import contracts.c17d_nodes as N17
from contracts.c17d_nodes import powc
from contracts.c17_obligations import _replay_code

P = 'C17'
X, L = 'c05c_val(x)', 'c05c_val(ell)'
LOGX = f"app('numpy.log', {X})"

# ------------------------------------------------------------------------------------------------ Box-Cox
# documented:  B(x, l) = (x^l - 1) / l;  for |l| < 1e-5 the McLaurin series  log x + l log^2 x / 2 + l^2 log^3 x / 6 + l^3 log^4 x / 24;
# 0 for x == 0.  Switching rule of the code: series iff  l < 1e-5 and l > -1e-5.
# integer powers are PowerConstant nodes: powc(v, n) = 0 at v == 0, v ** n otherwise
MCLAURIN = (f"{LOGX} + ({L} * {powc(LOGX, '2.0')}) / 2.0 + ({powc(L, '2.0')} * {powc(LOGX, '3.0')}) / 6.0 "
            f"+ ({powc(L, '3.0')} * {powc(LOGX, '4.0')}) / 24.0")
SERIES_WINDOW = f"({L} < 1.0e-5 and {L} > -1.0e-5)"


_ELLV = "typed(ell, 'Numeric').value"
_OUTSIDE = f"({X} != 0 and not {SERIES_WINDOW})"
contract('biogeme.models.boxcox.boxcox', P, nla_uf=True,
         types={'x': 'Expression', 'ell': 'Expression'},
         modifies=[],
         ensures={
             'zero_argument': f"implies({X} == 0, c05c_val(result) == 0.0)",
             # |ell| < 1e-5 (coded: ell < 1e-5 and ell > -1e-5): McLaurin series, continuous in ell through zero
             'series_inside_window': f"implies({X} != 0 and {SERIES_WINDOW}, c05c_val(result) == {MCLAURIN})",
             # parameter given as an expression (Beta, ...): x ** ell is a Power node
             'closed_form_outside_window': f"implies(not isinstance(ell, Numeric) and {_OUTSIDE}, "
                                           f"c05c_val(result) == ({X} ** {L} - 1.0) / {L})",
             # parameter given as a Numeric constant: x ** ell is a PowerConstant node (negative base needs an integer exponent);
             # first conjunct: the value of the Numeric node is its constant (instantiates the dispatch link)
             'closed_form_outside_window_numeric_parameter':
                 f"implies(isinstance(ell, Numeric) and ({X} >= 0 or is_int({L})) and {_OUTSIDE}, "
                 f"c05c_val(typed(ell, 'Numeric')) == {_ELLV} and c05c_val(result) == ({powc(X, L)} - 1.0) / {L})"},
         replay=_replay_code('c17_boxcox.py', 'boxcox:closed-form'),
         note='arguments restricted to Expression objects (plain numbers: bounded stand-in)')

# ------------------------------------------------------------------------------------------------ distributions
# Arguments: numbers or expressions (validate_and_convert); NX = numeric meaning of the argument (c05c_num).
# ASSUMPTION A-TOTAL-VALUE (abstract contract of Expression.get_value, contracts/c05_logit.py): every operand has a value
# (get_value does not raise).  The argument checks `try: v = e.get_value() except NotImplementedError: v = None` are therefore
# decided on the value; natively the check is skipped for an operand without a Python value (a Variable): bounded stand-ins.
D = 'biogeme.distributions.'
SQRT_2PI = '2.506628275'          # coded literal; |literal / sqrt(2 pi) - 1| <= 1e-9: static obligation C17:static:normalpdf:...


def num(p):
    return f'c05c_num({p})'


def bad(*ps):
    return ' or '.join('(' + N17.N._NOT_OPERAND.format(p) + ')' for p in ps)


_NX, _NM, _NS = num('x'), num('mu'), num('s')
_GAUSS = "app('numpy.exp', (-({0} - {1})) * ({0} - {1}) / (2.0 * {2} * {2}))"
contract(D + 'normalpdf', P, modifies=[],
         raises={'TypeError': bad('x', 'mu', 's'), 'ValueError': f"not ({bad('x', 'mu', 's')}) and {_NS} <= 0"},
         ensures={'textbook_density': f"c05c_val(result) == {_GAUSS.format(_NX, _NM, _NS)} / ({_NS} * {SQRT_2PI})"},
         replay=_replay_code('c17_distributions.py', 'normalpdf:matches-textbook'))

_LNX = f"app('numpy.log', {_NX})"
contract(D + 'lognormalpdf', P, modifies=[],
         raises={'TypeError': bad('x', 'mu', 's'), 'ValueError': f"not ({bad('x', 'mu', 's')}) and ({_NX} <= 0 or {_NS} <= 0)"},
         ensures={'textbook_density': f"c05c_val(result) == ite({_NX} > 0, 1, 0) * {_GAUSS.format(_LNX, _NM, _NS)} / ({_NX} * {_NS} * {SQRT_2PI})"},
         replay=_replay_code('c17_distributions.py', 'lognormalpdf:matches-textbook'))

_NA, _NB, _NC = num('a'), num('b'), num('c')
contract(D + 'uniformpdf', P, modifies=[],
         raises={'TypeError': bad('x', 'a', 'b'), 'ValueError': f"not ({bad('x', 'a', 'b')}) and {_NA} > {_NB}"},
         ensures={'textbook_density': f"implies({_NA} < {_NB}, c05c_val(result) == ite({_NX} >= {_NA} and {_NX} <= {_NB}, 1 / ({_NB} - {_NA}), 0.0))"},
         replay=_replay_code('c17_distributions.py', 'uniformpdf:matches-textbook'))

_BA, _CA, _BC = f"({_NB} - {_NA})", f"({_NC} - {_NA})", f"({_NB} - {_NC})"
contract(D + 'triangularpdf', P, modifies=[],
         raises={'TypeError': bad('x', 'a', 'b', 'c'),
                 'ValueError': f"not ({bad('x', 'a', 'b', 'c')}) and ({_NC} <= {_NA} or {_NC} >= {_NB})"},
         ensures={'zero_below_a': f"implies({_NX} < {_NA}, c05c_val(result) == 0.0)",
                  'rising_edge': f"implies({_NX} >= {_NA} and {_NX} < {_NC}, c05c_val(result) == 2.0 * (({_NX} - {_NA}) / ({_BA} * {_CA})))",
                  'mode': f"implies({_NX} == {_NC}, c05c_val(result) == 2.0 / {_BA})",
                  'falling_edge': f"implies({_NX} > {_NC} and {_NX} <= {_NB}, c05c_val(result) == 2.0 * ({_NB} - {_NX}) / ({_BA} * {_BC}))",
                  'zero_above_b': f"implies({_NX} > {_NB}, c05c_val(result) == 0.0)"},
         replay=_replay_code('c17_distributions.py', 'triangularpdf:matches-textbook'))

contract(D + 'logisticcdf', P, modifies=[],
         raises={'TypeError': bad('x', 'mu', 's'), 'ValueError': f"not ({bad('x', 'mu', 's')}) and {_NS} <= 0"},
         ensures={'textbook_cdf': f"c05c_val(result) == 1.0 / (1.0 + app('numpy.exp', (-({_NX} - {_NM})) / {_NS}))"},
         replay=_replay_code('c17_distributions.py', 'logisticcdf:matches-textbook'))

# ------------------------------------------------------------------------------------------------ regression likelihood
_Y, _MD, _SG = 'c05c_val(meas)', 'c05c_val(model)', 'c05c_val(sigma)'
_TT = f"(({_Y} - {_MD}) / {_SG})"
LOG_SQRT_2PI = '0.9189385332'     # coded literal; |literal - log(2 pi)/2| <= 1e-10: static obligation C17:static:loglikelihoodregression:...
contract('biogeme.loglikelihood.loglikelihoodregression', P, modifies=[],
         types={'meas': 'Expression', 'model': 'Expression', 'sigma': 'Expression'},
         ensures={'normal_log_density': f"implies({_SG} != 0, c05c_val(result) == "
                                        f"(-{powc(_TT, '2.0')}) / 2 - app('numpy.log', {powc(_SG, '2.0')}) / 2 - {LOG_SQRT_2PI})"},
         replay=_replay_code('c17_distributions.py', 'loglikelihoodregression:is-normal-log-density'))
