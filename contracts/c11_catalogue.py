"""C11 static obligations over the AST of native_draws.py: the catalogue wiring.

For every entry of `native_random_number_generators` the generator is resolved by constant
propagation through the helper functions of native_draws.py to a *call shape*

    Scheme(kind uniform|halton|mlhs, base, skip, shuffled, symmetric, normal, antithetic mirror, draws requested)

using the contracts of the primitives of draws.py as transfer functions (those contracts are the
obligations of contracts/c11_draws.py and the bounded Halton check), and compared with what the
key and the description advertise.  No import of biogeme: pure AST analysis.
"""
from __future__ import annotations

import ast
import re
import time
from dataclasses import dataclass, replace

EXPECTED_KEYS = [
    'UNIFORM', 'UNIFORM_ANTI', 'UNIFORM_HALTON2', 'UNIFORM_HALTON3', 'UNIFORM_HALTON5', 'UNIFORM_MLHS', 'UNIFORM_MLHS_ANTI',
    'UNIFORMSYM', 'UNIFORMSYM_ANTI', 'UNIFORMSYM_HALTON2', 'UNIFORMSYM_HALTON3', 'UNIFORMSYM_HALTON5', 'UNIFORMSYM_MLHS',
    'UNIFORMSYM_MLHS_ANTI', 'NORMAL', 'NORMAL_ANTI', 'NORMAL_HALTON2', 'NORMAL_HALTON3', 'NORMAL_HALTON5', 'NORMAL_MLHS',
    'NORMAL_MLHS_ANTI']

ADVERTISED_SKIP = 10          # "skipping the first 10" (descriptions of the uniform Halton entries)


class Unresolved(Exception):
    """The generator is outside what the resolver understands: undecided."""


class Mismatch(Exception):
    """The generator definitely violates the contract of a primitive it calls (wrong number of supplied numbers...)."""


@dataclass(frozen=True)
class Scheme:
    kind: str                     # uniform | halton | mlhs
    base: int | None = None
    skip: int | None = None
    shuffled: bool = False
    symmetric: bool = False
    normal: bool = False
    antithetic: str | None = None  # None | '1-x' | '-x'
    draws: str = 'full'            # number of draws asked from the underlying generator: 'full' | 'half'
    rows: str = 'sample_size'

    def show(self):
        b = f' base={self.base} skip={self.skip}' + (' shuffled' if self.shuffled else '') if self.kind == 'halton' else ''
        return (f'{self.kind}{b}{" symmetric" if self.symmetric else ""}{" normal" if self.normal else ""}'
                f'{" antithetic(" + self.antithetic + ")" if self.antithetic else ""} underlying-draws={self.draws}')


@dataclass(frozen=True)
class Sym:
    """Abstract scalar: a parameter of the generator protocol or half of the number of draws."""
    name: str                     # 'sample_size' | 'number_of_draws' | 'half'


@dataclass(frozen=True)
class Fn:
    qualname: str


@dataclass(frozen=True)
class Neg:
    of: object


@dataclass(frozen=True)
class OneMinus:
    of: object


PRIMS = ('get_uniform', 'get_latin_hypercube_draws', 'get_halton_draws', 'get_antithetic', 'get_normal_wichura_draws')


class Resolver:
    def __init__(self, repo):
        self.repo = repo
        self.nd = repo.modules['biogeme.native_draws']
        self.dr = repo.modules['biogeme.draws']

    # -- binding of call arguments with the real signature (defaults read from the AST) -------
    def bind(self, fnode: ast.FunctionDef, pos, kw, env_for_defaults):
        a = fnode.args
        params = [x.arg for x in a.args]
        defaults = [None] * (len(params) - len(a.defaults)) + list(a.defaults)
        out = {}
        if len(pos) > len(params):
            raise Unresolved('too many arguments')
        for n, v in zip(params, pos):
            out[n] = v
        for k, v in kw.items():
            if k not in params or k in out:
                raise Unresolved(f'unexpected argument {k}')
            out[k] = v
        for n, d in zip(params, defaults):
            if n not in out:
                if d is None:
                    raise Unresolved(f'missing argument {n}')
                out[n] = self.ev(d, {}, self.dr if env_for_defaults == 'draws' else self.nd, 0)
        return out

    # -- abstract evaluation --------------------------------------------------------------------
    def ev(self, node, env, module, depth):
        if isinstance(node, ast.Constant):
            return node.value
        if isinstance(node, ast.Name):
            if node.id in env:
                return env[node.id]
            if node.id in module.functions:
                return Fn(module.functions[node.id].qualname)
            if node.id in module.imports:
                return ('module', module.imports[node.id])
            if node.id in ('int', 'float'):
                return ('builtin', node.id)
            raise Unresolved(f'name {node.id}')
        if isinstance(node, ast.Attribute):
            v = self.ev(node.value, env, module, depth)
            if isinstance(v, tuple) and v[0] == 'module':
                dotted = f'{v[1]}.{node.attr}'
                mod, _, nm = dotted.rpartition('.')
                if mod in self.repo.modules and nm in self.repo.modules[mod].functions:
                    return Fn(dotted)
                return ('module', dotted)
            raise Unresolved(f'attribute {node.attr}')
        if isinstance(node, ast.Tuple):
            return tuple(self.ev(e, env, module, depth) for e in node.elts)
        if isinstance(node, ast.UnaryOp) and isinstance(node.op, ast.USub):
            v = self.ev(node.operand, env, module, depth)
            if isinstance(v, (int, float)):
                return -v
            return Neg(v)
        if isinstance(node, ast.BinOp):
            l, r = self.ev(node.left, env, module, depth), self.ev(node.right, env, module, depth)
            if isinstance(node.op, ast.Div) and l == Sym('number_of_draws') and r in (2, 2.0):
                return ('real-half',)
            if isinstance(node.op, ast.FloorDiv) and l == Sym('number_of_draws') and r == 2:
                return Sym('half')
            if isinstance(node.op, ast.Sub) and l in (1, 1.0) and isinstance(r, Scheme):
                return OneMinus(r)
            if isinstance(l, (int, float)) and isinstance(r, (int, float)):
                return ast.literal_eval(ast.unparse(node))
            raise Unresolved(f'expression {ast.unparse(node)}')
        if isinstance(node, ast.Call):
            f = self.ev(node.func, env, module, depth)
            pos = [self.ev(a, env, module, depth) for a in node.args]
            kw = {k.arg: self.ev(k.value, env, module, depth) for k in node.keywords}
            if None in kw:
                raise Unresolved('**kwargs')
            return self.call(f, pos, kw, depth)
        raise Unresolved(f'expression {type(node).__name__}')

    def call(self, f, pos, kw, depth):
        if depth > 6:
            raise Unresolved('depth')
        if isinstance(f, tuple) and f[0] == 'builtin' and f[1] == 'int' and len(pos) == 1:
            if pos[0] == ('real-half',):
                return Sym('half')
            if isinstance(pos[0], Sym):
                return pos[0]
            raise Unresolved('int() of an unknown value')
        if isinstance(f, tuple) and f[0] == 'module' and f[1] == 'numpy.concatenate':
            if kw.get('axis') != 1 or len(pos) != 1 or not isinstance(pos[0], tuple) or len(pos[0]) != 2:
                raise Unresolved('concatenate form')
            a, b = pos[0]
            if not isinstance(a, Scheme) or a.antithetic:
                raise Unresolved('concatenate of something else than generated draws')
            if b == Neg(a):
                return replace(a, antithetic='-x')
            if b == OneMinus(a):
                return replace(a, antithetic='1-x')
            raise Unresolved('second half is not a mirror image of the first')
        if isinstance(f, Fn):
            mod, _, nm = f.qualname.rpartition('.')
            if mod == 'biogeme.draws' and nm in PRIMS:
                fnode = self.dr.functions[nm].node
                return self.prim(nm, self.bind(fnode, pos, kw, 'draws'), depth)
            if mod == 'biogeme.native_draws':
                fi = self.nd.functions[nm]
                return self.run(fi.node, self.bind(fi.node, pos, kw, 'native'), depth + 1)
        raise Unresolved(f'call of {f}')

    def run(self, fnode: ast.FunctionDef, env, depth):
        env = dict(env)
        for st in fnode.body:
            if isinstance(st, ast.Expr) and isinstance(st.value, ast.Constant):
                continue
            if isinstance(st, ast.Assign) and len(st.targets) == 1 and isinstance(st.targets[0], ast.Name):
                env[st.targets[0].id] = self.ev(st.value, env, self.nd, depth)
                continue
            if isinstance(st, ast.Return):
                return self.ev(st.value, env, self.nd, depth)
            raise Unresolved(f'statement {type(st).__name__} in {fnode.name}')
        raise Unresolved(f'{fnode.name} does not return')

    # -- transfer functions = contracts of the primitives of draws.py ---------------------------------
    def _size(self, a):
        n, r = a['sample_size'], a['number_of_draws']
        if n != Sym('sample_size'):
            raise Unresolved('first argument is not the sample size')
        if r == Sym('number_of_draws'):
            return 'full'
        if r == Sym('half'):
            return 'half'
        raise Unresolved('number of draws argument')

    def prim(self, nm, a, depth):
        if nm == 'get_uniform':
            return Scheme('uniform', symmetric=self._flag(a['symmetric']), draws=self._size(a))
        if nm == 'get_latin_hypercube_draws':
            if a['uniform_numbers'] is not None:
                raise Unresolved('MLHS built on supplied numbers')
            return Scheme('mlhs', symmetric=self._flag(a['symmetric']), draws=self._size(a))
        if nm == 'get_halton_draws':
            if not isinstance(a['base'], int) or not isinstance(a['skip'], int):
                raise Unresolved('non-constant base/skip')
            return Scheme('halton', base=a['base'], skip=a['skip'], shuffled=self._flag(a['shuffled']),
                          symmetric=self._flag(a['symmetric']), draws=self._size(a))
        if nm == 'get_antithetic':
            if self._size(a) != 'full':
                raise Unresolved('antithetic of a partial request')
            s = self.call(a['uniform_draws'], [Sym('sample_size'), Sym('half')], {}, depth + 1)
            if not isinstance(s, Scheme) or s.antithetic:
                raise Unresolved('antithetic of something else than a generator')
            return replace(s, antithetic='1-x')
        if nm == 'get_normal_wichura_draws':
            anti = self._flag(a['antithetic'])
            size = self._size(a)
            if size != 'full':
                raise Unresolved('normal draws of a partial request')
            want = 'half' if anti else 'full'
            u = a['uniform_numbers']
            if u is None:
                s = Scheme('uniform', draws=want)
            elif isinstance(u, Scheme):
                if u.draws != want:
                    raise Mismatch(f"the numbers of a '{u.draws}' request are supplied to get_normal_wichura_draws where a '{want}' "
                                   f'request is needed (sample_size*number_of_draws{"/2" if anti else ""} numbers)')
                if u.antithetic or u.normal or u.symmetric:
                    raise Mismatch('normal transform applied to numbers that are not unit-uniform')
                s = u
            else:
                raise Unresolved('uniform_numbers')
            return replace(s, normal=True, antithetic='-x' if anti else None)
        raise Unresolved(nm)

    @staticmethod
    def _flag(v):
        if isinstance(v, bool):
            return v
        raise Unresolved('non-constant flag')


def advertised(key: str) -> Scheme:
    m = re.fullmatch(r'(UNIFORMSYM|UNIFORM|NORMAL)(?:_(HALTON(\d+)|MLHS))?(_ANTI)?', key)
    if not m:
        raise Unresolved(f'key {key} does not follow the naming scheme')
    dist, scheme, base, anti = m.groups()
    kind = 'uniform' if scheme is None else ('mlhs' if scheme == 'MLHS' else 'halton')
    mirror = None
    if anti:
        mirror = '1-x' if dist == 'UNIFORM' else '-x'
    return Scheme(kind, base=int(base) if base else None, skip=ADVERTISED_SKIP if kind == 'halton' else None,
                  symmetric=dist == 'UNIFORMSYM', normal=dist == 'NORMAL', antithetic=mirror,
                  draws='half' if anti else 'full')


def description_consistent(key: str, text: str) -> str:
    """'' when the description agrees with the key, else what is wrong."""
    want = advertised(key)
    t = text.lower()
    problems = []
    if want.kind == 'halton':
        m = re.search(r'base\s+(\d+)', t)
        if 'halton' not in t or not m or int(m.group(1)) != want.base:
            problems.append(f'description does not say Halton base {want.base}')
        m = re.search(r'skipping the first (\d+)', t)
        if m and int(m.group(1)) != ADVERTISED_SKIP:
            problems.append('advertised skip differs')
    elif 'halton' in t:
        problems.append('description mentions Halton')
    if (want.kind == 'mlhs') != ('latin hypercube' in t):
        problems.append('Latin hypercube mention')
    if bool(want.antithetic) != ('antithetic' in t):
        problems.append('antithetic mention')
    if want.normal != ('normal' in t):
        problems.append('normal mention')
    if want.symmetric != ('[-1, 1]' in text):
        problems.append('[-1, 1] mention')
    if not want.normal and not want.symmetric and want.kind != 'halton' and '[0, 1]' not in text:
        problems.append('[0, 1] mention')
    return '; '.join(problems)


def catalogue(repo):
    """-> list of (obligation name, status, detail, witness)"""
    out = []
    t0 = time.time()
    nd = repo.modules.get('biogeme.native_draws')
    node = nd.globals_.get('native_random_number_generators') if nd else None
    if not isinstance(node, ast.Dict):
        return [('C11:static:catalogue:keys', 'failed', 'native_random_number_generators is not a dict literal', None)]
    entries = {}
    for k, v in zip(node.keys, node.values):
        if isinstance(k, ast.Constant) and isinstance(k.value, str):
            entries[k.value] = v
    missing = [k for k in EXPECTED_KEYS if k not in entries]
    extra = [k for k in entries if k not in EXPECTED_KEYS]
    out.append(('C11:static:catalogue:keys', 'discharged' if not missing and not extra and len(node.keys) == len(EXPECTED_KEYS) else 'failed',
                f'missing {missing} unexpected {extra}' if missing or extra else 'exactly the 21 documented draw types', None))
    res = Resolver(repo)
    resolved = {}
    for key in EXPECTED_KEYS:
        name = f'C11:static:catalogue:{key}'
        if key not in entries:
            out.append((name, 'failed', 'entry missing', None))
            continue
        v = entries[key]
        try:
            gen, desc = None, None
            if isinstance(v, ast.Call):
                args = {k.arg: k.value for k in v.keywords}
                pos = list(v.args)
                gen = args.get('generator', pos[0] if pos else None)
                desc = args.get('description', pos[1] if len(pos) > 1 else None)
            elif isinstance(v, ast.Tuple) and len(v.elts) == 2:
                gen, desc = v.elts
            if gen is None or not isinstance(desc, ast.Constant):
                raise Unresolved('entry is not (generator, description)')
            f = res.ev(gen, {}, res.nd, 0)
            got = res.call(f, [Sym('sample_size'), Sym('number_of_draws')], {}, 0)
            if not isinstance(got, Scheme):
                raise Unresolved('generator does not resolve to a draw scheme')
            resolved[key] = got
            want = advertised(key)
            bad = description_consistent(key, desc.value)
            if got != want:
                out.append((name, 'failed', f'{key} ("{desc.value}") advertises [{want.show()}] but the generator resolves to [{got.show()}]',
                            {'key': key, 'advertised': want.__dict__, 'resolved': got.__dict__}))
            elif bad:
                out.append((name, 'failed', f'description "{desc.value}" disagrees with the key: {bad}', {'key': key}))
            else:
                out.append((name, 'discharged', got.show(), None))
        except Mismatch as e:
            out.append((name, 'failed', f'generator of {key}: {e}', {'key': key}))
        except Unresolved as e:
            out.append((name, 'unknown', f'generator of {key} cannot be resolved statically: {e}', {'key': key}))
    # entries that advertise different things (in particular different Halton bases) are different schemes
    same = [(a, b) for i, a in enumerate(EXPECTED_KEYS) for b in EXPECTED_KEYS[i + 1:]
            if a in resolved and b in resolved and resolved[a] == resolved[b]]
    if len(resolved) < len(EXPECTED_KEYS):
        out.append(('C11:static:catalogue:distinct-schemes', 'unknown', 'some entries could not be resolved', None))
    else:
        out.append(('C11:static:catalogue:distinct-schemes', 'failed' if same else 'discharged',
                    f'entries resolving to the same scheme: {same}' if same else 'the 21 entries resolve to 21 different schemes',
                    {'key': same[0][1]} if same else None))
    return out
