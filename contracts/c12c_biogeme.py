"""C12 (round 2, agent c12c): BIOGEME._audit -- every formula is audited, the errors of all formulas are collected, and
BiogemeError is raised IFF the collected list is not empty.

For each formula F of self.formulas (in dictionary order) the audit collects: one error if F has draws outside MonteCarlo
(check_draws), one if it has a random variable outside Integrate (check_rv), and every error of F.audit(database).  What these
recursive methods return on F is given by their abstract contracts (contracts/c12_audit.py, c12_collectors.py: induction
hypotheses, verified for every node class there).  Proved here for all inputs:

    BiogemeError  IFF  for some formula F:  F.audit raises, or F has misplaced draws, or a misplaced random variable, or
                       F.audit reports at least one error        (or the evaluation of the weight formula refuses)
    loop invariant: the errors of every formula audited so far are in the collected list (what the message is joined from)
"""
from pyvc.contract import contract, field_type

import contracts.c12_audit        # noqa: F401  (abstract contract of Expression.audit)
import contracts.c12_collectors   # noqa: F401  (abstract contracts of check_draws / check_rv)

BG = 'biogeme.biogeme.BIOGEME.'
field_type('BIOGEME', 'formulas', 'dict[str, Expression]')
field_type('BIOGEME', 'database', 'Database')
field_type('BIOGEME', 'weight', 'Expression | None')

contract('biogeme.expressions.base_expressions.Expression.get_value_c', 'C12', verify=False, modifies=[], returns='Any',
         types={'database': 'Database | None'},
         raises={'BiogemeError': 'c12c_evaluation_refuses(self, database)'}, ensures={'t': 'True'},
         label='Expression.get_value_c(assumed)',
         note='ENGINE: evaluates a formula (here the weight formula, summed over the sample); may refuse with BiogemeError; '
              'the result is a numpy float (division by it never raises)')
contract('biogeme.database.Database.get_sample_size', 'C12', verify=False, pure=True, reads=['data', 'individualMap', 'panelColumn'],
         returns='int', ensures={'t': 'True'}, label='Database.get_sample_size(assumed)', note='number of rows / individuals')

REPLAY_AUDIT = '''
import warnings; warnings.simplefilter('ignore')
import subprocess, sys
# each case: formulas of one BIOGEME object -> (the formulas, fragments every one of which the refusal must quote; none = accepted)
CASES = {
 'valid': ("{'log_like': b * x, 'weight': Numeric(1)}", []),
 'valid, three formulas': ("{'log_like': b * x, 'p1': exp(b), 'p2': MonteCarlo(x * d)}", []),
 'draws outside in the only formula': ("{'log_like': b * x * d}", ['outside the MonteCarlo']),
 'draws outside in the LAST of three': ("{'log_like': b * x, 'p1': exp(b), 'p2': x + d}", ['outside the MonteCarlo']),
 'random variable outside in the second': ("{'log_like': b * x, 'p1': exp(b) + rv}", ['outside the Integrate']),
 'absent column in the weight': ("{'log_like': b * x, 'weight': Variable('nope')}", ['nope']),
 'absent column in the first, draws in the last': ("{'log_like': b * Variable('nope'), 'p1': exp(b), 'p2': x * d}", ['nope', 'outside the MonteCarlo']),
 'two faults in one formula': ("{'log_like': b * x * d * rv}", ['outside the MonteCarlo', 'outside the Integrate']),
 'MonteCarlo without draws in the middle one': ("{'log_like': b * x, 'p1': MonteCarlo(x), 'p2': exp(b)}", ['MonteCarlo']),
 'faults in all three': ("{'log_like': x * d, 'p1': b + rv, 'p2': Variable('nope2')}", ['outside the MonteCarlo', 'outside the Integrate', 'nope2']),
}
PROG = """
import warnings, logging; warnings.simplefilter('ignore'); logging.disable(logging.CRITICAL)
import pandas as pd
from biogeme.database import Database
from biogeme.biogeme import BIOGEME
from biogeme.parameters import Parameters
from biogeme.expressions import *
from biogeme.exceptions import BiogemeError
db = Database('d', pd.DataFrame({'x': [1.0, 2.0], 'y': [0.0, 1.0]}))
b = Beta('b', 0.5, None, None, 0); x = Variable('x'); d = bioDraws('d', 'NORMAL'); rv = RandomVariable('omega')
try:
    BIOGEME(db, %s, parameters=Parameters()); print('accepted')
except BiogemeError as e:
    print('BiogemeError::' + str(e).replace(chr(10), ' / '))
except Exception as e:
    print(type(e).__name__ + '::' + str(e)[:200])
"""
wrong = []
for name, (src, frags) in CASES.items():      # one process per case (sticky engine error state)
    r = subprocess.run([sys.executable, '-c', PROG % src], capture_output=True, text=True)
    out = (r.stdout.strip().splitlines() or ['crash::' + r.stderr[-200:]])[-1]
    kind, _, msg = out.partition('::')
    ok = (kind == 'accepted') if not frags else (kind == 'BiogemeError' and all(f in msg for f in frags))
    if not ok:
        wrong.append((name, out[:300]))
violated = bool(wrong)
detail = f'cases where BIOGEME(...) does not refuse exactly the faulty specifications, quoting every error: {wrong[:4]}'
'''

F = 'old(c12c_formula(self.formulas, q))'
DBF = 'self.database'
FAULT_Q = (f'c12c_misplaced_draws({F}) or c12c_misplaced_rv({F}) or aud_nerr({F}, {DBF}) > 0')
N = 'len(self.formulas)'
contract(BG + '_audit', 'C12', modifies=[],
         raises={'BiogemeError': f'exists(lambda q: aud_raises({F}, {DBF}) or {FAULT_Q}, 0, {N}) '
                                 f'or (self.weight is not None and c12c_evaluation_refuses(self.weight, {DBF}))'},
         ensures={'t': 'True'},
         invariants={1: {'clauses': {
             'locals_are_new_lists': 'c12_fresh_lists((list_of_errors, list_of_warnings))',
             'old_lists_unchanged': 'c12_old_objects_unchanged()',
             'length_non_negative': 'len(list_of_errors) >= 0',
             'no_raise_so_far': f'forall(lambda q: not aud_raises({F}, {DBF}), 0, _k)',
             'no_error_only_if_no_fault_so_far': f'implies(len(list_of_errors) == 0, forall(lambda q: not ({FAULT_Q}), 0, _k))',
             'no_fault_so_far_only_if_no_error': f'implies(forall(lambda q: not ({FAULT_Q}), 0, _k), len(list_of_errors) == 0)',
             'count_so_far': f'len(list_of_errors) == old(c12c_audit_upto(self.formulas, self.database, _k))',
             'errors_of_every_formula_collected_in_order':
                 f'c12c_audit_in_order(list_of_errors, old(self.formulas), old(self.database), _k)'}}},
         replay=REPLAY_AUDIT)
