"""C12 (round 2, agent c12c): BIOGEME._audit -- every formula is audited, the errors of all formulas are collected, and
BiogemeError is raised IFF the collected list is not empty.

For each formula F of self.formulas (in dictionary order) the audit collects: one error if F has draws outside MonteCarlo
(check_draws), one if it has a random variable outside Integrate (check_rv), and every error of F.audit(database).  What these
recursive methods return on F is given by their abstract contracts (contracts/c12_audit.py, c12_collectors.py: induction
hypotheses, verified for every node class there).  Proved here for all inputs:

    BiogemeError  IFF  for some formula F:  F.audit raises, or F has misplaced draws, or a misplaced random variable, or
                       F.audit reports at least one error        (or the evaluation of the weight formula refuses)
    loop invariant: the errors of every formula audited so far are in the collected list (what the message is joined from)
"""
from pyvc.contract import contract, field_type

import contracts.c12_audit        # noqa: F401  (abstract contract of Expression.audit)
import contracts.c12_collectors   # noqa: F401  (abstract contracts of check_draws / check_rv)

BG = 'biogeme.biogeme.BIOGEME.'
field_type('BIOGEME', 'formulas', 'dict[str, Expression]')
field_type('BIOGEME', 'database', 'Database')
field_type('BIOGEME', 'weight', 'Expression | None')

contract('biogeme.expressions.base_expressions.Expression.get_value_c', 'C12', verify=False, modifies=[], returns='Any',
         types={'database': 'Database | None'},
         raises={'BiogemeError': 'c12c_evaluation_refuses(self, database)'}, ensures={'t': 'True'},
         label='Expression.get_value_c(assumed)',
         note='ENGINE: evaluates a formula (here the weight formula, summed over the sample); may refuse with BiogemeError; '
              'the result is a numpy float (division by it never raises)')
contract('biogeme.database.Database.get_sample_size', 'C12', verify=False, pure=True, reads=['data', 'individualMap', 'panelColumn'],
         returns='int', ensures={'t': 'True'}, label='Database.get_sample_size(assumed)', note='number of rows / individuals')

F = 'old(c12c_formula(self.formulas, q))'
DBF = 'self.database'
FAULT_Q = (f'c12c_misplaced_draws({F}) or c12c_misplaced_rv({F}) or aud_nerr({F}, {DBF}) > 0')
N = 'len(self.formulas)'
contract(BG + '_audit', 'C12', modifies=[],
         raises={'BiogemeError': f'exists(lambda q: aud_raises({F}, {DBF}) or {FAULT_Q}, 0, {N}) '
                                 f'or (self.weight is not None and c12c_evaluation_refuses(self.weight, {DBF}))'},
         ensures={'t': 'True'},
         invariants={1: {'clauses': {
             'locals_are_new_lists': 'c12_fresh_lists((list_of_errors, list_of_warnings))',
             'old_lists_unchanged': 'c12_old_objects_unchanged()',
             'length_non_negative': 'len(list_of_errors) >= 0',
             'no_raise_so_far': f'forall(lambda q: not aud_raises({F}, {DBF}), 0, _k)',
             'no_error_only_if_no_fault_so_far': f'implies(len(list_of_errors) == 0, forall(lambda q: not ({FAULT_Q}), 0, _k))',
             'no_fault_so_far_only_if_no_error': f'implies(forall(lambda q: not ({FAULT_Q}), 0, _k), len(list_of_errors) == 0)',
             'errors_of_every_formula_collected': f'forall(lambda q: c12c_includes(list_of_errors, aud_err({F}, {DBF})), 0, _k)'}}})
