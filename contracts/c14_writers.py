"""Contracts for the output writers of biogeme.results / biogeme.database (C14, never overwrite).

Each writer (a) obtains its file name from get_new_file_name (contract applied modularly: the name is
free), (b) opens exactly that name -- obligation `pre:no-overwrite:*` generated at the write sink by
the ghost file system (pyvc/libext/c14_fs.py) -- and (c) changes no other file: `only_new_file`.
"""
from pyvc.contract import contract, field_type

R = 'biogeme.results.bioResults.'

field_type('bioResults', 'data', 'RawResults')
field_type('Database', 'data', 'c14.DataFrame')
field_type('Database', 'name', 'str')

# the report generators are assumed to be pure functions of the results object: they are not
# executed symbolically (pandas / string building); that they reach no write sink is the static
# obligation C14:static:fs-pure:* (props/C14.py)
# get_html / get_latex print the name of their own output file (self.data.htmlFileName / latexFileName): the text is a
# function of that field too, so "the file holds the report" means the report generated AFTER the fresh name was stored
for _g, _ty, _reads in (('get_html', {'only_robust': 'bool'}, ['htmlFileName']), ('get_latex', {}, ['latexFileName']),
                        ('get_f12', {'robust_std_err': 'bool'}, [])):
    contract(R + _g, 'C14', verify=False, pure=True, reads=_reads, types=_ty, returns='str',
             note='assumed: report generator is a pure function (no file-system effect: static obligation fs-pure)')
contract('biogeme.tools.database.flatten_database', 'C14', verify=False, pure=True,
         returns='c14.DataFrame',
         note='assumed: flatten_database builds a new frame and has no file-system effect (static obligation fs-pure)')

_ONLY_NEW = ("forall(lambda p: implies(p != NAME, fs_is_file(p) == old(fs_is_file(p))), ty='str')")

_WRITER_REPLAY = """
import os, sys
sys.path.insert(0, '/verif/bounded')
import c14_native
n, bad = c14_native.run_histories(max_len=3, only={only!r})
violated = bool(bad)
detail = f'{{n}} histories of output generation in one directory; first overwrite: {{bad[0] if bad else None}}'
"""

for _w, _field, _ext, _ty in (('write_pickle', 'pickleFileName', 'pickle', {}),
                              ('write_html', 'htmlFileName', 'html', {'only_robust': 'bool'}),
                              ('write_latex', 'latexFileName', 'tex', {}),
                              ('write_f12', 'F12FileName', 'F12', {'robust_std_err': 'bool'})):
    _name = f"typed(self.data.{_field}, 'str')"
    ens = {
        'was_free': f"not fs_was_file({_name})",
        'written': f"fs_is_file({_name})",
        'only_new_file': _ONLY_NEW.replace('NAME', _name),
        'extension': f"{_name} == old(self.data.modelName) + '.' + '{_ext}' or "
                     f"exists(lambda q: q >= 0 and {_name} == f'{{old(self.data.modelName)}}~{{q:02d}}.{{\"{_ext}\"}}', ty='int')",
    }
    if _w == 'write_pickle':
        ens['returns_name'] = f"result == {_name}"
        # round 3: WHAT is written (the ghost file system models content): the raw results object is dumped
        ens['content'] = f"fs_content({_name}) == fs_pickled(self.data)"
    else:
        _gen = {'write_html': 'self.get_html(only_robust)', 'write_latex': 'self.get_latex()',
                'write_f12': 'self.get_f12(robust_std_err)'}[_w]
        # ... the file holds exactly the text of the report generator called with the writer's own argument
        ens['content'] = f"fs_content({_name}) == {_gen}"
    contract(R + _w, 'C14', types=_ty, modifies=[f'*.{_field}'], ensures=ens,
             replay=_WRITER_REPLAY.format(only=_w))

D = 'biogeme.database.Database.'
contract(D + 'dump_on_file', 'C14',
         ensures={
             'was_free': "not fs_was_file(result)",
             'written': "fs_is_file(result)",
             'only_new_file': _ONLY_NEW.replace('NAME', 'result'),
             'content': "fs_content(result) == fs_csv(self.data)",
         },
         replay=_WRITER_REPLAY.format(only='dump_on_file'))

contract(D + 'generate_flat_panel_dataframe', 'C14',
         types={'save_on_file': 'bool', 'identical_columns': 'Any'},
         raises={'BiogemeError': 'self.panelColumn is None'},          # refused iff the data is not panel (round 3)
         ensures={
             'no_file_unless_asked': "implies(not save_on_file, forall(lambda p: fs_is_file(p) == old(fs_is_file(p)), ty='str'))",
             # round 3: the flattened frame of THIS table is returned, and it is what goes to the one new file
             'returns_flat_frame': "same(result, biogeme.tools.database.flatten_database(self.data, self.panelColumn, "
                                   "identical_columns=identical_columns))",
             'one_new_file_when_asked': "implies(save_on_file, exists(lambda f: not fs_was_file(f) and fs_is_file(f) "
                                        "and fs_content(f) == fs_csv(result) and forall(lambda p: implies(p != f, "
                                        "fs_is_file(p) == old(fs_is_file(p))), ty='str'), ty='str'))",
         },
         replay=_WRITER_REPLAY.format(only='generate_flat_panel_dataframe'))
