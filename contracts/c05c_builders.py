"""C05 (round 2): DEDUCTIVE semantics of the model builders, for every number of alternatives and nests.

For each builder the Expression tree it RETURNS is proved to have the value (c05c_val, specs/c05c_specs.py) given by the
textbook formula written with sum_range over the dictionaries of utilities and availabilities.  The builders run on the
real node constructors / operator overloads through their verified contracts (contracts/c05c_nodes.py).
exp / log stay uninterpreted: the obligations are equalities of TERMS (same sum structure), not numerics.
"""
from pyvc.contract import contract, field_type

import contracts.c05c_nodes as N   # noqa: F401

P = 'C05'
M = 'biogeme.models.'

_UD = {'util': 'dict[int, Expression]', 'av': 'dict[int, Expression] | None'}

# ------------------------------------------------------------------------------------------------ logit
import re


def _rename(text, old, new):
    """rename the PARAMETER `old` (not the attribute .old, not part of another identifier)"""
    return re.sub(r'(?<![\w.])' + old + r'(?!\w)', new, text)


_LL = {k: _rename(v, 'choice', 'i') for k, v in N.LOGLOGIT_ENSURES.items()}
_REPLAY_LOGIT = '''
# loglogit on the real Python evaluator against -log sum_{available j} exp(V_j - V_c)  (fixed candidates)
import logging, math, warnings
logging.disable(logging.CRITICAL); warnings.filterwarnings('ignore')
from biogeme.expressions import Numeric, Beta
from biogeme.models import loglogit, logit
cands = [({1: 0.3, 3: -0.2}, {1: 1.0, 3: 1.0}, 3), ({1: 0.3, 3: -0.2, 4: 1.1}, {1: 1.0, 3: 0.0, 4: 1.0}, 4),
         ({1: 0.5, 2: 1.5, 4: -2.0}, None, 2), ({2: 1.0}, {2: 1.0}, 2)]
violated = False
for V, av, ch in cands:
    U = {k: Beta(f'b{k}', v, None, None, 0) for k, v in V.items()}
    A = None if av is None else {k: Numeric(v) for k, v in av.items()}
    got = loglogit(U, A, ch).get_value()
    want = -math.log(sum(math.exp(V[j] - V[ch]) for j in V if av is None or av[j] != 0))
    gp = logit(U, A, ch).get_value()
    if abs(got - want) > 1e-12 * max(1.0, abs(want)) or abs(gp - math.exp(want)) > 1e-12:
        violated = True
        detail = f'loglogit(V={V}, av={av}, {ch}) = {got!r} (logit {gp!r}); kernel over the arguments gives {want!r}'
        break
'''
contract(M + 'logit.loglogit', P, types=_UD, modifies=[],
         requires={'python_dict': 'c05c_dict_wf(av)'},
         raises={'TypeError': N._NOT_OPERAND.format('i')},
         ensures={k: v.replace('NODE', 'result') for k, v in _LL.items()},
         replay=_REPLAY_LOGIT)


_CHILD = "typed(result.child, 'LogLogit')"
_CHILD_ENS = {k: _rename(v.replace('self.', _CHILD + '.'), 'choice', 'i') for k, v in N._ENS.items()}
contract(M + 'logit.logit', P, types=_UD, modifies=[],
         requires={'python_dict': 'c05c_dict_wf(av)'},
         raises={'TypeError': N._NOT_OPERAND.format('i')},
         ensures={'value_is_exp_of_child': "c05c_val(result) == app('numpy.exp', c05c_val(result.child))",
                  'child_is_loglogit_node': 'isinstance(result.child, LogLogit)',
                  **{'child_' + k: v for k, v in _CHILD_ENS.items()}},
         replay=_REPLAY_LOGIT,
         note='logit returns exp(.) of a log-logit node built from the same arguments (same dictionaries: keys by position, '
              'values by key, chosen alternative): its value is exp of the kernel proved for loglogit; exp(-log s) = 1/s and '
              'exp(-inf) = 0 are lemmas about the uninterpreted transcendental functions (checked numerically by the '
              'bounded translation validation)')

# ------------------------------------------------------------------------------------------------ MEV
# logmev: log P_c = (V_c + lnG_c) - log sum_{available j} exp(V_j + lnG_j), in the shifted form of the kernel
_H = lambda k: f"(c05c_val(util[{k}]) + c05c_val(log_gi[{k}]))"      # noqa: E731
_CHM = 'int(c05c_num(choice))'
_KM = 'keys_of(util)[q]'
_AVM = "typed(av, 'dict[int, Expression]')"
_SAMEM = 'forall(lambda q: keys_of(util)[q] in av, 0, len(util))'
_T_AV_M = f"ite(c05c_val({_AVM}[{_KM}]) != 0.0, app('numpy.exp', {_H(_KM)} - {_H(_CHM)}), 0.0)"
_T_FULL_M = f"app('numpy.exp', {_H(_KM)} - {_H(_CHM)})"
_A_AV_M = (f"av is not None and {_CHM} in util and {_CHM} in av and {_SAMEM} and c05c_val({_AVM}[{_CHM}]) != 0.0")
_A_UNAV_M = (f"av is not None and {_CHM} in util and {_CHM} in av and {_SAMEM} and c05c_val({_AVM}[{_CHM}]) == 0.0")
_A_FULL_M = f"av is None and {_CHM} in util"
_RES = "typed(result, 'LogLogit')"
_F = N._F_AV.replace('NODE', _RES)
_S_RES = N._S_NODE.replace('NODE', _RES)
_NODE_UTIL = (f"len({_RES}.util) == len(util) and forall(lambda q: keys_of({_RES}.util)[q] == keys_of(util)[q] and "
              f"c05c_val({_RES}.util[keys_of({_RES}.util)[q]]) == {_H(_KM)}, 0, len(util)) and "
              f"implies({_CHM} in util, c05c_val({_RES}.util[{_CHM}]) == {_H(_CHM)}) and "
              f"c05c_val({_RES}.choice) == c05c_num(choice) and "
              f"implies(av is not None, forall(lambda q: implies(keys_of(util)[q] in {_AVM}, "
              f"{_RES}.av[keys_of({_RES}.util)[q]] is {_AVM}[keys_of(util)[q]]), 0, len(util))) and "
              f"implies(av is None, forall(lambda q: c05c_val({_RES}.av[keys_of({_RES}.util)[q]]) == 1, 0, len(util)))")
LOGMEV_ENSURES = {
    'kernel': f"c05c_cut('kernel:terms-agree', lambda: implies({_A_AV_M}, forall(lambda q: {_F} == {_T_AV_M}, 0, len(util)))) and "
              f"c05c_cut('kernel:sums-agree', lambda: implies({_A_AV_M}, {_S_RES} == sum_range(lambda q: {_T_AV_M}, 0, len(util)))) and "
              f"implies({_A_AV_M}, c05c_val(result) == -app('numpy.log', sum_range(lambda q: {_T_AV_M}, 0, len(util))))",
    'unavailable_choice': f"implies({_A_UNAV_M}, c05c_val(result) == -c05c_inf())",
    'kernel_full_choice_set':
        f"c05c_cut('kernel_full:terms-agree', lambda: implies({_A_FULL_M}, forall(lambda q: {_F} == {_T_FULL_M}, 0, len(util)))) and "
        f"c05c_cut('kernel_full:sums-agree', lambda: implies({_A_FULL_M}, {_S_RES} == sum_range(lambda q: {_T_FULL_M}, 0, len(util)))) and "
        f"implies({_A_FULL_M}, c05c_val(result) == -app('numpy.log', sum_range(lambda q: {_T_FULL_M}, 0, len(util))))",
}
_REPLAY_MEV = '''
# logmev / mev on the real Python evaluator against (V_c + lnG_c) - log sum_{available j} exp(V_j + lnG_j)  (fixed candidates)
import logging, math, warnings
logging.disable(logging.CRITICAL); warnings.filterwarnings('ignore')
from biogeme.expressions import Numeric, Beta
from biogeme.models import logmev, mev
cands = [({1: 0.3, 3: -0.2}, {1: 0.5, 3: -1.0}, {1: 1.0, 3: 1.0}, 3), ({1: 0.3, 3: -0.2, 4: 1.1}, {1: 0.1, 3: 0.2, 4: -0.4}, {1: 1.0, 3: 0.0, 4: 1.0}, 4),
         ({1: 0.5, 2: 1.5, 4: -2.0}, {1: -0.3, 2: 0.7, 4: 0.0}, None, 2), ({2: 1.0}, {2: 3.0}, {2: 1.0}, 2)]
violated = False
for V, G, av, ch in cands:
    U = {k: Beta(f'b{k}', v, None, None, 0) for k, v in V.items()}
    LG = {k: Numeric(v) for k, v in G.items()}
    A = None if av is None else {k: Numeric(v) for k, v in av.items()}
    got = logmev(U, LG, A, ch).get_value()
    want = -math.log(sum(math.exp((V[j] + G[j]) - (V[ch] + G[ch])) for j in V if av is None or av[j] != 0))
    gp = mev(U, LG, A, ch).get_value()
    if abs(got - want) > 1e-12 * max(1.0, abs(want)) or abs(gp - math.exp(want)) > 1e-12:
        violated = True
        detail = f'logmev(V={V}, lnG={G}, av={av}, {ch}) = {got!r} (mev {gp!r}); the MEV kernel over the arguments gives {want!r}'
        break
'''
_UDM = {'util': 'dict[int, Expression]', 'log_gi': 'dict[int, Expression]', 'av': 'dict[int, Expression] | None'}
_H_DICT = (f"len(h) == len(util) and forall(lambda q: keys_of(h)[q] == keys_of(util)[q] and "
           f"c05c_val(h[keys_of(util)[q]]) == {_H(_KM)}, 0, len(util)) and "
           "forall(lambda x: (x in h) == (x in util), ty='int')")
contract(M + 'mev.logmev', P, types=_UDM, modifies=[],
         # explicit proof steps (cuts) at the return point: the local dictionary h, then the node built from it
         hints=[f"c05c_cut('step1:h-is-util-plus-generating-terms', lambda: {_H_DICT})",
                f"c05c_cut('step2:h-at-the-chosen-alternative', lambda: implies({_CHM} in util, c05c_val(h[{_CHM}]) == {_H(_CHM)}))",
                "c05c_cut('step3:node-utilities', lambda: " + _NODE_UTIL.replace(_RES, "typed(log_p, 'LogLogit')") + ")"],
         requires={'python_dict': 'c05c_dict_wf(av)',
                   'generating_terms_for_every_alternative': 'forall(lambda q: keys_of(util)[q] in log_gi, 0, len(util))'},
         raises={'TypeError': N._NOT_OPERAND.format('choice')},
         ensures=LOGMEV_ENSURES, replay=_REPLAY_MEV)

_REQ_M = {'python_dict': 'c05c_dict_wf(av)',
          'generating_terms_for_every_alternative': 'forall(lambda q: keys_of(util)[q] in log_gi, 0, len(util))'}
contract(M + 'mev.mev', P, types=_UDM, modifies=[], requires=_REQ_M,
         raises={'TypeError': N._NOT_OPERAND.format('choice')},
         ensures={
             'kernel': f"implies({_A_AV_M}, c05c_val(result) == app('numpy.exp', -app('numpy.log', sum_range(lambda q: {_T_AV_M}, 0, len(util)))))",
             'unavailable_choice': f"implies({_A_UNAV_M}, c05c_val(result) == app('numpy.exp', -c05c_inf()))",
             'kernel_full_choice_set': f"implies({_A_FULL_M}, c05c_val(result) == app('numpy.exp', -app('numpy.log', sum_range(lambda q: {_T_FULL_M}, 0, len(util)))))"},
         replay=_REPLAY_MEV,
         note='value == exp(log-MEV kernel): term equality; exp(-log s) = 1/s, exp(-inf) = 0 are lemmas about the uninterpreted functions')
