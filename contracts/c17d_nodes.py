"""C17 (round 3, agent c17d): value semantics of the expression nodes the specification helpers build.

The verified node contracts of contracts/c05c_nodes.py (constructors, operator overloads, validate_and_convert, bioMultSum;
value function c05c_val of specs/c05c_specs.py) are re-used unchanged and RE-TAGGED for C17 (re-discharged in the C17 run).
Added here, in the same style (layer 1 get_value = defining equation, layer 2 constructor, layer 3 operator overload):
bioMin, bioMax, UnaryMinus / __neg__, the comparison nodes Less / LessOrEqual / Greater / GreaterOrEqual / Equal and their
overloads, PowerConstant / Power through __pow__, Variable and Beta leaves.
"""
from pyvc.contract import REGISTRY, contract, field_type

import contracts.c05c_nodes as N

P = 'C17'
B = N.B
L, R, C = N.L, N.R, N.C
NL, NR = N.NL, N.NR
_EXPR_FIELDS = N._EXPR_FIELDS

_REPLAY_NODES17 = '''
# value semantics of the nodes used by the C17 helpers on the real Python evaluator (fixed candidates)
import logging, math, warnings
logging.disable(logging.CRITICAL); warnings.filterwarnings('ignore')
from biogeme.expressions import Beta, Numeric, bioMin, bioMax, Variable
a, b = Beta('a', 0.75, None, None, 0), Beta('b', -1.5, None, None, 0)
x, y = 0.75, -1.5
checks = [
    ('bioMin(a, b)', bioMin(a, b).get_value(), min(x, y)), ('bioMin(b, 2)', bioMin(b, 2).get_value(), min(y, 2)),
    ('bioMin(a, 0.5)', bioMin(a, 0.5).get_value(), 0.5), ('bioMax(a, b)', bioMax(a, b).get_value(), max(x, y)),
    ('bioMax(0, b)', bioMax(0, b).get_value(), 0.0), ('bioMax(Numeric(0), a)', bioMax(Numeric(0), a).get_value(), x),
    ('-a', (-a).get_value(), -x), ('a < b', (a < b).get_value(), 0.0), ('b < a', (b < a).get_value(), 1.0),
    ('a <= 0.75', (a <= 0.75).get_value(), 1.0), ('a > b', (a > b).get_value(), 1.0), ('a >= 1', (a >= 1).get_value(), 0.0),
    ('a == 0.75', (a == 0.75).get_value(), 1.0), ('a == b', (a == b).get_value(), 0.0),
    ('a ** 2', (a ** 2).get_value(), x ** 2), ('a ** 2.5', (a ** 2.5).get_value(), x ** 2.5), ('b ** 3', (b ** 3).get_value(), y ** 3),
    ('a ** Numeric(3)', (a ** Numeric(3)).get_value(), x ** 3), ('a ** b', (a ** b).get_value(), x ** y),
    ('Beta value', Beta('c', 2.5, None, None, 0).get_value(), 2.5), ('Variable name', 1.0 if Variable('zz').name == 'zz' else 0.0, 1.0),
]
violated = False
for what, got, want in checks:
    if not (abs(got - want) <= 1e-12 * max(1.0, abs(want))):
        violated = True
        detail = f'{what}: real evaluator gives {got!r}, defining equation {want!r}'
        break
'''

# ---------------------------------------------------------------- layer 1: get_value
contract(B + 'binary_expressions.bioMin.get_value', P, ensures={'sem': f'result == ite({L} <= {R}, {L}, {R})'}, modifies=[])
contract(B + 'binary_expressions.bioMax.get_value', P, ensures={'sem': f'result == ite({L} >= {R}, {L}, {R})'}, modifies=[])
contract(B + 'unary_expressions.UnaryMinus.get_value', P, ensures={'sem': f'result == -{C}'}, modifies=[])
COMPARISON = {'Equal': '==', 'LessOrEqual': '<=', 'GreaterOrEqual': '>=', 'Less': '<', 'Greater': '>'}
for _cls, _op in COMPARISON.items():
    contract(B + f'comparison_expressions.{_cls}.get_value', P, ensures={'sem': f'result == ite({L} {_op} {R}, 1, 0)'}, modifies=[])

# ---------------------------------------------------------------- layer 2: constructors
_RAISES_BIN = {'TypeError': f"({N._NOT_OPERAND.format('left')}) or ({N._NOT_OPERAND.format('right')})"}
BIN_INIT = {'binary_expressions.bioMin': f'ite({NL} <= {NR}, {NL}, {NR})', 'binary_expressions.bioMax': f'ite({NL} >= {NR}, {NL}, {NR})'}
BIN_INIT.update({f'comparison_expressions.{_cls}': f'ite({NL} {_op} {NR}, 1, 0)' for _cls, _op in COMPARISON.items()})
for _q, _sem in BIN_INIT.items():
    contract(B + _q + '.__init__', P, modifies=_EXPR_FIELDS + ['self.left', 'self.right'], raises=dict(_RAISES_BIN),
             ensures={'value': f'c05c_val(self) == {_sem}'})
contract(B + 'unary_expressions.UnaryMinus.__init__', P, modifies=_EXPR_FIELDS + ['self.child'],
         raises={'TypeError': N._NOT_OPERAND.format('child')},
         ensures={'value': 'c05c_val(self) == -c05c_num(child)'})

# ---------------------------------------------------------------- layer 3: operator overloads
OPS = {'__neg__': ('-c05c_val(self)', False), '__lt__': ('ite(c05c_val(self) < c05c_num(other), 1, 0)', True),
       '__le__': ('ite(c05c_val(self) <= c05c_num(other), 1, 0)', True), '__gt__': ('ite(c05c_val(self) > c05c_num(other), 1, 0)', True),
       '__ge__': ('ite(c05c_val(self) >= c05c_num(other), 1, 0)', True), '__eq__': ('ite(c05c_val(self) == c05c_num(other), 1, 0)', True)}
for _op, (_sem, _bin) in OPS.items():
    contract(B + f'base_expressions.Expression.{_op}', P, pure=True, returns='Expression', exact_self=False,
             raises={'BiogemeError': N._BAD} if _bin else {},
             ensures={'value': f'c05c_val(result) == {_sem}'},
             note='pure: the node built by the operator is a function of the operands (allocation abstracted)')

# ---------------------------------------------------------------- re-tag the c05c contracts used by the C17 helpers
RETAG = ([B + f'binary_expressions.{c}.get_value' for c in ('Plus', 'Minus', 'Times', 'Divide', 'Power')] +
         [B + f'unary_expressions.{c}.get_value' for c in ('exp', 'log')] +
         [B + 'numeric_expressions.Numeric.get_value', B + 'numeric_expressions.Numeric.__init__', B + 'convert.validate_and_convert',
          B + 'unary_expressions.UnaryOperator.__init__', B + 'unary_expressions.exp.__init__', B + 'unary_expressions.log.__init__',
          B + 'binary_expressions.BinaryOperator.__init__', B + 'comparison_expressions.ComparisonOperator.__init__'] +
         [B + f'binary_expressions.{c}.__init__' for c in ('Plus', 'Minus', 'Times', 'Divide', 'Power')] +
         [B + f'base_expressions.Expression.{op}' for op in ('__add__', '__sub__', '__mul__', '__rmul__', '__radd__', '__rsub__',
                                                             '__truediv__', '__rtruediv__')] +
         [B + 'nary_expressions.bioMultSum.get_value', B + 'nary_expressions.bioMultSum.__init__',
          B + 'base_expressions.Expression.get_value'])
for _k in RETAG:
    _c = REGISTRY.contracts[_k]
    if P not in _c.props:
        _c.props.append(P)

for _k, _c in REGISTRY.contracts.items():
    if P in _c.props and _c.verify and _c.replay is None and _k.startswith(B):
        _c.replay = _REPLAY_NODES17

# ---------------------------------------------------------------- powers (Box-Cox, regression likelihood)
field_type('PowerConstant', 'exponent', 'float')
field_type('PowerConstant', 'integer_exponent', 'int | None')
field_type('Elem', 'keyExpression', 'Expression')
field_type('Elem', 'dict_of_expressions', 'dict[int, Expression]')


def powc(v, e):
    """value of PowerConstant(child of value v, exponent e): 0 at 0 (also for e <= 0), v ** e for v > 0, v ** int(e) for a
    negative base and an integer exponent (undefined otherwise: the evaluator raises)"""
    return f"ite({v} == 0, 0.0, ite({v} > 0, {v} ** {e}, {v} ** int({e})))"


contract(B + 'unary_expressions.PowerConstant.get_value', P,
         requires={'domain': f'{C} >= 0 or self.integer_exponent is not None'},
         ensures={'sem': f"result == ite({C} == 0, 0.0, ite({C} > 0, {C} ** self.exponent, {C} ** typed(self.integer_exponent, 'int')))"},
         modifies=[])
contract(B + 'unary_expressions.PowerConstant.__init__', P, types={'exponent': 'float'},
         modifies=_EXPR_FIELDS + ['self.child', 'self.exponent', 'self.integer_exponent'],
         raises={'TypeError': N._NOT_OPERAND.format('child')},
         ensures={'value': f"implies(c05c_num(child) >= 0 or is_int(exponent), c05c_val(self) == {powc('c05c_num(child)', 'exponent')})"})
# x ** y: a number or a Numeric node as exponent gives a PowerConstant node, another expression a Power node
_NUMERIC_NODE = "typed(other, 'Numeric')"
contract(B + 'base_expressions.Expression.__pow__', P, pure=True, returns='Expression', exact_self=False,
         raises={'BiogemeError': N._BAD},
         ensures={'number_exponent': "implies(is_numeric(other) and (c05c_val(self) >= 0 or is_int(c05c_num(other))), "
                                     f"c05c_val(result) == {powc('c05c_val(self)', 'c05c_num(other)')})",
                  'numeric_node_exponent': f"implies(isinstance(other, Numeric) and (c05c_val(self) >= 0 or is_int({_NUMERIC_NODE}.value)), "
                                           f"c05c_val(result) == {powc('c05c_val(self)', _NUMERIC_NODE + '.value')})",
                  'expression_exponent': "implies(isinstance(other, Expression) and not isinstance(other, Numeric), "
                                         "c05c_val(result) == c05c_val(self) ** c05c_num(other))"},
         note='pure: the node built by the operator is a function of the operands (allocation abstracted)')
_KEY = "int(self.keyExpression.get_value())"
contract(B + 'nary_expressions.Elem.get_value', P, modifies=[],
         raises={'BiogemeError': f'{_KEY} not in self.dict_of_expressions'},
         ensures={'sem': f'result == self.dict_of_expressions[{_KEY}].get_value()'})
for _k in (B + 'unary_expressions.PowerConstant.get_value', B + 'unary_expressions.PowerConstant.__init__',
           B + 'base_expressions.Expression.__pow__', B + 'nary_expressions.Elem.get_value'):
    REGISTRY.contracts[_k].replay = _REPLAY_NODES17

# ---------------------------------------------------------------- Elem: selection of a dictionary entry by the value of a key expression
_D = 'dict_of_expressions'
_SD = 'self.dict_of_expressions'
_KEYV = 'int(c05c_num(key_expression))'
_ELEM_INV = {
    'copied': f"forall(lambda q: keys_of({_D})[q] in {_SD} and {_SD}[keys_of({_D})[q]] is {_D}[keys_of({_D})[q]], 0, _k)",
    'nothing_else': f"forall(lambda x: implies(x in {_SD}, x in {_D}), ty='int')",
    'own_dict': f"{_SD} is not {_D} and len({_D}) == old(len({_D}))",
    'key': 'c05c_val(self.keyExpression) == c05c_num(key_expression)',
}
contract(B + 'nary_expressions.Elem.__init__', P, types={_D: 'dict[int, Expression]'},
         modifies=_EXPR_FIELDS + ['self.keyExpression', _SD],
         raises={'TypeError': N._NOT_OPERAND.format('key_expression')},
         ensures={'entries_by_key': f"forall(lambda x: implies(x in {_D}, x in {_SD} and {_SD}[x] is {_D}[x]), ty='int')",
                  'nothing_else': _ELEM_INV['nothing_else'],
                  'key': _ELEM_INV['key'],
                  'value': f"implies({_KEYV} in {_D}, c05c_val(self) == c05c_val({_D}[{_KEYV}]))"},
         invariants={1: {'clauses': dict(_ELEM_INV)}},
         replay=_REPLAY_NODES17,
         note='dictionary restricted to Expression values (the builders pass nodes)')
