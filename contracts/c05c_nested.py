"""C05 (round 2): ln G_i of the nested logit model for EVERY number of nests and alternatives (get_mev_for_nested).

For every nest q and every alternative i of it the returned dictionary holds a tree of value
        (mu_q - 1) * V_i + (1/mu_q - 1) * log( c05c_nestsum(nest_q, util, availability) ),
for every alternative left alone the value 0, and nothing else.  c05c_nestsum is DEFINED (specs/c05c_specs.py) as
sum_{j in nest q} [av_j != 0] exp(mu_q V_j).  Nest parameters are Expression objects with value != 0 (the property: >= 1).
Products of two symbolic reals are uninterpreted (commutative rmul, nla_uf): the obligation is an equality of terms.
"""
from pyvc.contract import contract, field_type

import contracts.c05c_builders as Bd   # noqa: F401
import contracts.c05c_nodes as N       # noqa: F401

P = 'C05'
M = 'biogeme.models.nested.'

field_type('Nests', 'tuple_of_nests', 'list[OneNestForNestedLogit]')
field_type('Nests', 'alone', 'set[int] | None')
field_type('Nests', 'choice_set', 'list[int]')
field_type('OneNestForNestedLogit', 'nest_param', 'Expression')

_NS = 'self.tuple_of_nests'
# ASSUMED (decided by the bounded stand-in bounded/c05_nests_native.py, mode partition): check_partition accepts only
# pairwise disjoint nests that do not meet the alternatives left alone
contract('biogeme.nests.NestsForNestedLogit.check_partition', P, verify=False, pure=True, returns='tuple[bool, str]',
         ensures={'accepted_means_partition': 'implies(result[0], c05c_partition(self))',
                  'accepted_means_disjoint':
                  f"implies(result[0], forall(lambda a: forall(lambda b: implies(a != b, forall(lambda p: forall(lambda r: "
                  f"{_NS}[a].list_of_alternatives[p] != {_NS}[b].list_of_alternatives[r], 0, len({_NS}[b].list_of_alternatives)), "
                  f"0, len({_NS}[a].list_of_alternatives))), 0, len({_NS})), 0, len({_NS})))",
                  'accepted_means_alone_outside_nests':
                  f"implies(result[0] and self.alone is not None, forall(lambda a: forall(lambda p: "
                  f"{_NS}[a].list_of_alternatives[p] not in typed(self.alone, 'set[int]'), 0, len({_NS}[a].list_of_alternatives)), "
                  f"0, len({_NS})))"},
         note='assumed: NestsForNestedLogit.check_partition returns ok only when the nests are pairwise disjoint and disjoint '
              'from `alone` (set comprehensions / set().union(*generator) are outside the engine; bounded stand-in '
              'C05:bounded:nests:accepted-structures-are-partitions-and-alone-is-the-complement)')

T = 'nests.tuple_of_nests'
AV = 'availability'


def G(nest: str, alt: str) -> str:
    return (f"((c05c_val({nest}.nest_param) - 1.0) * c05c_val(util[{alt}]) + "
            f"(1.0 / c05c_val({nest}.nest_param) - 1.0) * app('numpy.log', c05c_nestsum({nest}, util, {AV})))")


_IN_ALONE = "(nests.alone is not None and x in typed(nests.alone, 'set[int]'))"
# loop 1 (over the nests), k nests done
_DOM_ALONE = f"forall(lambda x: implies({_IN_ALONE}, x in log_gi), ty='int')"
_DOM_K = f"forall(lambda q: forall(lambda p: {T}[q].list_of_alternatives[p] in log_gi, 0, len({T}[q].list_of_alternatives)), 0, _k)"
_VAL_K = (f"forall(lambda q: forall(lambda p: c05c_val(log_gi[{T}[q].list_of_alternatives[p]]) == "
          f"{G(T + '[q]', T + '[q].list_of_alternatives[p]')}, 0, len({T}[q].list_of_alternatives)), 0, _k)")
_ALONE_K = f"forall(lambda x: implies({_IN_ALONE}, c05c_val(log_gi[x]) == 0), ty='int')"
_TYPED = "forall(lambda x: implies(x in log_gi, isinstance(log_gi[x], Expression)), ty='int')"

_REQ = {
    'python_dict': 'c05c_dict_wf(availability)',
    'nest_parameters_nonzero': f"forall(lambda q: c05c_val({T}[q].nest_param) != 0, 0, len({T}))",
    'nonempty_nests': f"forall(lambda q: len({T}[q].list_of_alternatives) > 0, 0, len({T}))",
    'nest_alternatives_have_utilities': f"forall(lambda q: forall(lambda p: {T}[q].list_of_alternatives[p] in util, 0, "
                                        f"len({T}[q].list_of_alternatives)), 0, len({T}))",
    'nest_alternatives_have_availabilities': f"implies(availability is not None, forall(lambda q: forall(lambda p: "
                                             f"{T}[q].list_of_alternatives[p] in availability, 0, "
                                             f"len({T}[q].list_of_alternatives)), 0, len({T})))",
}

# loops 2 / 3 (over the alternatives of the current nest m = nests[K]; one copy per availability branch), _k alternatives done
_K = 'c05c_pos(m)'
_ALTS = 'm.list_of_alternatives'
_DOM_PREV_IN = _DOM_K.replace('_k', _K)
_DOM_CUR_IN = f"forall(lambda p: {_ALTS}[p] in log_gi, 0, _k)"
_NEW_ALT = (f"forall(lambda q: forall(lambda p: {T}[q].list_of_alternatives[p] != {_ALTS}[_k - 1], 0, "
            f"len({T}[q].list_of_alternatives)), 0, {_K})")
_PREV_IN = (f"c05c_cut('alternative-just-written-is-in-no-previous-nest', lambda: implies(_k > 0, {_NEW_ALT})) and "
            + _VAL_K.replace('_k', _K))
_CUR_IN = f"forall(lambda p: c05c_val(log_gi[{_ALTS}[p]]) == {G('m', _ALTS + '[p]')}, 0, _k)"
_SUM_IN = f"c05c_val(the_sum) == c05c_nestsum(m, util, {AV})"
_M_IN = f"0 <= {_K} and {_K} < len({T}) and m is {T}[{_K}]"
_INNER = {'current_nest': _M_IN, 'inner_sum': _SUM_IN, 'domain_alone': _DOM_ALONE, 'domain_previous_nests': _DOM_PREV_IN,
          'domain_current_nest': _DOM_CUR_IN, 'previous_nests': _PREV_IN, 'current_nest_terms': _CUR_IN,
          'alone_zero': _ALONE_K}

_REPLAY_NESTED = '''
# ln G_i of the nested logit on the real Python evaluator against (mu-1) V_i + (1/mu-1) log sum_{j in nest, av_j != 0} exp(mu V_j)
import logging, math, warnings
logging.disable(logging.CRITICAL); warnings.filterwarnings('ignore')
from biogeme.expressions import Numeric, Beta
from biogeme.nests import OneNestForNestedLogit, NestsForNestedLogit
from biogeme.models.nested import get_mev_for_nested, lognested, nested
cands = [({1: 0.3, 2: -0.2, 3: 1.0}, {1: 1.0, 2: 1.0, 3: 1.0}, [(1.5, [1, 2])], 1),
         ({1: 0.3, 2: -0.2, 3: 1.0, 4: 0.4}, {1: 1.0, 2: 0.0, 3: 1.0, 4: 1.0}, [(2.0, [1, 2]), (1.25, [3, 4])], 3),
         ({1: 0.3, 2: -0.2, 3: 1.0, 4: 0.4}, None, [(2.0, [4, 1]), (3.0, [2])], 2),
         ({1: 0.5, 2: 0.1}, {1: 1.0, 2: 1.0}, [], 1)]
violated = False
for V, av, fam, ch in cands:
    U = {k: Beta(f'b{k}', v, None, None, 0) for k, v in V.items()}
    A = None if av is None else {k: Numeric(v) for k, v in av.items()}
    ns = NestsForNestedLogit(list(V), tuple(OneNestForNestedLogit(Beta(f'mu{m}', mu, None, None, 0), list(alts)) for m, (mu, alts) in enumerate(fam)))
    got = {k: e.get_value() for k, e in get_mev_for_nested(U, A, ns).items()}
    want = {k: 0.0 for k in V}
    for mu, alts in fam:
        s = sum(math.exp(mu * V[j]) for j in alts if av is None or av[j] != 0)
        for i in alts:
            want[i] = (mu - 1.0) * V[i] + (1.0 / mu - 1.0) * math.log(s)
    bad = [k for k in V if k not in got or abs(got[k] - want[k]) > 1e-12 * max(1.0, abs(want[k]))]
    if not bad:
        h = {k: V[k] + want[k] for k in V}
        lp = h[ch] - math.log(sum(math.exp(h[j]) for j in V if av is None or av[j] != 0))
        g1, g2 = lognested(U, A, ns, ch).get_value(), nested(U, A, ns, ch).get_value()
        if abs(g1 - lp) > 1e-11 or abs(g2 - math.exp(lp)) > 1e-11:
            bad = [f'lognested {g1!r} / nested {g2!r} against {lp!r}']
    if bad:
        violated = True
        detail = f'get_mev_for_nested(V={V}, av={av}, nests={fam}): generating terms {got}, textbook {want}; mismatch at {bad}'
        break
'''

_NOT_OK = 'not nests.check_partition()[0]'
contract(M + 'get_mev_for_nested', P, nla_uf=True, replay=_REPLAY_NESTED,
         types={'util': 'dict[int, Expression]', 'availability': 'dict[int, Expression] | None', 'nests': 'NestsForNestedLogit'},
         requires=_REQ, modifies=[],
         # BiogemeError exactly when the nests are rejected by check_partition (a valid structure never raises)
         raises={'BiogemeError': _NOT_OK},
         ensures={'domain_alone': _DOM_ALONE.replace('log_gi', 'result'),
                  'domain_nests': _DOM_K.replace('log_gi', 'result').replace('_k', f'len({T})'),
                  'nest_terms': _VAL_K.replace('log_gi', 'result').replace('_k', f'len({T})'),
                  'alone_zero': _ALONE_K.replace('log_gi', 'result'),
                  'nests_are_a_partition': 'c05c_partition(nests)'},
         invariants={1: {'clauses': {'domain_alone': _DOM_ALONE, 'domain_nests': _DOM_K, 'nest_terms': _VAL_K, 'alone_zero': _ALONE_K}},
                     # the two ways of starting (alone None / a set) are kept apart: each runs the outer loop (1 / 4) and, per
                     # availability branch, one copy of the inner loop (2, 3 / 5, 6)
                     4: {'clauses': {'domain_alone': _DOM_ALONE, 'domain_nests': _DOM_K, 'nest_terms': _VAL_K, 'alone_zero': _ALONE_K}},
                     **{o: {'clauses': dict(_INNER)} for o in (2, 3, 5, 6)}})

# ---------------------------------------------------------------------------------------- lognested / nested: closed form
# lognested = logmev(util, get_mev_for_nested(util, availability, nests), availability, choice); nested = mev(the same).
# ONE postcondition over util / availability / nests: the log-sum-exp kernel with  h_k = V_k + c05c_lng(nests, util, av, k),
# where c05c_lng is DEFINED in specs/c05c_specs.py (the nested-logit term of the nest of k, 0 outside every nest).
_COVER = (f"forall(lambda q: {_IN_ALONE.replace('x in', 'keys_of(util)[q] in')} or exists(lambda a: exists(lambda p: "
          f"keys_of(util)[q] == {T}[a].list_of_alternatives[p], 0, len({T}[a].list_of_alternatives)), 0, len({T})), 0, len(util))")
_REQ_L = dict(_REQ)
_REQ_L['every_alternative_alone_or_in_a_nest'] = _COVER


def _closed(text: str) -> str:
    """the MEV kernel text of contracts/c05c_builders.py with the generating terms replaced by the closed form"""
    out = Bd._rename(text, 'av', AV)
    return out.replace('c05c_val(log_gi[', f'c05c_lng(nests, util, {AV}, ').replace('])', '))')


_LNG = lambda k: f"c05c_lng(nests, util, {AV}, {k})"       # noqa: E731
_KU = 'keys_of(util)[q]'
_CHN = 'int(c05c_num(choice))'
_HN = lambda k: f"(c05c_val(util[{k}]) + {_LNG(k)})"        # noqa: E731
_AVN = f"typed({AV}, 'dict[int, Expression]')"
_SAMEN = f'forall(lambda q: keys_of(util)[q] in {AV}, 0, len(util))'
_T_AV_N = f"ite(c05c_val({_AVN}[{_KU}]) != 0.0, app('numpy.exp', {_HN(_KU)} - {_HN(_CHN)}), 0.0)"
_T_FULL_N = f"app('numpy.exp', {_HN(_KU)} - {_HN(_CHN)})"
_A_AV_N = f"{AV} is not None and {_CHN} in util and {_CHN} in {AV} and {_SAMEN} and c05c_val({_AVN}[{_CHN}]) != 0.0"
_A_UNAV_N = f"{AV} is not None and {_CHN} in util and {_CHN} in {AV} and {_SAMEN} and c05c_val({_AVN}[{_CHN}]) == 0.0"
_A_FULL_N = f"{AV} is None and {_CHN} in util"
_TERMS_ARE_LNG = (f"forall(lambda q: c05c_val(log_gi[{_KU}]) == {_LNG(_KU)}, 0, len(util)) and "
                  f"implies({_CHN} in util, c05c_val(log_gi[{_CHN}]) == {_LNG(_CHN)})")


_DEF = f"lambda: c05c_lng_definition(nests, util, {AV})"
_ALT_AP = f"{T}[a].list_of_alternatives[p]"
_ALL_AP = lambda body: (f"forall(lambda a: forall(lambda p: {body}, 0, len({T}[a].list_of_alternatives)), 0, len({T}))")   # noqa: E731
_STEPS = [
    # explicit proof steps at the return point (the definition of c05c_lng is a hypothesis of steps 1-3 only)
    f"c05c_cut_with('step1:the-nest-of-an-alternative-of-nest-a-is-a', {_DEF}, lambda: c05c_partition(nests) and "
    + _ALL_AP(f"c05c_innest(nests, {_ALT_AP}) and c05c_nestof(nests, {_ALT_AP}) == a") + ")",
    f"c05c_cut_with('step2:closed-form-on-the-alternatives-of-a-nest', {_DEF}, lambda: "
    + _ALL_AP(f"{_LNG(_ALT_AP)} == {G(T + '[a]', _ALT_AP)}") + ")",
    f"c05c_cut_with('step3:closed-form-is-zero-on-alternatives-left-alone', {_DEF}, lambda: "
    f"forall(lambda x: implies({_IN_ALONE}, {_LNG('x')} == 0), ty='int'))",
    f"c05c_cut('step4:generating-terms-are-the-closed-form', lambda: {_TERMS_ARE_LNG})",
]


def _closed_form(wrap: bool) -> dict:
    pre, post = ("app('numpy.exp', ", ')') if wrap else ('', '')
    return {
        'closed_form': f"implies({_A_AV_N}, c05c_val(result) == {pre}-app('numpy.log', sum_range(lambda q: {_T_AV_N}, 0, len(util))){post})",
        'closed_form_unavailable_choice': f"implies({_A_UNAV_N}, c05c_val(result) == {pre}-c05c_inf(){post})",
        'closed_form_full_choice_set': f"implies({_A_FULL_N}, c05c_val(result) == {pre}-app('numpy.log', sum_range(lambda q: {_T_FULL_N}, 0, len(util))){post})",
    }


# C06 corollaries of the closed form: with no nest at all (every alternative alone) or with every nest parameter of value one
# the value is the LOGIT kernel over the same utilities and availabilities - the very formula proved for models.loglogit /
# models.logit (contracts/c05c_builders.py), so the two models have the same value.
_ALL_ONE = f"(len({T}) == 0 or forall(lambda q: c05c_val({T}[q].nest_param) == 1, 0, len({T})))"
_LOGIT_T_AV = Bd._rename(N._T_AV, 'av', AV)
_LOGIT_T_FULL = N._T_FULL
_STEP_ONE = (f"c05c_cut_with('step5:closed-form-vanishes-without-nests-or-with-unit-nest-parameters', {_DEF}, lambda: "
             f"implies({_ALL_ONE}, forall(lambda x: {_LNG('x')} == 0, ty='int')))")


_STEP_ONE_B = (f"c05c_cut('step5b:generating-terms-vanish-without-nests-or-with-unit-nest-parameters', lambda: implies({_ALL_ONE}, "
               f"forall(lambda q: c05c_val(log_gi[{_KU}]) == 0, 0, len(util)) and "
               f"implies({_CHN} in util, c05c_val(log_gi[{_CHN}]) == 0)))")


def _reduces(wrap: bool) -> dict:
    pre, post = ("app('numpy.exp', ", ')') if wrap else ('', '')
    return {
        'reduces_to_logit': f"implies({_ALL_ONE} and {_A_AV_N}, c05c_val(result) == {pre}-app('numpy.log', "
                            f"sum_range(lambda q: {_LOGIT_T_AV}, 0, len(util))){post})",
        'reduces_to_logit_full_choice_set': f"implies({_ALL_ONE} and {_A_FULL_N}, c05c_val(result) == {pre}-app('numpy.log', "
                                            f"sum_range(lambda q: {_LOGIT_T_FULL}, 0, len(util))){post})",
    }


for fn, wrap in (('lognested', False), ('nested', True)):
    contract(M + fn, ['C05', 'C06'], nla_uf=True,
             types={'util': 'dict[int, Expression]', 'availability': 'dict[int, Expression] | None', 'nests': 'NestsForNestedLogit'},
             requires=_REQ_L, modifies=[],
             raises={'BiogemeError': _NOT_OK,
                     'TypeError': f"not ({_NOT_OK}) and ({N._NOT_OPERAND.format('choice')})"},
             # the reduction to logit is stated on the log version (the probability version is exp of it: closed form below)
             hints=(_STEPS + [_STEP_ONE, _STEP_ONE_B]) if not wrap else _STEPS,
             ensures={**_closed_form(wrap), **(_reduces(wrap) if not wrap else {})},
             min_obligations=4, replay=_REPLAY_NESTED)
