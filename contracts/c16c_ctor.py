"""draft"""
from pyvc.contract import contract, field_type
from contracts import c16_controller  # noqa

Q = 'biogeme.controller.'
_N = 'self.specification_names'
_P = 'specification_names'
BAD_NAME = (f"';' in controller_name or ':' in controller_name or "
            f"exists(lambda q: ';' in {_P}[q] or ':' in {_P}[q], 0, len({_P}))")
DUP = f"exists(lambda a: exists(lambda b: a < b and {_P}[a] == {_P}[b], 0, len({_P})), 0, len({_P}))"
contract(Q + 'Controller.__init__', 'C16',
         types={'controller_name': 'str', 'specification_names': 'list[str]'},
         modifies=['self.controller_name', 'self.specification_names', 'self.current_index', 'self.dict_of_index',
                   'self.controlled_catalogs'],
         raises={'BiogemeError': f'{BAD_NAME} or {DUP}'},
         ensures={
             'name_kept': 'self.controller_name == controller_name',
             'same_length': f'len({_N}) == len({_P})',
             'names_in_order': f'forall(lambda q: {_N}[q] == {_P}[q], 0, len({_P}))',
             'index_zero': 'self.current_index == 0',
             'no_catalogs': 'len(self.controlled_catalogs) == 0',
             'index_table': f'forall(lambda q: old({_P}[q]) in self.dict_of_index and self.dict_of_index[old({_P}[q])] == q, 0, old(len({_P})))',
             'index_table_domain': f"forall(lambda k: implies(k in self.dict_of_index, exists(lambda q: old({_P}[q]) == k, 0, old(len({_P})))), ty='str')",
         },
         invariants={1: {'clauses': {
             'clean_so_far': f"implies(_k >= 1, not (';' in controller_name or ':' in controller_name)) and "
                             f"forall(lambda q: not (';' in old({_P}[q]) or ':' in old({_P}[q])), 0, _k - 1)",
         }}},
         )

contract('biogeme.catalog.Catalog.__init__', 'C16',
         types={'catalog_name': 'str', 'named_expressions': 'list[biogeme.expressions.multiple_expressions.NamedExpression]',
                'controlled_by': 'biogeme.controller.Controller | None'},
         check_frame=False,
         may_raise=['BiogemeError'],
         ensures={'n': 'len(self.named_expressions) == len(named_expressions)'})
