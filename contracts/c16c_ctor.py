"""C16, round 2 (tag c16c): the CONSTRUCTORS of the controller / catalog layer under contract.

Controller.__init__    names kept in order, index 0, index table; BiogemeError IFF a name holds ; or : or two
                       specification names are equal
Catalog.__init__       members kept in order; without controller a fresh one named like the catalog with the member
                       names in order; with a controller: that object, and BiogemeError IFF its specification names
                       differ from the member names AS SEQUENCES (same length, same name at every position) -- so the
                       clause `controller_names_are_member_names_in_order` holds for every catalog ever built, which
                       is what makes Catalog.selected (member at the controller's index, round 1) the member NAMED
                       like the controller's choice
Catalog.from_dict      the same, members in the order of the dict

Assumed (verify=False): validate_and_convert returns an Expression argument unchanged; Expression.contains_catalog is
a pure function of the tree.  Inputs are typed as annotated (requires typed_*).
"""
from pyvc.contract import contract, field_type
from contracts import c16_controller  # noqa
import ast

from pyvc.libext import c16c_ext
from pyvc.repo import get_repo

c16c_ext.install()
c16c_ext.INLINE_SUPER_INIT.add('biogeme.expressions.multiple_expressions.MultipleExpression.__init__')


def _replay(fam: str) -> str:
    return f"""
import sys
sys.path.insert(0, '/verif/bounded')
import c16c_ctor_native as N
n, bad = N.FAMILIES[{fam!r}]()
violated = bool(bad)
detail = f'{{n}} cases; first mismatch: {{bad[0] if bad else None}}'
"""


def _own_fields(*quals: str) -> list[str]:
    """`self.<field>` for every attribute of self assigned in the named constructors (real AST): the frame of a
    constructor is exactly the fields the constructor chain initialises."""
    out = []
    for q in quals:
        fi = get_repo().function(q)
        for n in ast.walk(fi.node):
            if isinstance(n, ast.Attribute) and isinstance(n.ctx, ast.Store) and isinstance(n.value, ast.Name) \
                    and n.value.id == 'self' and f'self.{n.attr}' not in out:
                out.append(f'self.{n.attr}')
    return out

Q = 'biogeme.controller.'
_N = 'self.specification_names'
_P = 'specification_names'
BAD_NAME = (f"';' in controller_name or ':' in controller_name or "
            f"exists(lambda q: ';' in {_P}[q] or ':' in {_P}[q], 0, len({_P}))")
DUP = f"exists(lambda a: exists(lambda b: a < b and {_P}[a] == {_P}[b], 0, len({_P})), 0, len({_P}))"
contract(Q + 'Controller.__init__', 'C16',
         types={'controller_name': 'str', 'specification_names': 'list[str]'},
         modifies=['self.controller_name', 'self.specification_names', 'self.current_index', 'self.dict_of_index',
                   'self.controlled_catalogs'],
         raises={'BiogemeError': f'{BAD_NAME} or {DUP}'},
         ensures={
             'name_kept': 'self.controller_name == controller_name',
             'same_length': f'len({_N}) == len({_P})',
             'names_in_order': f'forall(lambda q: {_N}[q] == {_P}[q], 0, len({_P}))',
             'index_zero': 'self.current_index == 0',
             'no_catalogs': 'len(self.controlled_catalogs) == 0',
             'index_table': f'forall(lambda q: old({_P}[q]) in self.dict_of_index and self.dict_of_index[old({_P}[q])] == q, 0, old(len({_P})))',
             'index_table_domain': f"forall(lambda k: implies(k in self.dict_of_index, exists(lambda q: old({_P}[q]) == k, 0, old(len({_P})))), ty='str')",
         },
         invariants={1: {'clauses': {
             'clean_so_far': f"implies(_k >= 1, not (';' in controller_name or ':' in controller_name)) and "
                             f"forall(lambda q: not (';' in old({_P}[q]) or ':' in old({_P}[q])), 0, _k - 1)",
         }}},
         replay=_replay('controller_ctor'))

contract('biogeme.expressions.base_expressions.Expression.contains_catalog', 'C16', verify=False, pure=True,
         types={'name': 'str'}, returns='bool', ensures={'any': 'True'})

# validate_and_convert(e): for an Expression argument the code returns the argument itself (the two numeric branches
# need isinstance against builtin number classes on an untyped value).  ASSUMED for Expression arguments.
# (contracts/c05c_nodes.py holds a C05 contract of the same function, with the same clause `identity_on_expressions`,
#  stated with C05 spec functions; one qualified name can carry one contract per process, so it is kept when present)
from pyvc.contract import REGISTRY as _REG     # noqa: E402

_VAC = 'biogeme.expressions.convert.validate_and_convert'
if _REG.get(_VAC) is None:
    contract(_VAC, 'C16', verify=False, pure=True,
             types={'expression': 'biogeme.expressions.base_expressions.Expression'},
             returns='biogeme.expressions.base_expressions.Expression',
             ensures={'identity_on_expressions': 'result is expression'})

field_type('Expression', 'children', 'list[biogeme.expressions.base_expressions.Expression]')
field_type('NamedExpression', 'name', 'str')
field_type('NamedExpression', 'expression', 'biogeme.expressions.base_expressions.Expression')
field_type('MultipleExpression', 'name', 'str')

_M = 'named_expressions'
_MN = f'old({_M}[q].name)'
_CN = 'controlled_by.specification_names'
SAME_NAMES = (f"len({_CN}) == len({_M}) and forall(lambda q: {_CN}[q] == {_M}[q].name, 0, len({_M}))")
CAT_RAISES = (
    "';' in catalog_name or ':' in catalog_name or len(named_expressions) == 0 or "
    f"exists(lambda q: {_M}[q].expression.contains_catalog(catalog_name), 0, len({_M})) or "
    f"(controlled_by is None and (exists(lambda q: ';' in {_M}[q].name or ':' in {_M}[q].name, 0, len({_M})) or "
    f"exists(lambda a: exists(lambda b: a < b and {_M}[a].name == {_M}[b].name, 0, len({_M})), 0, len({_M})))) or "
    f"(controlled_by is not None and not ({SAME_NAMES}))")
_SN = 'self.named_expressions'
_SC = 'self.controlled_by'
contract('biogeme.catalog.Catalog.__init__', 'C16',
         types={'catalog_name': 'str', 'named_expressions': 'list[biogeme.expressions.multiple_expressions.NamedExpression]',
                'controlled_by': 'biogeme.controller.Controller | None'},
         # typing of the inputs (annotations of the real signature) and the representation fact len >= 0
         requires={'wf_list': 'len(named_expressions) >= 0',
                   'typed_controller': 'controlled_by is None or isinstance(controlled_by, Controller)',
                   'typed_members': f"forall(lambda q: has_class({_M}[q], 'NamedExpression'), 0, len({_M}))"},
         modifies=_own_fields('biogeme.expressions.base_expressions.Expression.__init__',
                              'biogeme.expressions.multiple_expressions.MultipleExpression.__init__',
                              'biogeme.catalog.Catalog.__init__'),
         raises={'BiogemeError': CAT_RAISES},
         ensures={
             'name': 'self.name == catalog_name',
             'members_count': f'len({_SN}) == old(len({_M}))',
             'members_names_in_order': f'forall(lambda q: {_SN}[q].name == {_MN}, 0, old(len({_M})))',
             'members_expressions_in_order': f'forall(lambda q: {_SN}[q].expression is old({_M}[q].expression), 0, old(len({_M})))',
             'fresh_controller': f"implies(controlled_by is None, {_SC}.controller_name == catalog_name and "
                                 f"{_SC}.current_index == 0 and len({_SC}.controlled_catalogs) == 0)",
             'shared_controller': f"implies(controlled_by is not None, {_SC} is controlled_by)",
             # the clause the property rests on: position q of the controller is the member NAMED like it
             'controller_names_are_member_names_in_order':
                 f'len({_SC}.specification_names) == len({_SN}) and '
                 f'forall(lambda q: {_SC}.specification_names[q] == {_SN}[q].name, 0, len({_SN}))',
             'children_are_the_members': f'len(self.children) == old(len({_M})) and '
                                         f'forall(lambda q: self.children[q] is old({_M}[q].expression), 0, old(len({_M})))',
             'no_central_controller_yet': 'self.central_controller is None',
         },
         invariants={1: {'clauses': {
             'appended': 'len(self.children) == _k',
             'in_order': f'forall(lambda q: self.children[q] is old({_M}[q].expression), 0, _k)',
         }}},
         replay=_replay('catalog_ctor'))


# ---------------------------------------------------------------------------------------------------------------
# Catalog.from_dict: the members are the items of the dict IN THE ORDER OF THE DICT
# ---------------------------------------------------------------------------------------------------------------
_D = 'dict_of_expressions'
_K = f'keys_of({_D})'
_R = 'result'
FD_SAME_NAMES = f"len({_CN}) == len({_D}) and forall(lambda q: {_CN}[q] == {_K}[q], 0, len({_D}))"
FD_RAISES = (
    "';' in catalog_name or ':' in catalog_name or len(dict_of_expressions) == 0 or "
    f"exists(lambda q: {_D}[{_K}[q]].contains_catalog(catalog_name), 0, len({_D})) or "
    f"(controlled_by is None and exists(lambda q: ';' in {_K}[q] or ':' in {_K}[q], 0, len({_D}))) or "
    f"(controlled_by is not None and not ({FD_SAME_NAMES}))")
contract('biogeme.catalog.Catalog.from_dict', 'C16',
         types={'catalog_name': 'str', 'dict_of_expressions': 'dict[str, biogeme.expressions.base_expressions.Expression]',
                'controlled_by': 'biogeme.controller.Controller | None'},
         returns='biogeme.catalog.Catalog',
         requires={'typed_controller': 'controlled_by is None or isinstance(controlled_by, Controller)'},
         modifies=[],
         raises={'BiogemeError': FD_RAISES},
         ensures={
             'name': f'{_R}.name == catalog_name',
             'members_count': f'len({_R}.named_expressions) == len({_D})',
             'members_names_in_dict_order': f'forall(lambda q: {_R}.named_expressions[q].name == {_K}[q], 0, len({_D}))',
             'members_expressions_in_dict_order':
                 f'forall(lambda q: {_R}.named_expressions[q].expression is {_D}[{_K}[q]], 0, len({_D}))',
             'shared_controller': f'implies(controlled_by is not None, {_R}.controlled_by is controlled_by)',
             'fresh_controller': f"implies(controlled_by is None, {_R}.controlled_by.controller_name == catalog_name and "
                                 f"{_R}.controlled_by.current_index == 0)",
             'controller_names_are_member_names_in_order':
                 f'len({_R}.controlled_by.specification_names) == len({_R}.named_expressions) and '
                 f'forall(lambda q: {_R}.controlled_by.specification_names[q] == {_R}.named_expressions[q].name, '
                 f'0, len({_R}.named_expressions))',
         },
         replay=_replay('from_dict'))
