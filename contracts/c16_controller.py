"""Contracts for biogeme.controller / biogeme.catalog / MultipleExpression.__init__ (C16).

Vocabulary
  C_WF(c)   controller invariant: at least one specification, current_index in range (established by
            Controller.__init__ / Catalog.__init__, which reject empty lists; exercised natively in
            bounded/c16_native.py)
  NOCAT(c)  `c.controlled_catalogs` is empty.  It is initialised to [] and no statement of the package
            ever adds to it (static obligation C16:static:Controller.controlled_catalogs:never-filled), so the loop of
            set_index is vacuous and catalogs follow their controller only through
            `Catalog.selected` reading `controlled_by.current_index` (contract below).
  CC_WF(cc) central-controller invariant: every value of `dict_of_controllers` satisfies C_WF and NOCAT and is
            stored under its own name (so different keys give different controllers).  The tuple `controllers`
            holds exactly those controllers (CentralController.__init__ builds both from the same sorted set;
            exercised natively), so closure is stated over the registered controllers.
"""
from pyvc.contract import contract, field_type
from pyvc.libext import c16_modconst

c16_modconst.install()

Q = 'biogeme.controller.'
CTRL = 'biogeme.controller.Controller'

field_type('Controller', 'controller_name', 'str')
field_type('Controller', 'specification_names', 'list[str]')
field_type('Controller', 'dict_of_index', 'dict[str, int]')
field_type('Controller', 'controlled_catalogs', 'list[biogeme.catalog.Catalog]')
field_type('Controller', 'current_index', 'int')
field_type('CentralController', 'controllers', 'list[biogeme.controller.Controller]')
field_type('CentralController', 'dict_of_controllers', 'dict[str, biogeme.controller.Controller]')
field_type('Catalog', 'controlled_by', 'biogeme.controller.Controller')
field_type('Catalog', 'named_expressions', 'list[biogeme.expressions.multiple_expressions.NamedExpression]')


def in_range(c: str) -> str:
    return f'0 <= {c}.current_index < len({c}.specification_names)'


# every *other* controller keeps its index (needs NOCAT: the field name current_index is shared with catalogs)
OTHERS = ("implies(len(self.controlled_catalogs) == 0, forall(lambda o: implies(o is not self, "
          f"o.current_index == old(o.current_index)), ty='{CTRL}'))")

_REPLAY_CTRL = """
# random walks on one controller (real code): range check, circular / clamped arithmetic, inc-dec inverse
import sys
sys.path.insert(0, '/verif/bounded')
import c16_native
n, bad = c16_native.controller_cases(seed=integer(m.get('step'), 0) % 97)
violated = bool(bad)
detail = f'{n} controller cases; first mismatch: {bad[0] if bad else None}'
"""

contract(Q + 'Controller.controller_size', 'C16',
         ensures={'len': 'result == len(self.specification_names)'}, replay=_REPLAY_CTRL)

contract(Q + 'Controller.current_name', 'C16',
         requires={'cur_in_range': in_range('self')},
         ensures={'name': 'result == self.specification_names[self.current_index]'}, replay=_REPLAY_CTRL)

contract(Q + 'Controller.set_index', 'C16',
         types={'index': 'int'},
         modifies=['*.current_index'],
         raises={'BiogemeError': 'index < 0 or index >= len(self.specification_names)'},
         ensures={
             'index': 'self.current_index == index',
             'in_range': in_range('self'),
             'catalogs_follow': 'forall(lambda q: self.controlled_catalogs[q].current_index == index, '
                                '0, len(self.controlled_catalogs))',
             'others_unchanged': OTHERS,
         },
         invariants={1: {'clauses': {
             'done': 'forall(lambda q: self.controlled_catalogs[q].current_index == index, 0, _k)',
             'own': 'self.current_index == index',
             'others': OTHERS,
         }}},
         replay=_REPLAY_CTRL)

contract(Q + 'Controller.set_name', 'C16',
         types={'name': 'str'},
         modifies=['*.current_index'],
         # unknown name, or a name whose table entry is out of range (then set_index refuses it)
         raises={'BiogemeError': 'name not in self.dict_of_index or self.dict_of_index[name] < 0 or '
                                 'self.dict_of_index[name] >= len(self.specification_names)'},
         ensures={
             'index': 'self.current_index == self.dict_of_index[name]',
             'in_range': in_range('self'),
             'others_unchanged': OTHERS,
         },
         replay=_REPLAY_CTRL)

contract(Q + 'Controller.modify_controller', 'C16',
         types={'step': 'int', 'circular': 'bool'},
         requires={'nonempty': 'len(self.specification_names) >= 1'},      # the index itself may be anything: the result is in range
         modifies=['*.current_index'],
         ensures={
             'closure': in_range('self'),
             # circ(c, s, n) := (c + s) mod n  (specs/c16_circ.py; transparent here, opaque at call sites)
             'circular_mod': 'implies(circular, self.current_index == circ(old(self.current_index), step, len(self.specification_names)))',
             'circular_result': 'implies(circular, result == step)',
             'clamped': 'implies(not circular, self.current_index == '
                        'ite(old(self.current_index) + step < 0, 0, '
                        'ite(old(self.current_index) + step >= len(self.specification_names), '
                        'len(self.specification_names) - 1, old(self.current_index) + step)))',
             'clamped_result': 'implies(not circular, abs(result) == abs(self.current_index - old(self.current_index)))',
             'catalogs_follow': 'forall(lambda q: self.controlled_catalogs[q].current_index == self.current_index, '
                                '0, len(self.controlled_catalogs))',
             'others_unchanged': OTHERS,
         },
         replay=_REPLAY_CTRL)

# ---------------------------------------------------------------------------------------------
# Catalog: the selected member is the one at the controller's index, so all catalogs governed by
# the same controller object move together
# ---------------------------------------------------------------------------------------------
_REPLAY_CAT = """
import sys
sys.path.insert(0, '/verif/bounded')
import c16_native
n, bad = c16_native.structure_cases(seed=0, limit=6)
violated = bool(bad)
detail = f'{n} structure cases; first mismatch: {bad[0] if bad else None}'
"""
contract('biogeme.catalog.Catalog.selected', 'C16',
         requires={'idx': '0 <= self.controlled_by.current_index < len(self.named_expressions)'},
         ensures={'matching_alternative': 'result is self.named_expressions[self.controlled_by.current_index]'},
         replay=_REPLAY_CAT)
contract('biogeme.catalog.Catalog.selected_name', 'C16',
         requires={'idx': '0 <= self.controlled_by.current_index < len(self.named_expressions)'},
         ensures={'matching_name': 'result == self.named_expressions[self.controlled_by.current_index].name'},
         replay=_REPLAY_CAT)

# names of multiple expressions cannot contain the separators of the identifier string
field_type('Expression', 'children', 'list[biogeme.expressions.base_expressions.Expression]')   # (same declaration as c16c_ctor.py)
contract('biogeme.expressions.multiple_expressions.MultipleExpression.__init__', 'C16',
         types={'name': 'str'}, check_frame=False,
         raises={'BiogemeError': "';' in name or ':' in name"},
         ensures={'name': 'self.name == name',
                  # m3 (mutation review): the Expression part of the object is initialised (super().__init__()): an empty list of
                  # children and no central controller / id manager yet -- what Catalog.__init__ and the iteration rely on
                  'children_initialised': 'len(self.children) == 0',
                  'no_central_controller_yet': 'self.central_controller is None',
                  'no_id_manager_yet': 'self.id_manager is None'},
         replay="""
from biogeme.catalog import Catalog
from biogeme.expressions import Numeric, NamedExpression
from biogeme.exceptions import BiogemeError
violated = False
for bad in ('a;b', 'a:b', ';', ':', 'x;y:z'):
    try:
        Catalog(bad, [NamedExpression('one', Numeric(1))])
    except BiogemeError:
        continue
    violated = True
    detail = f'catalog name {bad!r} accepted'
    break
if not violated:
    c = Catalog('fine-name_1', [NamedExpression('one', Numeric(1))])
    violated = c.name != 'fine-name_1'
    detail = 'name not stored'
""")

# ---------------------------------------------------------------------------------------------
# CentralController
# ---------------------------------------------------------------------------------------------
_D = 'self.dict_of_controllers'
# NOTE-VACUITY: the engine checks that `requires` is satisfiable by asking z3 for a model; with a quantified
# invariant (plus the quantified type facts of the fields it mentions) z3 answers `unknown` erratically.  The
# quantified invariant CC_WF of the entry state is therefore the HYPOTHESIS of each conclusion
# (`implies(old(CC_WF), ...)`, same logical content as a precondition since no callee precondition depends on
# it), and `requires` only holds quantifier-free facts.  That real constructors establish CC_WF is exercised
# natively: bounded/c16_native.py invariant_cases evaluates it on every generated structure.
CC_WF = (f"old(forall(lambda k: implies(k in {_D}, len({_D}[k].specification_names) >= 1 and "
         f"0 <= {_D}[k].current_index < len({_D}[k].specification_names) and "
         f"len({_D}[k].controlled_catalogs) == 0 and {_D}[k].controller_name == k), ty='str'))")
CLOSURE = (f"forall(lambda k: implies(k in {_D}, 0 <= {_D}[k].current_index < len({_D}[k].specification_names)), ty='str')")


def under_inv(post: str) -> str:
    return f'implies({CC_WF}, {post})'


_REPLAY_OPS = """
# random operator sequences on generated catalog structures (real code)
import sys
sys.path.insert(0, '/verif/bounded')
import c16_native
n, bad = c16_native.operator_cases(seed=0, sequences=12, length=20)
violated = bool(bad)
detail = f'{n} operator applications; first mismatch: {bad[0] if bad else None}'
"""

contract(Q + 'CentralController.set_controller', 'C16',
         types={'controller_name': 'str', 'index': 'int'},
         modifies=['*.current_index'],
         raises={'BiogemeError': 'controller_name not in self.dict_of_controllers or index < 0 or '
                                 'index >= len(self.dict_of_controllers[controller_name].specification_names)'},
         ensures={'set': 'self.dict_of_controllers[controller_name].current_index == index',
                  'closure': under_inv(CLOSURE)},
         replay=_REPLAY_OPS)

_SEL = 'configuration.selections'
APPLIED = (f"forall(lambda q: {_D}[{_SEL}[q].controller].current_index == "
           f"{_D}[{_SEL}[q].controller].dict_of_index[{_SEL}[q].selection], 0, LIM)")
# A Configuration never lists a controller twice: class invariant of Configuration, assumed wherever
# `.selections` is read (pyvc/libext/c16_modconst.py) -- the only writer of the private list is the property
# setter, which calls __check_list_validity (contract in c16_configuration.py; static obligation
# C16:static:Configuration.selections:only-written-by-validating-sorting-setter).
_KNOWN = f"forall(lambda q: {_SEL}[q].controller in {_D}, 0, LIM)"

contract(Q + 'CentralController.set_configuration', 'C16',
         types={'configuration': 'biogeme.configuration.Configuration'},
         modifies=['*.current_index'],
         # m3 (mutation review): the refusal of an INCOMPLETE configuration (a controller of the tuple that the configuration does
         # not list; the `properly_set` bookkeeping) is not in this contract: the invariants that carry it are proved in 0.03 s
         # from the hypotheses about the local dictionary alone, but not among the 90 quantified hypotheses of the closure /
         # applied clauses (solvers: unknown).  It is decided by the bounded stand-in C16:bounded:operators-closure-arithmetic-
         # inverse (clause "incomplete configuration refused"), which kills the five surviving mutants of that bookkeeping.
         may_raise=['BiogemeError'],
         ensures={
             'closure': under_inv(CLOSURE),
             'known': _KNOWN.replace('LIM', f'len({_SEL})'),
             # every selection of the configuration is applied to the controller of that name
             'applied': under_inv(APPLIED.replace('LIM', f'len({_SEL})')),
         },
         invariants={1: {'clauses': {
             'closure': under_inv(CLOSURE),
             'known': _KNOWN.replace('LIM', '_k'),
             'applied': under_inv(APPLIED.replace('LIM', '_k')),
         }}},
         replay=_REPLAY_OPS)

# get_configuration builds a Configuration through a generator of SelectionTuple objects and the property
# setter of Configuration (sorted(), validity check, identifier): outside the engine's subset (objects created
# inside a comprehension).  ASSUMED contract, used only at call sites; its content -- the configuration lists,
# for every controller of the tuple, (controller_name, specification_names[current_index]) -- is exercised
# natively (bounded/c16_native.py: structure_cases / operator_cases).  It reads the controllers only.
contract(Q + 'CentralController.get_configuration', 'C16', verify=False,
         returns='biogeme.configuration.Configuration',
         ensures={'fresh_or_any': 'True'})


def _named(n: str) -> str:
    return f'{_D}[{n}]'


def _moved(n: str, delta: str) -> str:
    """The named controller ends at circ(index selected by current_config, delta, size) = (index + delta) mod size."""
    return (f"forall(lambda q: implies(current_config.selections[q].controller == {n}, "
            f"{_named(n)}.current_index == circ({_named(n)}.dict_of_index[current_config.selections[q].selection], {delta}, "
            f"len({_named(n)}.specification_names))), 0, len(current_config.selections))")


def _kept(cond: str) -> str:
    return (f"forall(lambda q: implies({cond}, "
            f"{_D}[current_config.selections[q].controller].current_index == "
            f"{_D}[current_config.selections[q].controller].dict_of_index[current_config.selections[q].selection]), "
            f"0, len(current_config.selections))")


def _nonempty(n: str) -> str:
    return f'implies({n} in {_D}, len({_named(n)}.specification_names) >= 1)'


for _name, _sign in (('increased_controller', 'step'), ('decreased_controller', '-step')):
    contract(Q + 'CentralController.' + _name, 'C16',
             types={'controller_name': 'str', 'current_config': 'biogeme.configuration.Configuration', 'step': 'int'},
             requires={'named_nonempty': _nonempty('controller_name')},
             modifies=['*.current_index'],
             may_raise=['BiogemeError'],
             ensures={
                 'closure': under_inv(CLOSURE),                          # every controller still points inside its list
                 'moved': under_inv(_moved('controller_name', _sign)),   # the named one moved by +/- step, circularly
                 # the others are where current_config puts them
                 'others_as_configured': under_inv(_kept('current_config.selections[q].controller != controller_name')),
                 'steps': 'result[1] == step',
             },
             replay=_REPLAY_OPS)

# two_controllers: compass directions; the first controller moves E(+)/W(-), the second N(+)/S(-)
contract(Q + 'CentralController.two_controllers', 'C16',
         types={'first_controller_name': 'str', 'second_controller_name': 'str', 'direction': 'str',
                'current_config': 'biogeme.configuration.Configuration', 'step': 'int'},
         requires={'first_nonempty': _nonempty('first_controller_name'),
                   'second_nonempty': _nonempty('second_controller_name')},
         modifies=['*.current_index'],
         may_raise=['BiogemeError'],
         ensures={
             # m3 (mutation review): a direction outside the compass rose is refused (a normal return means a valid direction)
             'valid_direction': "direction == 'NE' or direction == 'NW' or direction == 'SE' or direction == 'SW'",
             'closure': under_inv(CLOSURE),
             # compass: the first controller moves E(+step) / W(-step), the second N(+step) / S(-step)
             'first_moved': under_inv(f"implies(first_controller_name != second_controller_name, "
                                      + _moved('first_controller_name', "ite(direction[1] == 'E', step, -step)") + ")"),
             'second_moved': under_inv(f"implies(first_controller_name != second_controller_name, "
                                       + _moved('second_controller_name', "ite(direction[0] == 'N', step, -step)") + ")"),
             'others_as_configured': under_inv(_kept('current_config.selections[q].controller != first_controller_name and '
                                                     'current_config.selections[q].controller != second_controller_name')),
             'steps': 'result[1] == step',
         },
         replay=_REPLAY_OPS)

# modify_random_controllers: random.choices over list(dict.keys()) -- the engine does not relate the key list of a
# dict stored in a field to its domain, so closure of this operator is a bounded native check (operator_cases).
