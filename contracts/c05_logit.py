"""Contract for the log-logit kernel biogeme.expressions.logit_expressions.LogLogit.get_value (C05)."""
from pyvc.contract import contract, field_type
from pyvc.libext import c05_loginf

c05_loginf.ENABLED = True      # LIBSPEC fact numpy.log(0) == -numpy.inf (listed as an assumption)

E = 'biogeme.expressions.'

field_type('LogLogit', 'util', 'dict[int, Expression]')
field_type('LogLogit', 'av', 'dict[int, Expression]')
field_type('LogLogit', 'choice', 'Expression')

# value of an operand: uninterpreted pure function of the operand (abstract contract of the virtual method)
contract(E + 'base_expressions.Expression.get_value', 'C05', pure=True, verify=False, returns='float', exact_self=False)

_KEY = 'list(self.util)[q]'
_TERM = (f"ite(self.av[{_KEY}].get_value() != 0.0, "
         f"app('numpy.exp', self.util[{_KEY}].get_value() - self.util[int(self.choice.get_value())].get_value()), 0.0)")
_SUM = f"sum_range(lambda q: {_TERM}, 0, LIM)"

contract(E + 'logit_expressions.LogLogit.get_value', 'C05', exact_self=False,
         requires={'same_alternatives': 'forall(lambda q: list(self.util)[q] in self.av, 0, len(self.util))'},
         raises={'BiogemeError': 'not (int(self.choice.get_value()) in self.util) or not (int(self.choice.get_value()) in self.av)'},
         ensures={
             'unavailable_choice': "implies(self.av[int(self.choice.get_value())].get_value() == 0.0, result == -np.inf)",
             'kernel': "implies(self.av[int(self.choice.get_value())].get_value() != 0.0, "
                       f"result == -app('numpy.log', {_SUM.replace('LIM', 'len(self.util)')}))",
         },
         invariants={1: {'clauses': {'denom': f"denom == {_SUM.replace('LIM', '_k')}"}}},
         replay='''
# log-logit kernel on the real Python evaluator: candidates from the counter-model (availability of the chosen
# alternative 0) and fixed ones; reference = V_c - log(sum over available alternatives of exp(V_j)), -inf when unavailable
import logging, math, warnings
logging.disable(logging.CRITICAL); warnings.filterwarnings('ignore')
from biogeme.expressions import Numeric
from biogeme.expressions.logit_expressions import LogLogit, _bioLogLogit
cands = [({1: 0.3, 3: -0.2}, {1: 1.0, 3: 0.0}, 3), ({1: 0.3, 3: -0.2}, {1: 1.0, 3: 0.0}, 1),
         ({1: 0.5, 2: 1.5, 4: -2.0}, {1: 1.0, 2: 2.0, 4: 0.0}, 2), ({1: 300.0, 2: -300.0}, {1: 1.0, 2: 1.0}, 2)]
violated = False
for V, av, ch in cands:
    for cls in (LogLogit, _bioLogLogit):
        got = cls({k: Numeric(v) for k, v in V.items()}, {k: Numeric(v) for k, v in av.items()}, Numeric(ch)).get_value()
        if av[ch] == 0:
            want = float('-inf')
        else:
            want = -math.log(sum(math.exp(V[j] - V[ch]) for j in V if av[j] != 0))
        if not (got == want or (math.isfinite(got) and math.isfinite(want) and abs(got - want) <= 1e-12 * max(1.0, abs(want)))):
            violated = True
            detail = f'{cls.__name__}(V={V}, av={av}, choice={ch}).get_value() = {got!r}, kernel specification gives {want!r}'
            break
    if violated:
        break
''')
