"""C03 (round 2, tag c03c): every place where a parameter NAME becomes a POSITION, or a value is stored / read
by position, in biogeme.py and results.py."""
from pyvc.contract import contract, field_type
from contracts import c03c_replays as RP

BG = 'biogeme.biogeme.BIOGEME'
EX = 'biogeme.expressions.base_expressions.Expression'

field_type('BIOGEME', 'log_like', 'Expression | None')
field_type('BIOGEME', 'weight', 'Expression | None')
field_type('BIOGEME', 'formulas', 'dict[str, Expression]')
field_type('BIOGEME', 'id_manager', 'IdManager')
field_type('IdManager', 'free_betas_values', 'list[float]')
field_type('Expression', 'children', 'list[Expression]')

# induction hypothesis of the virtual descent (the leaf Beta.change_init_values is proved in c03_byname)
contract(EX + '.change_init_values', 'C03', verify=False, types={'betas': 'dict[str, float]'},
         modifies=['*.initValue'], ensures={'t': 'True', 'told': 'c03m4_told(self, betas)'},
         label='Expression.change_init_values(abstract)',
         note='abstract contract of the virtual descent: touches only the initial value of Beta objects; round 3 (m4): leaves the EVENT '
              'c03m4_told(formula, dictionary) (uninterpreted; only a call can establish it), so that the callers can be obliged to run the descent')

# round 3 (m4): the inductive step of the descent - the inherited body, verified for a receiver class that overrides neither
# change_init_values nor get_children (only Beta and MultipleExpression override; the key ...@BinaryOperator keeps calls on receivers of
# static class Expression on the abstract contract above): every child is shown the dictionary.
contract(EX + '.change_init_values', 'C03', self_class='BinaryOperator', label='Expression.change_init_values(body)',
         types={'betas': 'dict[str, float]'}, modifies=['*.initValue'],
         ensures={'every_child_is_shown_the_dictionary': 'forall(lambda q: c03m4_told(self.children[q], betas), 0, len(self.children))'},
         invariants={1: {'clauses': {'shown_so_far': 'forall(lambda q: c03m4_told(self.children[q], betas), 0, _k)'}}})

_NAMES = 'self.id_manager.free_betas.names'
_VALS = 'self.id_manager.free_betas_values'

contract(BG + '.change_init_values', 'C03', replay=RP.CHANGE_INIT,
         types={'betas': 'dict[str, float]'},
         requires={'one_value_per_name': f'len({_VALS}) == len({_NAMES})',
                   'distinct_lists': f'{_VALS} is not {_NAMES}'},
         modifies=['*.initValue', '*.$elems'],
         ensures={
             'length_kept': f'len({_VALS}) == old(len({_VALS}))',
             'named_position_gets_the_value_of_its_name':
                 f'forall(lambda q: implies({_NAMES}[q] in betas, {_VALS}[q] == betas[{_NAMES}[q]]), 0, len({_NAMES}))',
             'unnamed_position_unchanged':
                 f'forall(lambda q: implies({_NAMES}[q] not in betas, {_VALS}[q] == old({_VALS}[q])), 0, len({_NAMES}))',
             'names_unchanged': f'seq_eq({_NAMES}, old({_NAMES}))',
             'no_other_list_touched': f'c03c_only_list_changed(old({_VALS}))',
             # round 3 (m4): the dictionary reaches the Beta objects of EVERY formula of the model (must-call obligations on the descent)
             'log_likelihood_is_shown_the_dictionary': 'implies(self.log_like is not None, c03m4_told(self.log_like, betas))',
             'weight_is_shown_the_dictionary': 'implies(self.weight is not None, c03m4_told(self.weight, betas))',
             'every_formula_is_shown_the_dictionary':
                 'forall(lambda q: c03m4_told(self.formulas[keys_of(self.formulas)[q]], betas), 0, len(self.formulas))',
         },
         invariants={1: {'clauses': {'shown_so_far': 'forall(lambda q: c03m4_told(self.formulas[keys_of(self.formulas)[q]], betas), 0, _k)'}},
                     2: {'clauses': {
                         'done_named': f'forall(lambda q: implies({_NAMES}[q] in betas, {_VALS}[q] == betas[{_NAMES}[q]]), 0, _k)',
                         'done_unnamed': f'forall(lambda q: implies({_NAMES}[q] not in betas, {_VALS}[q] == old({_VALS}[q])), 0, _k)',
                         'todo': f'forall(lambda q: {_VALS}[q] == old({_VALS}[q]), _k, len({_NAMES}))',
                         'length': f'len({_VALS}) == old(len({_VALS}))',
                         'other_lists': f'c03c_only_list_changed(old({_VALS}))',
                     }}})

# ----------------------------------------------------------------------------------------------------------
# results.py: the estimates are paired with names and bounds
RS = 'biogeme.results.'
field_type('RawResults', 'betas', 'list[biogeme.results.Beta]')
field_type('RawResults', 'betaNames', 'list[str]')
field_type('RawResults', 'betaValues', 'list[float]')
field_type('biogeme.results.Beta', 'name', 'str')
field_type('biogeme.results.Beta', 'value', 'float')
field_type('bioResults', 'data', 'RawResults')

_MN = 'the_model.id_manager.free_betas.names'
contract(RS + 'RawResults.__init__', 'C03', replay=RP.RESULTS,
         types={'the_model': 'BIOGEME', 'beta_values': 'list[float]', 'f_g_h_b': 'Any', 'bootstrap': 'Any'},
         requires={'one_value_per_name': f'len(beta_values) == len({_MN})',
                   'bounds_len': f'len(the_model.id_manager.bounds) == len({_MN})',
                   'index_of_name': f'forall(lambda q: {_MN}[q] in the_model.id_manager.free_betas.indices and '
                                    f'the_model.id_manager.free_betas.indices[{_MN}[q]] == q, 0, len({_MN}))',
                   'indices_in_range': "forall(lambda x: implies(x in the_model.id_manager.free_betas.indices, "
                                       f"0 <= the_model.id_manager.free_betas.indices[x] < len({_MN})), ty='str')"},
         check_frame=False,
         ensures={
             'names_are_the_sorted_names': f'self.betaNames is {_MN}',
             'one_entry_per_parameter': f'len(self.betas) == len({_MN})',
             'entry_q_carries_name_q': f'forall(lambda q: self.betas[q].name == {_MN}[q], 0, len(self.betas))',
             'entry_q_carries_value_q': 'forall(lambda q: self.betas[q].value == beta_values[q], 0, len(self.betas))',
             'entry_q_carries_bounds_of_name_q': 'forall(lambda q: same(self.betas[q].lb, typed(the_model.id_manager.bounds[q], "tuple[Any, Any]")[0]) and '
                                                 'same(self.betas[q].ub, typed(the_model.id_manager.bounds[q], "tuple[Any, Any]")[1]), 0, len(self.betas))',
         },
         invariants={1: {'clauses': {
             'len': 'len(self.betas) == _k',
             'exist': 'forall(lambda q: c03c_allocated(self.betas[q]), 0, _k)',
             'name': f'forall(lambda q: self.betas[q].name == {_MN}[q], 0, _k)',
             'value': 'forall(lambda q: self.betas[q].value == beta_values[q], 0, _k)',
             'bounds': 'forall(lambda q: same(self.betas[q].lb, typed(the_model.id_manager.bounds[q], "tuple[Any, Any]")[0]) and '
                       'same(self.betas[q].ub, typed(the_model.id_manager.bounds[q], "tuple[Any, Any]")[1]), 0, _k)'}}})

_BN = 'self.data.betaNames'
contract(RS + 'bioResults.get_beta_values', 'C03', replay=RP.RESULTS,
         types={'my_betas': 'list[str] | None'}, returns='dict[str, float]',
         requires={'one_entry_per_name': f'len(self.data.betas) == len({_BN})',
                   'entry_q_carries_name_q': f'forall(lambda q: self.data.betas[q].name == {_BN}[q], 0, len({_BN}))',
                   'names_distinct': f'forall(lambda a: forall(lambda b: implies(a != b, {_BN}[a] != {_BN}[b]), 0, len({_BN})), 0, len({_BN}))'},
         modifies=[],
         raises={'ValueError': "my_betas is not None and exists(lambda q: not exists(lambda j: self.data.betaNames[j] == typed(my_betas, 'list[str]')[q], "
                               "0, len(self.data.betaNames)), 0, len(typed(my_betas, 'list[str]')))"},
         ensures={
             'all_names_when_none': f"implies(my_betas is None, forall(lambda q: {_BN}[q] in result, 0, len({_BN})))",
             'requested_names_reported': "implies(my_betas is not None, forall(lambda q: typed(my_betas, 'list[str]')[q] in result, 0, len(typed(my_betas, 'list[str]'))))",
             'value_of_the_entry_with_that_name': f"forall(lambda q: implies({_BN}[q] in result, result[{_BN}[q]] == self.data.betas[q].value), 0, len({_BN}))",
             'only_known_names': f"forall(lambda x: implies(x in result, exists(lambda q: {_BN}[q] == x, 0, len({_BN}))), ty='str')",
         },
         invariants={1: {'clauses': {
             'seen': "forall(lambda q: my_betas[q] in values, 0, _k)",
             'by_name': f"forall(lambda q: implies({_BN}[q] in values, values[{_BN}[q]] == self.data.betas[q].value), 0, len({_BN}))",
             'known': f"forall(lambda x: implies(x in values, exists(lambda q: {_BN}[q] == x, 0, len({_BN}))), ty='str')"}}})

# ----------------------------------------------------------------------------------------------------------
# the names reported by the estimation object are the sorted names of the id manager (same object: no copy that could be re-ordered)
contract(BG + '.free_beta_names', 'C03', replay=RP.RESULTS, modifies=[], returns='list[str]',
         ensures={'the_sorted_names': 'result is self.id_manager.free_betas.names'})
contract(BG + '.number_unknown_parameters', 'C03', modifies=[],
         ensures={'count_of_names': 'result == len(self.id_manager.free_betas.names)'})

# ----------------------------------------------------------------------------------------------------------
# restart from the saved-iteration file: the values read from the file are assigned BY NAME
_F = 'self._save_iterations_file_name()'
_L = f'c03c_file_lines({_F})'
_HAS = f'exists(lambda j: c03c_line_name({_L}[j]) == {_NAMES}[q], 0, len({_L}))'
contract(BG + '._load_saved_iteration', 'C03', replay=RP.LOAD_ITER,
         requires={'one_value_per_name': f'len({_VALS}) == len({_NAMES})',
                   'distinct_lists': f'{_VALS} is not {_NAMES}'},
         modifies=['*.initValue', '*.$elems'], may_raise=['ValueError'],
         ensures={
             'length_kept': f'len({_VALS}) == old(len({_VALS}))',
             'names_unchanged': f'seq_eq({_NAMES}, old({_NAMES}))',
             'no_other_list_touched': f'c03c_only_list_changed(old({_VALS}))',
             'unreadable_file_changes_nothing': f'implies(not c03c_file_readable({_F}), forall(lambda q: {_VALS}[q] == old({_VALS}[q]), 0, len({_NAMES})))',
             'parameter_gets_the_value_of_a_line_carrying_its_name':
                 f'implies(c03c_file_readable({_F}), forall(lambda q: implies({_HAS}, exists(lambda j: c03c_line_name({_L}[j]) == {_NAMES}[q] '
                 f'and {_VALS}[q] == c03c_line_value({_L}[j]), 0, len({_L}))), 0, len({_NAMES})))',
             'parameter_absent_from_the_file_unchanged':
                 f'implies(c03c_file_readable({_F}), forall(lambda q: implies(not {_HAS}, {_VALS}[q] == old({_VALS}[q])), 0, len({_NAMES})))',
         },
         invariants={1: {'clauses': {
             'keys_are_the_names_read': f"forall(lambda x: (x in betas) == exists(lambda j: c03c_line_name({_L}[j]) == x, 0, _k), ty='str')",
             'value_of_a_line_with_that_name': f"forall(lambda x: implies(x in betas, exists(lambda j: c03c_line_name({_L}[j]) == x and "
                                               f"betas[x] == c03c_line_value({_L}[j]), 0, _k)), ty='str')"}}})
