"""C03: parameters are identified by name (contracts on the by-name plumbing)."""
from pyvc.contract import contract, field_type

BE = 'biogeme.expressions.beta_parameters.Beta'
BG = 'biogeme.biogeme.BIOGEME'

field_type('biogeme.expressions.beta_parameters.Beta', 'initValue', 'float')
field_type('biogeme.expressions.beta_parameters.Beta', 'status', 'int')
field_type('biogeme.expressions.beta_parameters.Beta', 'betaId', 'int | None')
field_type('Elementary', 'name', 'str')
field_type('Elementary', 'elementaryIndex', 'int | None')
field_type('Expression', 'id_manager', 'IdManager | None')
field_type('IdManager', 'free_betas', 'ElementsTuple')
field_type('IdManager', 'fixed_betas', 'ElementsTuple')
field_type('IdManager', 'elementary_expressions', 'ElementsTuple')
field_type('IdManager', 'bounds', 'list[Any]')
field_type('ElementsTuple', 'names', 'list[str]')
field_type('ElementsTuple', 'indices', 'dict[str, int]')
field_type('ElementsTuple', 'expressions', 'dict[str, Any] | None')
field_type('BIOGEME', 'id_manager', 'IdManager')

# K3: the Beta picks its indices from the tables of its own name and status
contract(BE + '.set_id_manager', ['C03', 'C01'],
         types={'id_manager': 'IdManager | None'},
         requires={'known': "implies(id_manager is not None, self.name in id_manager.elementary_expressions.indices and "
                            "ite(self.status != 0, self.name in id_manager.fixed_betas.indices, self.name in id_manager.free_betas.indices))"},
         modifies=['self.id_manager', 'self.elementaryIndex', 'self.betaId'],
         ensures={
             'stored': 'same(self.id_manager, id_manager)',
             'cleared': 'implies(id_manager is None, self.elementaryIndex is None and self.betaId is None)',
             'unique_index_by_name': 'implies(id_manager is not None, same(self.elementaryIndex, id_manager.elementary_expressions.indices[self.name]))',
             'beta_index_by_name_and_status': "implies(id_manager is not None, same(self.betaId, ite(self.status != 0, "
                                              "id_manager.fixed_betas.indices[self.name], id_manager.free_betas.indices[self.name])))",
         },
         replay="""
import warnings; warnings.simplefilter('ignore')
from biogeme.expressions import Beta
free, fixed = Beta('b_free', 0.1, None, None, 0), Beta('a_fixed', 0.2, None, None, 1)
expr = fixed + free
expr.prepare(None, 0) if hasattr(expr, 'prepare') else None
im = expr.id_manager
violated = not (free.betaId == im.free_betas.indices['b_free'] and fixed.betaId == im.fixed_betas.indices['a_fixed']
                and free.elementaryIndex == im.elementary_expressions.indices['b_free']
                and fixed.elementaryIndex == im.elementary_expressions.indices['a_fixed'])
detail = f'free: betaId={free.betaId} elem={free.elementaryIndex}; fixed: betaId={fixed.betaId} elem={fixed.elementaryIndex}; tables {im.free_betas.indices} {im.fixed_betas.indices} {im.elementary_expressions.indices}'
""")

# K6: a name->value dictionary overrides only the parameter it names
contract(BE + '.change_init_values', 'C03',
         types={'betas': 'dict[str, float]'},
         modifies=['self.initValue'],
         ensures={'by_name': 'self.initValue == ite(self.name in betas, betas[self.name], old(self.initValue))'},
         replay="""
import warnings; warnings.simplefilter('ignore')
from biogeme.expressions import Beta
b = Beta('b', 0.5, None, None, 0)
b.change_init_values({'a': 7.0, 'c': 9.0}); v1 = b.initValue
b.change_init_values({'a': 7.0, 'b': 3.0}); v2 = b.initValue
violated = not (v1 == 0.5 and v2 == 3.0)
detail = f'after a dict without the name: {v1}; after b=3.0: {v2}'
""")

contract(BE + '.fix_betas', 'C03',
         types={'beta_values': 'dict[str, float]', 'prefix': 'str | None', 'suffix': 'str | None'},
         modifies=['self.initValue', 'self.status', 'self.name'],
         ensures={'named_is_fixed_at_value': 'implies(old(self.name) in beta_values, self.initValue == beta_values[old(self.name)] and self.status == 1)',
                  'others_untouched': 'implies(old(self.name) not in beta_values, self.initValue == old(self.initValue) and '
                                      'self.status == old(self.status) and self.name == old(self.name))',
                  # round 3 (m4): the new NAME of a fixed parameter (the by-name matching of later calls depends on it):
                  # prefix + old name + suffix, each part only when given
                  'name_kept_without_prefix_and_suffix':
                      'implies(old(self.name) in beta_values and prefix is None and suffix is None, self.name == old(self.name))',
                  'name_prefixed':
                      "implies(old(self.name) in beta_values and prefix is not None and suffix is None, "
                      "same(self.name, f'{prefix}{old(self.name)}'))",
                  'name_suffixed':
                      "implies(old(self.name) in beta_values and prefix is None and suffix is not None, "
                      "same(self.name, f'{old(self.name)}{suffix}'))",
                  'name_prefixed_then_suffixed':
                      "implies(old(self.name) in beta_values and prefix is not None and suffix is not None, "
                      "same(self.name, f'{c03m4_pref}{suffix}'))".replace('c03m4_pref', 'f"{prefix}{old(self.name)}"')},
         replay="""
import warnings; warnings.simplefilter('ignore')
from biogeme.expressions import Beta
bad = []
for pre, suf, want in ((None, None, 'b'), ('p_', None, 'p_b'), (None, '_s', 'b_s'), ('p_', '_s', 'p_b_s')):
    b = Beta('b', 0.5, None, None, 0)
    b.fix_betas({'b': 3.0, 'zz': 1.0}, prefix=pre, suffix=suf)
    if (b.name, b.initValue, b.status) != (want, 3.0, 1):
        bad.append((pre, suf, b.name, b.initValue, b.status))
    o = Beta('other', 0.5, None, None, 0)
    o.fix_betas({'b': 3.0}, prefix=pre, suffix=suf)
    if (o.name, o.initValue, o.status) != ('other', 0.5, 0):
        bad.append(('other', pre, suf, o.name, o.initValue, o.status))
violated = bool(bad)
detail = f'(prefix, suffix, name, value, status) after fix_betas: {bad}'
""")

contract(BE + '.dict_of_elementary_expression', ['C03', 'C12'], modifies=[], returns='dict[str, Any]',
         types={'the_type': 'Any'},
         ensures={'only_itself': "forall(lambda x: implies(x in result, x == self.name and result[x] is self), ty='str')",
                  # round 3 (m4): WHEN the parameter is reported - every kind, free iff status 0, fixed iff status != 0
                  # (the sorted-name numbering of IdManager.prepare is built from these dictionaries: a Beta reported
                  # under the wrong kind, or under no kind, is numbered in the wrong table / not at all)
                  'reported_iff_kind_matches_status':
                      "(self.name in result) == (the_type == TypeOfElementaryExpression.BETA or "
                      "(the_type == TypeOfElementaryExpression.FREE_BETA and self.status == 0) or "
                      "(the_type == TypeOfElementaryExpression.FIXED_BETA and self.status != 0))",
                  'at_most_itself': 'len(result) <= 1'})

# K7: dictionary -> list in the order of the sorted names
contract(BG + '.beta_values_dict_to_list', 'C03',
         types={'beta_dict': 'dict[str, float]'},
         raises={'BiogemeError': 'exists(lambda q: self.id_manager.free_betas.names[q] not in beta_dict, 0, len(self.id_manager.free_betas.names))'},
         ensures={'length': 'len(result) == len(self.id_manager.free_betas.names)',
                  'by_name': 'forall(lambda q: result[q] == beta_dict[self.id_manager.free_betas.names[q]], 0, len(result))'},
         invariants={1: {'clauses': {}},
                     2: {'clauses': {'prefix': 'len(beta_list) == _k and forall(lambda q: beta_list[q] == beta_dict[self.id_manager.free_betas.names[q]], 0, _k)',
                                     'present': 'forall(lambda q: self.id_manager.free_betas.names[q] in beta_dict, 0, _k)'}}},
         replay="""
import warnings; warnings.simplefilter('ignore')
import pandas as pd
from biogeme.expressions import Beta, Variable
from biogeme.database import Database
from biogeme.biogeme import BIOGEME
from biogeme.parameters import Parameters
db = Database('d', pd.DataFrame({'x': [1.0, 2.0]}))
f = Beta('zeta', 0.1, None, None, 0) * Variable('x') + Beta('alpha', 0.2, None, None, 0) + Beta('mid', 0.3, None, None, 0)
b = BIOGEME(db, f, parameters=Parameters())
got = b.beta_values_dict_to_list({'zeta': 26.0, 'alpha': 1.0, 'mid': 13.0})
violated = got != [1.0, 13.0, 26.0]
detail = f'names {b.id_manager.free_betas.names} -> {got}'
""")

# K8: bounds attached to the name
contract(BG + '.get_bounds_on_beta', 'C03',
         types={'beta_name': 'str'},
         requires={'bounds_len': 'len(self.id_manager.bounds) == len(self.id_manager.free_betas.names)',
                   'indices_in_range': "forall(lambda x: implies(x in self.id_manager.free_betas.indices, "
                                       "0 <= self.id_manager.free_betas.indices[x] < len(self.id_manager.free_betas.names)), ty='str')"},
         raises={'BiogemeError': 'beta_name not in self.id_manager.free_betas.indices'},
         ensures={'by_name': 'same(result, self.id_manager.bounds[self.id_manager.free_betas.indices[beta_name]])'})
