"""C17 (round 3, agent c17d): VALUES of the trees built by the piecewise builders, for every threshold list.

Supersedes contracts/c17_builders.py (same clauses kept: count, kind of the first variable, refusal of the wrong number of
coefficients) - the trivial ASSUMED constructor contracts of that module are replaced by the VERIFIED node contracts of
contracts/c05c_nodes.py + contracts/c17d_nodes.py, and the value of every built tree (c05c_val, specs/c05c_specs.py) is
proved equal to the documented closed form in its max / min form PWV_DOC; for increasing thresholds this is the case form
PWV / SUM of contracts/piecewise.py that piecewise_function is proved to compute (lemma in contracts/c17d_lemmas.py).
"""
import re

from pyvc.contract import contract

import contracts.c17d_nodes as N17      # noqa: F401
from contracts.c17_obligations import _replay_code

P = 'C17'
Q = 'biogeme.models.piecewise.'

X = 'c17d_xval(variable)'


# documented value of the q-th piecewise-linear variable at x, in the max / min form of the documentation:
#   first threshold None: min(x, t_1);  last threshold None: max(0, x - t_q);  otherwise max(0, min(x - t_q, t_{q+1} - t_q))
_T = "typed(thresholds[{0}], 'float')"
_MIN = "ite({0} <= {1}, {0}, {1})"
_MAX0 = "ite(0.0 >= {0}, 0.0, {0})"
PWV_DOC = ("(ite(thresholds[q] is None, " + _MIN.format('x', _T.format('q + 1')) + ", "
           "ite(thresholds[q + 1] is None, " + _MAX0.format('(x - ' + _T.format('q') + ')') + ", "
           + _MAX0.format('(' + _MIN.format('(x - ' + _T.format('q') + ')', '(' + _T.format('q + 1') + ' - ' + _T.format('q') + ')') + ')') + ")))")


def pwv(x=X, q='q', th='thresholds'):
    """documented value of the q-th piecewise variable at x"""
    t = re.sub(r'\bx\b', x, PWV_DOC)
    t = re.sub(r'\bthresholds\b', th, t)
    return re.sub(r'\bq\b', q, t)


_WELL_FORMED = ("len(thresholds) >= 2 and not (thresholds[0] is None and thresholds[len(thresholds) - 1] is None and len(thresholds) == 2) "
                "and forall(lambda q: thresholds[q] is not None, 1, len(thresholds) - 1)")
_MALFORMED = ("forall(lambda q: thresholds[q] is None, 0, len(thresholds)) "
              "or exists(lambda q: thresholds[q] is None, 1, len(thresholds) - 1)")
_KIND = ("iff(isinstance(typed(RES[0], 'Expression'), bioMin), thresholds[0] is None) "
         "and iff(isinstance(typed(RES[0], 'Expression'), bioMax), thresholds[0] is not None)")
_SAME_THRESHOLDS = "len(thresholds) == old(len(thresholds)) and forall(lambda q: same(thresholds[q], old(thresholds[q])), 0, len(thresholds))"

contract(Q + 'piecewise_variables', P,
         types={'thresholds': 'list[float | None]'},      # `variable`: any value (name, Variable node, anything else)
         requires={'at_least_two_thresholds': 'len(thresholds) >= 2'},
         # malformed input is refused, and nothing else is
         raises={'BiogemeError': f'({_MALFORMED}) or (not isinstance(variable, str) and not isinstance(variable, Variable))'},
         hints=['c17d_variable_meaning(variable)'],
         # frame: decided by the static obligation C17:static:piecewise_variables:mutates-only-own-list (the loop re-binds the
         # local list, see contracts/c17_builders.py)
         modifies=[], check_frame=False,
         ensures={'one_variable_per_interval': "len(result) == len(thresholds) - 1",
                  'thresholds_kept': _SAME_THRESHOLDS,
                  'first_variable_kind': _KIND.replace('RES', 'result'),
                  # value of every variable == documented closed form (closed interval, open lower end, open upper end)
                  'value_of_each_variable': f"forall(lambda q: c05c_val(result[q]) == {pwv()}, 0, len(thresholds) - 1)"},
         # the ways of building the first variable (x given by name or as a node) are kept apart (no join): each path runs the loop, the core numbers
         # the loop executions 1, 2, ...
         invariants={k: {'clauses': {
             'count': "len(results) == 1 + _k",
             'own_list': "results is not thresholds and c17_allocated(results)",
             'first_kept': _KIND.replace('RES', 'results'),
             'thresholds_kept': "len(thresholds) == eye and " + _SAME_THRESHOLDS,
             'values': f"forall(lambda q: c05c_val(results[q]) == {pwv()}, 0, 1 + _k)"}} for k in range(1, 9)},
         replay=_replay_code('c17_piecewise.py', 'piecewise_variables:each-variable'))

# ------------------------------------------------------------------------------------------------ piecewise_formula
# value of the returned tree == sum_q value(beta_q) * (q-th piecewise variable at x): the closed form SUM of
# contracts/piecewise.py with the coefficients read as the values of the coefficient expressions (for increasing thresholds
# the max/min form PWV_DOC and the case form PWV of that module coincide: lemma C17:lemma:piecewise:documentation-form-...)
_BAD_VARIABLE = 'not isinstance(variable, str) and not isinstance(variable, Variable)'
_BQ = "c05c_val(typed(betas, 'list[Expression]')[q])"
SUM_DOC = f"sum_range(lambda q: {_BQ} * {pwv()}, 0, len(thresholds) - 1)"

_DEFAULT_LOOP = {'count': "len(typed(betas, 'list[Expression]')) == _k",
                 'parameters': "forall(lambda q: isinstance(typed(betas, 'list[Expression]')[q], Beta), 0, _k)"}

contract(Q + 'piecewise_formula', P, nla_uf=True,
         types={'thresholds': 'list[float | None]', 'betas': 'list[Expression] | None'},
         requires={'at_least_two_thresholds': 'len(thresholds) >= 2'},
         raises={'BiogemeError': f"({_BAD_VARIABLE}) or ({_MALFORMED}) or "
                                 "(betas is not None and len(typed(betas, 'list[Expression]')) != len(thresholds) - 1)"},
         modifies=[],
         hints=['c17d_variable_meaning(the_variable)'],
         # loop creating the default parameters (path betas is None only; reached on two separate paths - the variable
         # given as a node / by name -, which the core numbers 1 and 2)
         invariants={1: {'clauses': _DEFAULT_LOOP}, 2: {'clauses': _DEFAULT_LOOP}},
         ensures={'value_is_sum_of_coefficient_times_variable': f"implies(betas is not None, c05c_val(result) == {SUM_DOC})"},
         replay=_replay_code('c17_piecewise.py', 'piecewise_formula:equals-function'))

# ------------------------------------------------------------------------------------------------ piecewise_as_variable
# documented: x_T1 + sum_{i >= 2} beta_i x_Ti  (the first variable enters with coefficient one; coefficient q multiplies
# the variable of interval q + 1)
SUM_AS_VARIABLE = (f"{pwv(q='0')} + sum_range(lambda q: {_BQ} * {pwv(q='(q + 1)')}, 0, len(thresholds) - 2)")

contract(Q + 'piecewise_as_variable', P, nla_uf=True,
         types={'thresholds': 'list[float | None]', 'betas': 'list[Expression] | None'},
         requires={'at_least_two_thresholds': 'len(thresholds) >= 2'},
         # a single interval leaves no coefficient: the empty sum is refused by bioMultSum
         raises={'BiogemeError': f"({_BAD_VARIABLE}) or ({_MALFORMED}) or len(thresholds) == 2 or "
                                 "(betas is not None and len(typed(betas, 'list[Expression]')) != len(thresholds) - 2)"},
         modifies=[],
         hints=['c17d_variable_meaning(the_variable)'],
         invariants={1: {'clauses': _DEFAULT_LOOP}, 2: {'clauses': _DEFAULT_LOOP}},
         ensures={'value_is_first_variable_plus_sum': f"implies(betas is not None, c05c_val(result) == {SUM_AS_VARIABLE})"},
         replay=_replay_code('c17_piecewise.py', 'piecewise_as_variable:documented-formula'))
