"""C17 (round 3, agent c17d): VALUES of the trees built by the piecewise builders, for every threshold list.

Supersedes contracts/c17_builders.py (same clauses kept: count, kind of the first variable, refusal of the wrong number of
coefficients) - the trivial ASSUMED constructor contracts of that module are replaced by the VERIFIED node contracts of
contracts/c05c_nodes.py + contracts/c17d_nodes.py, and the value of every built tree (c05c_val, specs/c05c_specs.py) is
proved equal to the documented closed form (the text PWV / SUM of contracts/piecewise.py, i.e. the same term that
piecewise_function is proved to compute).
"""
import re

from pyvc.contract import contract

import contracts.c17d_nodes as N17      # noqa: F401
from contracts.piecewise import PWV
from contracts.c17_obligations import _replay_code

P = 'C17'
Q = 'biogeme.models.piecewise.'

X = 'c05c_val(variable)'


def pwv(x=X, q='q', th='thresholds'):
    """documented value of the q-th piecewise variable at x (text of contracts/piecewise.py)"""
    t = re.sub(r'\bx\b', x, PWV)
    t = re.sub(r'\bthresholds\b', th, t)
    return re.sub(r'\bq\b', q, t)


_WELL_FORMED = ("len(thresholds) >= 2 and not (thresholds[0] is None and thresholds[len(thresholds) - 1] is None and len(thresholds) == 2) "
                "and forall(lambda q: thresholds[q] is not None, 1, len(thresholds) - 1)")
_KIND = ("iff(isinstance(typed(RES[0], 'Expression'), bioMin), thresholds[0] is None) "
         "and iff(isinstance(typed(RES[0], 'Expression'), bioMax), thresholds[0] is not None)")
_SAME_THRESHOLDS = "len(thresholds) == old(len(thresholds)) and forall(lambda q: same(thresholds[q], old(thresholds[q])), 0, len(thresholds))"

contract(Q + 'piecewise_variables', P,
         types={'variable': 'Variable', 'thresholds': 'list[float | None]'},
         requires={'well_formed': _WELL_FORMED},
         # frame: decided by the static obligation C17:static:piecewise_variables:mutates-only-own-list (the loop re-binds the
         # local list, see contracts/c17_builders.py)
         modifies=[], check_frame=False,
         ensures={'one_variable_per_interval': "len(result) == len(thresholds) - 1",
                  'thresholds_kept': _SAME_THRESHOLDS,
                  'first_variable_kind': _KIND.replace('RES', 'result'),
                  # value of every variable == documented closed form (closed interval, open lower end, open upper end)
                  'value_of_each_variable': f"forall(lambda q: c05c_val(result[q]) == {pwv()}, 0, len(thresholds) - 1)"},
         invariants={1: {'clauses': {
             'count': "len(results) == 1 + _k",
             'own_list': "results is not thresholds and c17_allocated(results)",
             'first_kept': _KIND.replace('RES', 'results'),
             'thresholds_kept': "len(thresholds) == eye and " + _SAME_THRESHOLDS,
             'values': f"forall(lambda q: c05c_val(results[q]) == {pwv()}, 0, 1 + _k)"}}},
         replay=_replay_code('c17_piecewise.py', 'piecewise_variables:each-variable'))
