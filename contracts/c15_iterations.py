"""C15 / C02 / C04: BIOGEME.calculate_likelihood_and_derivatives: packaging, scaling, and the
saved-iteration protocol (best-so-far marker, complete content installed by os.replace)."""
from pyvc.contract import contract, field_type
import contracts.c02_outputs  # noqa: F401  (assumed Database contracts shared with C02/C04)

B = 'biogeme.biogeme.BIOGEME.'
field_type('BIOGEME', 'database', 'Database')
field_type('BIOGEME', 'id_manager', 'IdManager')
field_type('BIOGEME', 'theC', 'CythonEngine')
field_type('BIOGEME', 'bestIteration', 'float | None')
field_type('BIOGEME', 'save_iterations', 'bool')
field_type('IdManager', 'free_betas_values', 'list[float]')
field_type('IdManager', 'fixed_betas_values', 'list[float]')
field_type('IdManager', 'number_of_free_betas', 'int')
field_type('IdManager', 'free_betas', 'ElementsTuple')
field_type('ElementsTuple', 'names', 'list[str]')
field_type('ElementsTuple', 'indices', 'dict[str, int]')

contract(B + '_save_iterations_file_name', ['C15', 'C02', 'C04'], verify=False, pure=True, reads=['modelName'], returns='str', ensures={'t': 'True'},
         note='file name derived from the model name (pure)')
contract(B + 'report_array', ['C15', 'C02', 'C04'], verify=False, pure=True, returns='str', ensures={'t': 'True'})

ENG = ("app('engine.calculateLikelihoodAndDerivatives', self.theC, x, self.id_manager.fixed_betas_values, "
       "self.id_manager.free_betas.indices, hessian, bhhh)")
F, G, H, BH = f'{ENG}[0]', f'{ENG}[1]', f'{ENG}[2]', f'{ENG}[3]'
NSS = 'float(self.database.get_sample_size())'
SAVES = (f"bool(app('numpy.isfinite', app('numpy.linalg.norm', {G}))) and old(self.save_iterations) and "
         f"bool(app('numpy.isfinite', {F})) and (old(self.bestIteration) is None or {F} >= typed(old(self.bestIteration), 'float'))")

LINE = 'f"{self.id_manager.free_betas.names[q]} = {x[q]}"'

contract(B + 'calculate_likelihood_and_derivatives', ['C15', 'C02', 'C04'],
         types={'x': 'list[float]', 'scaled': 'bool', 'hessian': 'bool', 'bhhh': 'bool', 'batch': 'float | None'},
         requires={'names': 'len(self.id_manager.free_betas.names) == self.id_manager.number_of_free_betas',
                   # ElementsTuple declares `indices: dict[str, int] | None`; the id manager of a constructed BIOGEME object always holds the
                   # dict built by expressions_names_indices (proved to return one: C03 / C02 `dom_indices`, `index_of_name`)
                   'free_parameters_are_numbered': 'self.id_manager.free_betas.indices is not None'},
         raises={'BiogemeError': f'batch is not None or (batch is None and len(x) == self.id_manager.number_of_free_betas and scaled and {NSS} == 0)',
                 'ValueError': 'batch is None and len(x) != self.id_manager.number_of_free_betas'},
         modifies=['*.individualMap', '*.data', '*.fullIndividualMap', 'self.bestIteration'],
         # round 3 (m1): check_safe=False and check_frame=False removed - implicit exceptions and the frame are obligations again
         ensures={
             'function': f"result.data.function == ite(scaled, {F} / {NSS}, {F})",
             'gradient': f"same(result.data.gradient, ite(scaled, app('numpy.asarray', {G}) / {NSS}, app('numpy.asarray', {G})))",
             'hessian': f"same(result.data.hessian, ite(scaled, app('numpy.asarray', {H}) / {NSS}, app('numpy.asarray', {H})))",
             'bhhh': f"same(result.data.bhhh, ite(scaled, app('numpy.asarray', {BH}) / {NSS}, app('numpy.asarray', {BH})))",
             'panel_map_is_the_map_of_the_data': contracts.c02_outputs.PANEL_CLAUSE,
             'marker_follows_best': f"implies({SAVES}, self.bestIteration == {F})",
             'marker_kept_otherwise': f"implies(not ({SAVES}), same(self.bestIteration, old(self.bestIteration)))",
             'file_installed_iff_best': f"iterfile_installs() == ite({SAVES}, 1, 0)",
             'installed_under_the_iteration_file_name': f"implies({SAVES}, iterfile_target() == self._save_iterations_file_name())",
             'one_complete_line_per_free_parameter': f"implies({SAVES}, len(iterfile_lines()) == len(x) and "
                                                     "forall(lambda q: iterfile_lines()[q] == LINE, 0, len(x)))".replace('LINE', LINE),
         },
         invariants={1: {'clauses': {'lines_so_far': "len(file_lines(pf)) == _k and forall(lambda q: file_lines(pf)[q] == LINE, 0, _k)".replace('LINE', LINE)}}})

# the body of the (otherwise pure, assumed) file-name function: the name contains the WHOLE model name, so different model names
# give different files (injectivity of the f-string in its hole is part of the string model A-STR-TOK)
contract(B + '_save_iterations_file_name', 'C15', self_class='BIOGEME', label='BIOGEME._save_iterations_file_name(body)',
         types={}, modifies=[],
         ensures={'whole_model_name': "result == f'__{self.modelName}.iter'"},
         replay="""
import warnings; warnings.simplefilter('ignore')
import pandas as pd, biogeme.database as db
from biogeme.biogeme import BIOGEME
from biogeme.parameters import Parameters
from biogeme.expressions import Beta, Variable
names = ['quad_v1.0', 'quad_v1.5', 'a.b.c', 'plain', 'dir/name', 'x.py']
got = []
for nm in names:
    bg = BIOGEME(db.Database('d', pd.DataFrame({'x': [1.0, 2.0]})), Beta('b', 0, None, None, 0) * Variable('x'), parameters=Parameters())
    bg.modelName = nm
    got.append(bg._save_iterations_file_name())
violated = got != [f'__{nm}.iter' for nm in names]
detail = str(list(zip(names, got)))
""")
