"""Contracts for biogeme.nests (C05/C06).

Only `OneNestForNestedLogit.intersection` is inside the engine's subset.  `check_union` (set comprehension with two
generators), `Nests.__init__` (`set().union(*generator)`), `from_tuple` (`cls(*the_tuple)`), `check_intersection`
(quantified set facts behind lambda-defined set domains: z3/cvc5 return unknown) and `check_validity` are decided by
the shape-bounded stand-in bounded/c05_nests_native.py instead.
"""
from pyvc.contract import contract, field_type

Q = 'biogeme.nests.'
P = ['C05', 'C06']

field_type('OneNestForNestedLogit', 'list_of_alternatives', 'list[int]')
field_type('OneNestForNestedLogit', 'name', 'str | None')

contract(Q + 'OneNestForNestedLogit.intersection', P,
         ensures={'is_intersection': "forall(lambda x: iff(x in result, x in self.list_of_alternatives and "
                                     "x in other_nest.list_of_alternatives))"},
         replay='''
from biogeme.nests import OneNestForNestedLogit
violated = False
for a, b in (([1, 2, 3], [3, 4]), ([1, 2], [3]), ([], [1]), ([5, 5, 6], [6, 5])):
    got = OneNestForNestedLogit(1.0, a).intersection(OneNestForNestedLogit(1.0, b))
    if got != set(a) & set(b):
        violated = True
        detail = f'intersection({a}, {b}) = {got}'
''')
