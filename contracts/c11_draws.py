"""Contracts for biogeme.draws / biogeme.native_draws (C11), discharged through the element-wise
executor pyvc/libext/c11_elemwise.py (VCs generated from the real AST, z3 + exact polynomial
algebra).  Every function returns a list of `Ob` (one per named clause).

Contract of get_normal_wichura_draws (A-ELEMWISE, A-REAL, sqrt/log uninterpreted):
    for every position and every u in (0,1):   result == PPND16(u)        (specs/c11_ppnd16.py)
split into: the branch conditions (central region, tail argument min(u,1-u), tail split at 5,
sign), the 45 coefficients (by position in the rational functions), the formula applied in each
of the 5 regions, the antithetic structure and the shapes.
"""
from __future__ import annotations

import time
from dataclasses import dataclass, field
from fractions import Fraction

import z3

from pyvc.libext import c11_elemwise as E
from specs import c11_ppnd16 as S

Q = 'biogeme.draws.'


@dataclass
class Ob:
    name: str
    status: str                    # discharged | failed | unknown
    backend: str = 'elemwise+z3'
    detail: str = ''
    witness: dict | None = None
    seconds: float = 0.0


def _rv(text):
    return z3.RealVal(str(S.frac(text)))


def _z3check(name, hyps, goal, witness_terms=None, timeout_ms=20000, detail='') -> Ob:
    t0 = time.time()
    st, model = E.prove(hyps, goal, timeout_ms)
    w = None
    if model is not None and witness_terms:
        w = {k: E.model_value(model, t) for k, t in witness_terms.items()}
    return Ob(name, st, 'elemwise+z3', detail, w, time.time() - t0)


def _single_return(paths, what):
    rets = [p for p in paths if p.status == 'return']
    if len(rets) != 1:
        raise E.Unsup(f'{what}: {len(rets)} normal paths')
    return rets[0]


def _hyps(p):
    return list(p.state.pc) + list(p.state.assume)


def _side_obligations(prefix, p, hyps, timeout_ms):
    """Side conditions raised by the execution (reshape sizes, index ranges, concatenation rows) and the
    vacuity guard: the hypotheses of the path (branch conditions + LIBSPEC facts) must be satisfiable."""
    out = []
    seen = {}
    t0 = time.time()
    ok, model = E.feasible(hyps, timeout_ms)
    out.append(Ob(f'{prefix}:vacuity', 'discharged' if ok else 'failed', 'elemwise+z3',
                  'path hypotheses are satisfiable' if ok else 'path hypotheses are contradictory: everything would hold vacuously',
                  None, time.time() - t0))
    for lbl, f in p.state.oblig:
        seen[lbl] = seen.get(lbl, 0) + 1
        nm = f'{prefix}:safe:{lbl}' + (f'#{seen[lbl]}' if seen[lbl] > 1 else '')
        out.append(_z3check(nm, hyps, f, timeout_ms=timeout_ms))
    return out


# ---------------------------------------------------------------------------
# get_normal_wichura_draws == PPND16, point-wise
# ---------------------------------------------------------------------------
class Ppnd16:
    """The published algorithm as z3 / sympy terms over u."""

    def __init__(self, u):
        self.u = u
        half = z3.RealVal('1/2')
        self.q = u - half
        sp1 = _rv(S.SPLIT1)
        self.central = z3.And(self.q <= sp1, -self.q <= sp1)
        self.lower = self.q < 0
        self.p_tail = z3.If(self.lower, u, 1 - u)
        self.s = E.SQRT(-E.LOG(self.p_tail))
        self.near = self.s <= _rv(S.SPLIT2)
        self.regions = {
            'central': self.central,
            'near-tail-lower': z3.And(z3.Not(self.central), self.near, self.lower),
            'near-tail-upper': z3.And(z3.Not(self.central), self.near, z3.Not(self.lower)),
            'far-tail-lower': z3.And(z3.Not(self.central), z3.Not(self.near), self.lower),
            'far-tail-upper': z3.And(z3.Not(self.central), z3.Not(self.near), z3.Not(self.lower)),
        }

    @staticmethod
    def transcendental_axioms(terms):
        """A-TRANSC facts for every sqrt(-log(t)) application: for 0 < t < 1 the root is positive and
        (root <= 5) <=> (t >= exp(-25)), with 1.388e-11 < exp(-25) < 1.389e-11."""
        e25 = z3.Real('EXP_M25')
        ax = [e25 > z3.RealVal('1388/100000000000000'), e25 < z3.RealVal('1389/100000000000000')]
        seen = set()
        for t in terms:
            for x in E.subterms(t):
                if z3.is_app(x) and x.decl().eq(E.SQRT) and x.get_id() not in seen:
                    seen.add(x.get_id())
                    a = x.arg(0)
                    inner = None
                    for y in E.subterms(a):
                        if z3.is_app(y) and y.decl().eq(E.LOG):
                            inner = y.arg(0)
                    if inner is None:
                        continue
                    ax.append(z3.Implies(z3.And(inner > 0, inner < 1),
                                         z3.And(x > 0, (x <= _rv(S.SPLIT2)) == (inner >= e25))))
        return ax

    def region_formula_sympy(self, region, usym, ssym):
        """Published formula of a region over the sympy symbols u and s (= sqrt(-log(min(u,1-u))))."""
        import sympy as sp
        br = 'central' if region == 'central' else region.rsplit('-', 1)[0]
        n, d = S.BRANCHES[br]

        def poly(tab, x):
            return sum(sp.Rational(S.frac(t).numerator, S.frac(t).denominator) * x ** k for k, t in enumerate(S.TABLES[tab]))
        fr = lambda t: sp.Rational(S.frac(t).numerator, S.frac(t).denominator)
        if br == 'central':
            q = usym - sp.Rational(1, 2)
            r = fr(S.CONST1) - q * q
            return q * poly(n, r) / poly(d, r)
        r = ssym - (fr(S.CONST2) if br == 'near-tail' else fr(S.SPLIT2))
        z = poly(n, r) / poly(d, r)
        return -z if region.endswith('lower') else z


def _poly_coeffs(expr, var, shift):
    """expr rational in `var`: numerator/denominator coefficient lists in (var - shift), normalised
    so that the denominator's constant term is 1.  -> (num, den) lists of sympy Rationals."""
    import sympy as sp
    num, den = sp.fraction(sp.together(expr))
    x = sp.Symbol('x_shifted')
    pn = sp.Poly(sp.expand(num.subs(var, x + shift)), x)
    pd = sp.Poly(sp.expand(den.subs(var, x + shift)), x)
    if not pn.free_symbols <= {x} or not pd.free_symbols <= {x} or (pn.free_symbols_in_domain | pd.free_symbols_in_domain):
        raise ValueError('not a rational function of one argument')
    c0 = pd.eval(0)
    if c0 == 0:
        raise ValueError('denominator vanishes at 0')
    n = [c / c0 for c in reversed(pn.all_coeffs())]
    d = [c / c0 for c in reversed(pd.all_coeffs())]
    return n, d


def _central_coeffs(expr, usym):
    """expr(u) = q*A(r)/B(r) with q = u - 1/2, r = CONST1 - q^2  ->  (A, B) coefficient lists."""
    import sympy as sp
    q, r = sp.Symbol('q'), sp.Symbol('r')
    num, den = sp.fraction(sp.together(expr))
    pn = sp.Poly(sp.expand(num.subs(usym, q + sp.Rational(1, 2))), q)
    pd = sp.Poly(sp.expand(den.subs(usym, q + sp.Rational(1, 2))), q)
    cn = list(reversed(pn.all_coeffs()))
    cd = list(reversed(pd.all_coeffs()))
    if any(c != 0 for c in cn[0::2]) or any(c != 0 for c in cd[1::2]):
        raise ValueError('not of the form q * A(q^2) / B(q^2)')
    c1 = sp.Rational(S.frac(S.CONST1).numerator, S.frac(S.CONST1).denominator)
    a = sp.Poly(sp.expand(sum(c * (c1 - r) ** k for k, c in enumerate(cn[1::2]))), r)
    b = sp.Poly(sp.expand(sum(c * (c1 - r) ** k for k, c in enumerate(cd[0::2]))), r)
    b0 = b.eval(0)
    if b0 == 0:
        raise ValueError('denominator vanishes at r = 0')
    return [c / b0 for c in reversed(a.all_coeffs())], [c / b0 for c in reversed(b.all_coeffs())]


def _spec_lists(branch):
    import sympy as sp
    n, d = S.BRANCHES[branch]
    f = lambda t: sp.Rational(S.frac(t).numerator, S.frac(t).denominator)
    return [f(t) for t in S.TABLES[n]], [f(t) for t in S.TABLES[d]]


def _match_count(got, want, sign=1):
    gn, gd = got
    wn, wd = want
    k = 0
    for i in range(8):
        k += int(i < len(gn) and gn[i] == sign * wn[i])
        k += int(i < len(gd) and gd[i] == wd[i])
    k -= max(0, len(gn) - 8) + max(0, len(gd) - 8)
    return k


def pointwise_ppnd16(prefix, term, u, base_hyps, timeout_ms):
    """Obligations stating that `term` (z3, over the real constant u) is PPND16(u) on (0,1)."""
    import sympy as sp
    obs: list[Ob] = []
    t_all = time.time()
    spec = Ppnd16(u)
    hyps = list(base_hyps) + [u > 0, u < 1]
    hyps += Ppnd16.transcendental_axioms([term, spec.s])
    lv = E.leaves(term, hyps)
    usym = sp.Symbol('u', real=True)
    info = []                     # per leaf: dict(conds, term, kind, role, sign, coeffs, expr, atoms)
    for conds, t in lv:
        atoms = {'u': (usym, u)}
        ex = E.to_sympy(t, atoms)
        others = {k: v for k, v in atoms.items() if k != 'u'}
        d = {'conds': conds, 'term': t, 'expr': ex, 'atoms': others, 'kind': 'other', 'role': None, 'sign': 1,
             'coeffs': None, 'err': ''}
        if not others:
            if ex.free_symbols:
                d['kind'] = 'central'
                d['role'] = 'central'
                try:
                    d['coeffs'] = _central_coeffs(ex, usym)
                except Exception as e:
                    d['err'] = str(e)
            else:
                d['kind'] = 'constant'
        elif len(others) == 1:
            (key, (sym, zt)), = others.items()
            if z3.is_app(zt) and zt.decl().eq(E.SQRT) and usym not in ex.free_symbols:
                d['kind'] = 'tail'
                d['ssym'], d['sterm'] = sym, zt
                best = None
                for role, shift in (('near-tail', S.CONST2), ('far-tail', S.SPLIT2)):
                    try:
                        co = _poly_coeffs(ex, sym, sp.Rational(S.frac(shift).numerator, S.frac(shift).denominator))
                    except Exception as e:
                        d['err'] = str(e)
                        continue
                    for sign in (1, -1):
                        sc = _match_count(co, _spec_lists(role), sign)
                        if best is None or sc > best[0]:
                            best = (sc, role, sign, co)
                if best is not None:
                    _, d['role'], d['sign'], d['coeffs'] = best
        info.append(d)

    def cond_of(d):
        return z3.And(d['conds']) if d['conds'] else z3.BoolVal(True)

    wit = {'u': u}
    # (a) central region
    cen = [cond_of(d) for d in info if d['kind'] == 'central']
    code_central = z3.Or(cen) if cen else z3.BoolVal(False)
    obs.append(_z3check(f'{prefix}:branch:central-condition', hyps, code_central == spec.central, wit, timeout_ms,
                        'the polynomial-in-u (central) formula is selected exactly when |u - 1/2| <= 0.425'))
    # (b) tail argument
    tails = [d for d in info if d['kind'] == 'tail']
    t0 = time.time()
    st_b, w_b, det_b = ('discharged', None, '') if tails else ('failed', None, 'no tail formula found')
    for d in tails:
        zt = d['sterm']
        arg_ok = z3.is_app(zt.arg(0)) and True
        goal = zt == spec.s
        s1, m1 = E.prove(hyps + d['conds'], goal, timeout_ms)
        if s1 != 'discharged':
            st_b = s1 if st_b == 'discharged' or s1 == 'failed' else st_b
            w_b = {'u': E.model_value(m1, u)} if m1 is not None else None
            det_b = f'tail formula evaluated at {zt} instead of sqrt(-log(min(u, 1-u)))'
    obs.append(Ob(f'{prefix}:branch:tail-argument', st_b, 'elemwise+z3',
                  det_b or 'every tail formula is evaluated at sqrt(-log(min(u, 1-u)))', w_b, time.time() - t0))
    # (c) tail split
    near = [cond_of(d) for d in tails if d['role'] == 'near-tail']
    code_tail = z3.Or([cond_of(d) for d in tails]) if tails else z3.BoolVal(False)
    code_near = z3.Or(near) if near else z3.BoolVal(False)
    obs.append(_z3check(f'{prefix}:branch:tail-split', hyps,
                        z3.Implies(z3.And(z3.Not(spec.central), code_tail), code_near == spec.near), wit, timeout_ms,
                        'the near-tail rational function (c/d) is used iff sqrt(-log(min(u,1-u))) <= 5, else e/f'))
    # (d) sign
    t0 = time.time()
    st_d, w_d = ('discharged', None) if tails else ('failed', None)
    for d in tails:
        goal = spec.lower if d['sign'] < 0 else z3.Not(spec.lower)
        s1, m1 = E.prove(hyps + d['conds'], goal, timeout_ms)
        if s1 != 'discharged':
            st_d = s1 if st_d == 'discharged' or s1 == 'failed' else st_d
            w_d = {'u': E.model_value(m1, u)} if m1 is not None else None
    obs.append(Ob(f'{prefix}:branch:tail-sign', st_d, 'elemwise+z3', 'the tail value is negated exactly when u < 1/2', w_d,
                  time.time() - t0))
    # (e) coefficients, by position
    for cname, branch, part, k, val in S.coefficient_names():
        ds = [d for d in info if d['role'] == branch]
        t0 = time.time()
        if not ds:
            obs.append(Ob(f'{prefix}:coef:{cname}', 'failed', 'elemwise+sympy', f'no {branch} formula found in the code'))
            continue
        bad = ''
        for d in ds:
            if d['coeffs'] is None:
                bad = f'{branch} formula is not of the published form: {d["err"]}'
                break
            lst = d['coeffs'][0 if part == 'num' else 1]
            want = sp.Rational(val.numerator, val.denominator) * (d['sign'] if part == 'num' else 1)
            got = lst[k] if k < len(lst) else sp.Integer(0)
            if got != want:
                bad = f'coefficient of degree {k} in the {part}erator of the {branch} rational function is {float(got)!r}, published {cname} = {float(want)!r}'
                break
            if k == 7 and len(lst) > 8:
                bad = f'{branch} {part}erator has degree {len(lst) - 1} > 7'
                break
        obs.append(Ob(f'{prefix}:coef:{cname}', 'failed' if bad else 'discharged', 'elemwise+sympy', bad, None, time.time() - t0))
    # (f) formula applied in each region of the published algorithm
    all_ok = True
    for rname, rcond in spec.regions.items():
        t0 = time.time()
        status, detail, w = 'discharged', '', None
        covered = False
        for d in info:
            ok, model = E.feasible(hyps + d['conds'] + [rcond])
            if not ok:
                continue
            covered = True
            same = False
            if d['kind'] == 'central' and rname == 'central':
                want = spec.region_formula_sympy(rname, usym, None)
                same = _identical(d['expr'], want)
            elif d['kind'] == 'tail' and rname != 'central':
                s1, _ = E.prove(hyps + d['conds'] + [rcond], d['sterm'] == spec.s, timeout_ms)
                if s1 == 'discharged':
                    want = spec.region_formula_sympy(rname, usym, d['ssym'])
                    same = _identical(d['expr'], want)
            if not same:
                status = 'failed'
                w = {'u': E.model_value(model, u)} if model is not None else None
                detail = (f'for u = {w["u"] if w else "?"} (region {rname} of AS241) the code applies its '
                          f'{d["kind"]}{"/" + d["role"] if d["role"] else ""} formula, which is not the published one')
                break
        if not covered and status == 'discharged':
            status, detail = 'failed', 'no code path covers this region'
        all_ok = all_ok and status == 'discharged'
        obs.append(Ob(f'{prefix}:region:{rname}', status, 'elemwise+z3+sympy', detail, w, time.time() - t0))
    # regions partition (0,1): headline theorem
    part = _z3check(f'{prefix}:regions-cover-unit-interval', hyps, z3.Or(list(spec.regions.values())), wit, timeout_ms)
    obs.append(part)
    obs.append(Ob(f'{prefix}:pointwise-equal', 'discharged' if all_ok and part.status == 'discharged' else 'failed',
                  'elemwise+z3+sympy',
                  'for every u in (0,1): element == PPND16(u) (reals; sqrt/log uninterpreted)' if all_ok else
                  'some region of AS241 is computed with a different formula (see region:* obligations)',
                  next((o.witness for o in obs if o.status == 'failed' and o.witness), None), time.time() - t_all))
    return obs


def _identical(a, b) -> bool:
    """Exact identity of two rational functions (sympy, rational arithmetic)."""
    import sympy as sp
    na, da = sp.fraction(sp.together(a))
    nb, db = sp.fraction(sp.together(b))
    return sp.expand(na * db - nb * da) == 0


def wichura_obligations(repo, timeout_ms=20000) -> list[Ob]:
    prefix = 'C11:draws.get_normal_wichura_draws'
    fi = repo.function(Q + 'get_normal_wichura_draws')
    if fi is None:
        return [Ob(prefix + ':exists', 'failed', 'ast-static', 'function not found')]
    obs: list[Ob] = []
    N, Rn, usize = z3.Int('sample_size'), z3.Int('number_of_draws'), z3.Int('uniform_numbers.size')
    uf = z3.Function('uniform_numbers', z3.IntSort(), E.R)
    u = z3.Real('u')
    ex = E.ElemExec(repo)
    try:
        # --- antithetic = False, uniform numbers supplied --------------------------------
        arr = E.Arr((usize,), uf(E.P), source='param')
        p = _single_return(ex.run(fi, {'sample_size': N, 'number_of_draws': Rn, 'uniform_numbers': arr, 'antithetic': False}),
                           'antithetic=False')
        res = p.value
        if not isinstance(res, E.Arr) or res.tag is not None:
            raise E.Unsup('result is not a plain array')
        hyps = _hyps(p)
        obs.append(_z3check(prefix + ':shape', hyps, z3.And(len(res.shape) == 2, *[a == b for a, b in zip(res.shape, (N, Rn))]),
                            {'sample_size': N, 'number_of_draws': Rn}, timeout_ms, 'result has shape (sample_size, number_of_draws)'))
        obs += _side_obligations(prefix, p, hyps, timeout_ms)
        term = z3.substitute(res.elem, (uf(E.P), u))
        obs += pointwise_ppnd16(prefix + ':ppnd16', term, u, [], timeout_ms)
        # --- uniform numbers drawn inside: same transform of numpy's uniform numbers -----------
        p2 = _single_return(ex.run(fi, {'sample_size': N, 'number_of_draws': Rn, 'uniform_numbers': None, 'antithetic': False}),
                            'uniform_numbers=None')
        rng = [e for e in p2.state.events if e[0] == 'rng']
        ok = (len(rng) == 1 and isinstance(p2.value, E.Arr)
              and z3.eq(z3.simplify(z3.substitute(p2.value.elem, (rng[0][1].elem, u))), z3.simplify(term)))
        h2 = _hyps(p2)
        size_ok = len(rng) == 1 and E.prove(h2, rng[0][1].size() == N * Rn, timeout_ms)[0] == 'discharged'
        obs.append(Ob(prefix + ':internal-uniform:same-transform', 'discharged' if ok and size_ok else 'failed', 'elemwise+z3',
                      'without uniform_numbers the same transform is applied to sample_size*number_of_draws numpy uniform numbers'))
        # --- antithetic = True --------------------------------------------------------------
        arr3 = E.Arr((usize,), uf(E.P), source='param')
        p3 = _single_return(ex.run(fi, {'sample_size': N, 'number_of_draws': Rn, 'uniform_numbers': arr3, 'antithetic': True}),
                            'antithetic=True')
        h3 = _hyps(p3)
        cat = p3.value
        good = isinstance(cat, E.Cat) and len(cat.parts) == 2
        if good:
            a, b = cat.parts
            t_a = z3.substitute(a.elem, (uf(E.P), u))
            t_b = z3.substitute(b.elem, (uf(E.P), u))
            same = z3.eq(z3.simplify(t_a), z3.simplify(term))
            obs.append(Ob(prefix + ':antithetic:first-half', 'discharged' if same else 'failed', 'elemwise+z3',
                          'first half of the antithetic result is the same PPND16 transform of the supplied numbers'))
            mir = z3.eq(z3.simplify(t_b), z3.simplify(-t_a))
            if not mir:
                mir = E.prove([], t_b == -t_a, timeout_ms)[0] == 'discharged'
            obs.append(Ob(prefix + ':antithetic:mirror', 'discharged' if mir else 'failed', 'elemwise+z3',
                          'second half of the antithetic result is minus the first half, position by position'))
            half = z3.Int('half')
            obs.append(_z3check(prefix + ':antithetic:shape', h3,
                                z3.And(a.shape[0] == N, b.shape[0] == N, a.shape[1] + b.shape[1] == Rn, a.shape[1] == b.shape[1]),
                                {'sample_size': N, 'number_of_draws': Rn}, timeout_ms,
                                'antithetic result has shape (sample_size, number_of_draws) with two halves of number_of_draws/2 columns'))
            obs += [o for o in _side_obligations(prefix + ':antithetic', p3, h3, timeout_ms)]
        else:
            obs.append(Ob(prefix + ':antithetic:mirror', 'failed', 'elemwise+z3', 'antithetic result is not concatenate((d, -d), axis=1)'))
    except E.Unsup as e:
        obs.append(Ob(prefix + ':in-subset', 'unknown', 'elemwise', f'outside the element-wise subset: {e}'))
    return obs


# ---------------------------------------------------------------------------
# get_uniform / get_latin_hypercube_draws / get_antithetic / symmetric antithetic helpers
# ---------------------------------------------------------------------------
def uniform_obligations(repo, timeout_ms=20000) -> list[Ob]:
    prefix = 'C11:draws.get_uniform'
    fi = repo.function(Q + 'get_uniform')
    if fi is None:
        return [Ob(prefix + ':exists', 'failed', 'ast-static', 'function not found')]
    N, Rn, sym = z3.Int('sample_size'), z3.Int('number_of_draws'), z3.Bool('symmetric')
    obs = []
    try:
        ex = E.ElemExec(repo)
        rets = [p for p in ex.run(fi, {'sample_size': N, 'number_of_draws': Rn, 'symmetric': sym}) if p.status == 'return']
        if not rets:
            raise E.Unsup('no normal path')
        sts = {'shape': [], 'support': [], 'symmetric-map': [], 'rng-size': []}
        for p in rets:
            h = _hyps(p)
            x = p.value
            rng = [e for e in p.state.events if e[0] == 'rng']
            if not isinstance(x, E.Arr) or len(rng) != 1:
                raise E.Unsup('result is not an array built from one numpy.random.uniform call')
            U = rng[0][1].elem
            sts['shape'].append(E.prove(h, z3.And(len(x.shape) == 2, *[a == b for a, b in zip(x.shape, (N, Rn))]), timeout_ms)[0])
            sts['support'].append(E.prove(h, z3.If(sym, z3.And(x.elem >= -1, x.elem < 1), z3.And(x.elem >= 0, x.elem < 1)), timeout_ms)[0])
            sts['symmetric-map'].append(E.prove(h, x.elem == z3.If(sym, 2 * U - 1, U), timeout_ms)[0])
            sts['rng-size'].append(E.prove(h, rng[0][1].size() == N * Rn, timeout_ms)[0])
            obs += _side_obligations(prefix, p, h, timeout_ms)
        text = {'shape': 'result has shape (sample_size, number_of_draws)',
                'support': 'entries lie in [0,1), or in [-1,1) when symmetric',
                'symmetric-map': 'entries are u, or 2u-1 when symmetric, u the numpy uniform numbers',
                'rng-size': 'sample_size*number_of_draws uniform numbers are drawn'}
        for k, v in sts.items():
            st = 'discharged' if all(s == 'discharged' for s in v) else ('failed' if 'failed' in v else 'unknown')
            obs.append(Ob(f'{prefix}:{k}', st, 'elemwise+z3', text[k]))
    except E.Unsup as e:
        obs.append(Ob(prefix + ':in-subset', 'unknown', 'elemwise', f'outside the element-wise subset: {e}'))
    return _dedup(obs)


def _dedup(obs):
    seen = {}
    out = []
    for o in obs:
        if o.name in seen:
            prev = seen[o.name]
            if prev.status == 'discharged' and o.status != 'discharged':
                prev.status, prev.detail, prev.witness = o.status, o.detail, o.witness
            continue
        seen[o.name] = o
        out.append(o)
    return out


def mlhs_obligations(repo, timeout_ms=20000) -> list[Ob]:
    prefix = 'C11:draws.get_latin_hypercube_draws'
    fi = repo.function(Q + 'get_latin_hypercube_draws')
    if fi is None:
        return [Ob(prefix + ':exists', 'failed', 'ast-static', 'function not found')]
    N, Rn, sym = z3.Int('sample_size'), z3.Int('number_of_draws'), z3.Bool('symmetric')
    obs = []
    try:
        for variant in ('internal', 'supplied'):
            ex = E.ElemExec(repo)
            pre = []
            if variant == 'supplied':
                uf = z3.Function('uniform_numbers', z3.IntSort(), E.R)
                k = z3.Int('k!u')
                arg = E.Arr((z3.Int('uniform_numbers.size'),), uf(E.P), source='param')
                pre = [z3.ForAll([k], z3.And(uf(k) >= 0, uf(k) < 1))]      # documented: uniformly distributed numbers
            else:
                arg = None
            rets = [p for p in ex.run(fi, {'sample_size': N, 'number_of_draws': Rn, 'symmetric': sym, 'uniform_numbers': arg}, pre)
                    if p.status == 'return']
            if not rets:
                raise E.Unsup('no normal path')
            for p in rets:
                h = _hyps(p)
                x = p.value
                comp = [e for e in p.state.events if e[0] == 'comprehension']
                shuf = [e for e in p.state.events if e[0] == 'shuffle']
                if not isinstance(x, E.Arr) or len(comp) != 1 or len(shuf) != 1:
                    raise E.Unsup('expected one generated list and one shuffle')
                gen = comp[0][2]                      # element of the generated part at position P
                T = comp[0][1].shape[0]
                Tr = z3.ToReal(T)
                Pr = z3.ToReal(E.P)
                inr = [E.P >= 0, E.P < T]
                tag = f'{prefix}:{variant}'
                obs.append(_z3check(f'{tag}:length', h, T == N * Rn, None, timeout_ms,
                                    'sample_size*number_of_draws points are generated'))
                # stratum P: [P/T, (P+1)/T)   (stated without division: P <= T*x < P+1)
                obs.append(_z3check(f'{tag}:strata', h + inr, z3.And(Pr <= gen * Tr, gen * Tr < Pr + 1, gen * Tr == Pr + (gen * Tr - Pr)),
                                    {'P': E.P, 'T': T}, timeout_ms,
                                    'before shuffling, point i lies in the stratum [i/T, (i+1)/T)'))
                src = [e for e in p.state.events if e[0] == 'rng']
                Uelem = src[0][1].elem if (variant == 'internal' and len(src) == 1) else (uf(E.P) if variant == 'supplied' else None)
                if Uelem is None:
                    raise E.Unsup('expected exactly one source of uniform numbers')
                obs.append(_z3check(f'{tag}:uniform-within-stratum', h + inr, gen * Tr - Pr == Uelem, {'P': E.P, 'T': T}, timeout_ms,
                                    'point i is (i + u_i)/T with u_i the i-th uniform number: uniformly placed inside its stratum'))
                j = z3.Int('j!stratum')
                genj = z3.substitute(gen, (E.P, j))
                obs.append(_z3check(f'{tag}:one-point-per-stratum', h + inr + [j >= 0, j < T, z3.ToReal(j) <= gen * Tr, gen * Tr < z3.ToReal(j) + 1],
                                    j == E.P, {'P': E.P, 'j': j}, timeout_ms,
                                    'point i lies in no other stratum: every stratum holds exactly one point'))
                perm = shuf[0][2]
                want = z3.substitute(gen, (E.P, perm(E.P)))
                obs.append(_z3check(f'{tag}:result-is-shuffled-generated-part', h, x.elem == z3.If(sym, 2 * want - 1, want),
                                    None, timeout_ms,
                                    'the result is a permutation of the generated points (mapped by 2x-1 when symmetric)'))
                obs.append(_z3check(f'{tag}:shape', h, z3.And(len(x.shape) == 2, *[a == b for a, b in zip(x.shape, (N, Rn))]),
                                    None, timeout_ms, 'result has shape (sample_size, number_of_draws)'))
                obs += _side_obligations(tag, p, h, timeout_ms)
    except E.Unsup as e:
        obs.append(Ob(prefix + ':in-subset', 'unknown', 'elemwise', f'outside the element-wise subset: {e}'))
    return _dedup(obs)


def antithetic_obligations(repo, timeout_ms=20000) -> list[Ob]:
    obs = []
    N, Rn = z3.Int('sample_size'), z3.Int('number_of_draws')
    even = [Rn > 0, Rn % 2 == 0, N > 0]
    cases = [('biogeme.draws.get_antithetic', {'uniform_draws': E.GenParam('uniform_draws'), 'sample_size': N, 'number_of_draws': Rn},
              lambda d: 1 - d, 'second half = 1 - first half'),
             ('biogeme.native_draws.symm_uniform_antithetic', {'sample_size': N, 'number_of_draws': Rn}, lambda d: -d,
              'second half = - first half'),
             ('biogeme.native_draws.symm_MLHS_anti', {'sample_size': N, 'number_of_draws': Rn}, lambda d: -d,
              'second half = - first half')]
    for qn, args, mirror, text in cases:
        prefix = 'C11:' + qn.replace('biogeme.', '')
        fi = repo.function(qn)
        if fi is None:
            obs.append(Ob(prefix + ':exists', 'failed', 'ast-static', 'function not found'))
            continue
        try:
            ex = E.ElemExec(repo)
            rets = [p for p in ex.run(fi, dict(args), even) if p.status == 'return']
            if len(rets) != 1:
                raise E.Unsup(f'{len(rets)} normal paths')
            p = rets[0]
            h = _hyps(p)
            cat = p.value
            if not (isinstance(cat, E.Cat) and len(cat.parts) == 2):
                obs.append(Ob(prefix + ':mirror', 'failed', 'elemwise+z3', 'result is not the concatenation of two halves along the draws axis'))
                continue
            a, b = cat.parts
            obs.append(_z3check(prefix + ':mirror', h, b.elem == mirror(a.elem), None, timeout_ms, text + ', position by position'))
            obs.append(_z3check(prefix + ':shape', h, z3.And(a.shape[0] == N, b.shape[0] == N, a.shape[1] == b.shape[1],
                                                           a.shape[1] + b.shape[1] == Rn),
                                {'sample_size': N, 'number_of_draws': Rn}, timeout_ms,
                                'for even number_of_draws the result has shape (sample_size, number_of_draws), two equal halves'))
            if qn.endswith('get_antithetic'):
                calls = [e for e in p.state.events if e[0] == 'generator-call']
                ok = len(calls) == 1 and z3.eq(a.elem, calls[0][1].elem)
                obs.append(Ob(prefix + ':first-half-is-generator-output', 'discharged' if ok else 'failed', 'elemwise+z3',
                              'first half is the output of uniform_draws(sample_size, number_of_draws/2), unchanged'))
            else:
                obs.append(_z3check(prefix + ':support', h + [E.P >= 0, E.P < a.size()],
                                    z3.And(a.elem >= -1, a.elem < 1, b.elem > -1, b.elem <= 1), None, timeout_ms,
                                    'first half in [-1,1), mirrored half in (-1,1]'))
            obs += _side_obligations(prefix, p, h, timeout_ms)
        except E.Unsup as e:
            obs.append(Ob(prefix + ':in-subset', 'unknown', 'elemwise', f'outside the element-wise subset: {e}'))
    return _dedup(obs)
