"""C08 (extension), thorough tier only: get_general_statistics on results objects WITH Monte-Carlo draws.

Adds, to the contract registered by contracts/c08_tables.py, the same label -> quantity clauses under
`self.data.monte_carlo` (including the rows 'Number of draws' and 'Draws generation time').  Together with the quick-tier
clauses: all results objects.  Listed in props/C08.py CONTRACT_MODULES only when the tier is `thorough` (each clause
takes several seconds of solver time, see the note in c08_tables.py).
"""
from pyvc.contract import REGISTRY

from contracts import c08_tables

REGISTRY.contracts['biogeme.results.bioResults.get_general_statistics'].ensures.update(c08_tables.clauses(monte_carlo=True))
