"""Contracts for biogeme.results (C08, C03, C14)."""
from pyvc.contract import contract, field_type

Q = 'biogeme.results.'

contract(Q + 'calc_p_value', 'C08',
         types={'t': 'float'},
         ensures={'formula': "result == 2.0 * (1.0 - app('scipy.stats.norm.cdf', abs(t)))"})

for fam, pre in (('set_std_err', ''), ('set_robust_std_err', 'robust_'), ('set_bootstrap_std_err', 'bootstrap_')):
    se, tt, pv = f'{pre}stdErr', f'{pre}tTest', f'{pre}pValue'
    contract(Q + 'Beta.' + fam, 'C08',
             types={'std_err': 'float'},
             modifies=[f'self.{se}', f'self.{tt}', f'self.{pv}'],
             ensures={
                 'se': f'self.{se} == std_err',
                 't_family': f"self.{tt} == (FMAX() if std_err == 0 else app('numpy.nan_to_num', old(self.value) / std_err))",
                 'p_family': f"self.{pv} == 2.0 * (1.0 - app('scipy.stats.norm.cdf', abs(typed(self.{tt}, 'float'))))",
             },
             replay=f"""
# the solver's model first, then the same inputs with non-saturating magnitudes
# (Phi saturates to 1.0 in floating point for |t| > 8.3, hiding a wrong argument)
from biogeme.results import Beta, calc_p_value
cands = [(num(m.get('self.value'), 1.5), num(m.get('std_err'), 2.0), num(m.get('self.robust_tTest'), 0.25)),
         (1.5, num(m.get('std_err'), 2.0) or 2.0, 0.25), (1.5, 2.0, 0.25)]
violated = False
for value, se, other_t in cands:
    b = Beta('b', value, (None, None))
    for fld in ('tTest', 'robust_tTest', 'bootstrap_tTest'):
        setattr(b, fld, other_t)
    b.{fam}(se)
    if not (b.{se} == se and b.{pv} == calc_p_value(b.{tt})):
        violated = True
        detail = f'value={{value}} std_err={{se}}: {tt}={{b.{tt}}} {pv}={{b.{pv}}} but 2(1-Phi(|t|))={{calc_p_value(b.{tt})}}'
        break
""")
