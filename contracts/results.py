"""Contracts for biogeme.results (C08, C03, C14)."""
from pyvc.contract import contract, field_type

Q = 'biogeme.results.'

field_type('bioResults', 'data', 'RawResults | None')

contract(Q + 'calc_p_value', 'C08',
         types={'t': 'float'},
         ensures={'formula': "result == 2.0 * (1.0 - app('scipy.stats.norm.cdf', abs(t)))"})

for fam, pre in (('set_std_err', ''), ('set_robust_std_err', 'robust_'), ('set_bootstrap_std_err', 'bootstrap_')):
    se, tt, pv = f'{pre}stdErr', f'{pre}tTest', f'{pre}pValue'
    contract(Q + 'Beta.' + fam, 'C08',
             types={'std_err': 'float'},
             modifies=[f'self.{se}', f'self.{tt}', f'self.{pv}'],
             ensures={
                 'se': f'self.{se} == std_err',
                 't_family': f"self.{tt} == (FMAX() if std_err == 0 else app('numpy.nan_to_num', old(self.value) / std_err))",
                 'p_family': f"self.{pv} == 2.0 * (1.0 - app('scipy.stats.norm.cdf', abs(typed(self.{tt}, 'float'))))",
             },
             replay=f"""
# the solver's model first, then the same inputs with non-saturating magnitudes
# (Phi saturates to 1.0 in floating point for |t| > 8.3, hiding a wrong argument)
from biogeme.results import Beta, calc_p_value
cands = [(num(m.get('self.value'), 1.5), num(m.get('std_err'), 2.0), num(m.get('self.robust_tTest'), 0.25)),
         (1.5, num(m.get('std_err'), 2.0) or 2.0, 0.25), (1.5, 2.0, 0.25)]
violated = False
for value, se, other_t in cands:
    b = Beta('b', value, (None, None))
    for fld in ('tTest', 'robust_tTest', 'bootstrap_tTest'):
        setattr(b, fld, other_t)
    b.{fam}(se)
    if not (b.{se} == se and b.{pv} == calc_p_value(b.{tt})):
        violated = True
        detail = f'value={{value}} std_err={{se}}: {tt}={{b.{tt}}} {pv}={{b.{pv}}} but 2(1-Phi(|t|))={{calc_p_value(b.{tt})}}'
        break
""")

contract(Q + 'bioResults._calculate_test', 'C08',
         types={'matrix': 'mat', 'i': 'int', 'j': 'int'},
         requires={'data': 'self.data is not None', 'i_rng': '0 <= i < len(self.data.betaValues)', 'j_rng': '0 <= j < len(self.data.betaValues)'},
         ensures={
             'formula': "result == ite(matrix[i, i] + matrix[j, j] - 2.0 * matrix[i, j] <= 0, FMAX(), "
                        "(self.data.betaValues[i] - self.data.betaValues[j]) / "
                        "app('numpy.sqrt', matrix[i, i] + matrix[j, j] - 2.0 * matrix[i, j]))",
         })

for _f in ('varCovar', 'robust_varCovar', 'bootstrap_varCovar', 'correlation', 'robust_correlation',
           'bootstrap_correlation', 'eigenVectors'):
    field_type('RawResults', _f, 'mat')
for _f in ('eigenValues', 'singularValues'):
    field_type('RawResults', _f, 'vec')
field_type('RawResults', 'H', 'mat | None')
field_type('RawResults', 'bhhh', 'mat')
field_type('RawResults', 'bootstrap', 'mat | None')
field_type('RawResults', 'initLogLike', 'float | None')
field_type('RawResults', 'nullLogLike', 'float | None')
field_type('RawResults', 'betas', 'list[biogeme.results.Beta]')
field_type('RawResults', 'betaNames', 'list[str]')
field_type('RawResults', 'secondOrderTable', 'dict[Any, list[float]] | None')


def _se(M):   # standard error of parameter q from matrix field M
    return f"ite(self.data.{M}[q, q] < 0, FMAX(), app('numpy.sqrt', self.data.{M}[q, q]))"


def _tstat(M):
    return (f"ite({_se(M)} == 0, FMAX(), app('numpy.nan_to_num', old(self.data.betas[q].value) / {_se(M)}))")


def _fam_clause(M, pre):
    return (f"forall(lambda q: self.data.betas[q].{pre}stdErr == {_se(M)} and "
            f"self.data.betas[q].{pre}tTest == {_tstat(M)} and "
            f"self.data.betas[q].{pre}pValue == 2.0 * (1.0 - app('scipy.stats.norm.cdf', abs(typed(self.data.betas[q].{pre}tTest, 'float')))), 0, LIM)")


def _corr(M):
    return (f"same(self.data.{'correlation' if M == 'varCovar' else M.replace('varCovar', 'correlation')}, "
            f"ite(typed((app('numpy.diag', self.data.{M}) > 0).all(), 'bool'), "
            f"app('scipy.linalg.inv', app('numpy.diag', app('numpy.sqrt', app('numpy.diag', self.data.{M})))).dot("
            f"self.data.{M}.dot(app('scipy.linalg.inv', app('numpy.diag', app('numpy.sqrt', app('numpy.diag', self.data.{M})))))), "
            f"app('numpy.full_like', self.data.{M}, FMAX())))")


_NATIVE_REPLAY = """
# native recomputation of every C08 formula on generated raw outcomes (K = 1..4, with/without
# null likelihood and bootstrap, singular Hessians) through the real _calculate_stats
import sys
sys.path.insert(0, '/verif/bounded')
import c08_native
n, bad = c08_native.run(cases=24, seed=0)
violated = bool(bad)
detail = f'{n} generated raw outcomes; first mismatch: {bad[0] if bad else None}'
"""

_STATS_REQ = {
    'n': 'implies(self.data is not None, self.data.nparam >= 0 and len(self.data.betas) == self.data.nparam '
         'and len(self.data.betaValues) == self.data.nparam and len(self.data.betaNames) == self.data.nparam)',
    'distinct_betas': 'implies(self.data is not None, forall(lambda a: forall(lambda b: implies(a != b, '
                      'self.data.betas[a] is not self.data.betas[b]), 0, self.data.nparam), 0, self.data.nparam))',
    'N': 'implies(self.data is not None, self.data.sampleSize > 0)',
}

contract(Q + 'bioResults._calculate_stats', 'C08',
         requires=_STATS_REQ,
         modifies=['*.likelihoodRatioTestNull', '*.likelihoodRatioTest', '*.rhoSquare', '*.rhoSquareNull',
                   '*.rhoBarSquare', '*.rhoBarSquareNull', '*.akaike', '*.bayesian', '*.eigenValues',
                   '*.eigenVectors', '*.singularValues', '*.varCovar', '*.correlation', '*.robust_varCovar',
                   '*.robust_correlation', '*.bootstrap_varCovar', '*.bootstrap_correlation',
                   '*.secondOrderTable', '*.smallestEigenValue', '*.smallestEigenVector',
                   '*.smallestSingularValue', '*.largestEigenValue', '*.largestEigenVector',
                   '*.largestSingularValue', '*.conditionNumber',
                   '*.stdErr', '*.tTest', '*.pValue', '*.robust_stdErr', '*.robust_tTest', '*.robust_pValue',
                   '*.bootstrap_stdErr', '*.bootstrap_tTest', '*.bootstrap_pValue'],
         ensures={
             'lr_null': 'implies(self.data is not None, same(self.data.likelihoodRatioTestNull, '
                        'ite(self.data.nullLogLike is None, None, -2.0 * (self.data.nullLogLike - self.data.logLike))))',
             'lr_init': 'implies(self.data is not None, same(self.data.likelihoodRatioTest, '
                        'ite(self.data.initLogLike is None, None, -2.0 * (self.data.initLogLike - self.data.logLike))))',
             'rho2': "implies(self.data is not None and self.data.initLogLike is not None and self.data.initLogLike != 0, "
                     "self.data.rhoSquare == app('numpy.nan_to_num', 1.0 - self.data.logLike / self.data.initLogLike))",
             'rho2_null': "implies(self.data is not None and self.data.nullLogLike is not None and self.data.nullLogLike != 0, "
                          "self.data.rhoSquareNull == app('numpy.nan_to_num', 1.0 - self.data.logLike / self.data.nullLogLike))",
             'rhobar2': "implies(self.data is not None and self.data.initLogLike is not None and self.data.initLogLike != 0, "
                        "self.data.rhoBarSquare == app('numpy.nan_to_num', 1.0 - (self.data.logLike - self.data.nparam) / self.data.initLogLike))",
             'rhobar2_null': "implies(self.data is not None and self.data.nullLogLike is not None and self.data.nullLogLike != 0, "
                             "self.data.rhoBarSquareNull == app('numpy.nan_to_num', 1.0 - (self.data.logLike - self.data.nparam) / self.data.nullLogLike))",
             # round 3 (m1): ... and no rho-square is reported when its reference likelihood is absent or zero (whole-result clauses)
             'rho2_undefined': "implies(self.data is not None and (self.data.initLogLike is None or self.data.initLogLike == 0), self.data.rhoSquare is None)",
             'rho2_null_undefined': "implies(self.data is not None and (self.data.nullLogLike is None or self.data.nullLogLike == 0), self.data.rhoSquareNull is None)",
             'rhobar2_undefined': "implies(self.data is not None and (self.data.initLogLike is None or self.data.initLogLike == 0), self.data.rhoBarSquare is None)",
             'rhobar2_null_undefined': "implies(self.data is not None and (self.data.nullLogLike is None or self.data.nullLogLike == 0), self.data.rhoBarSquareNull is None)",
             'aic': 'implies(self.data is not None, self.data.akaike == 2.0 * self.data.nparam - 2.0 * self.data.logLike)',
             'bic': "implies(self.data is not None, self.data.bayesian == -2.0 * self.data.logLike + self.data.nparam * app('numpy.log', self.data.sampleSize))",
             'varcovar': "implies(self.data is not None and self.data.H is not None, same(self.data.varCovar, "
                         "-app('scipy.linalg.pinv', app('numpy.nan_to_num', self.data.H))))",
             'robust': "implies(self.data is not None and self.data.H is not None, same(self.data.robust_varCovar, "
                       "self.data.varCovar.dot(self.data.bhhh.dot(self.data.varCovar))))",
             'bootstrap': "implies(self.data is not None and self.data.H is not None and self.data.bootstrap is not None, "
                          "same(self.data.bootstrap_varCovar, app('numpy.atleast_2d', app('numpy.cov', self.data.bootstrap, rowvar=False))))",
             'family_classical': "implies(self.data is not None and self.data.H is not None, "
                                 + _fam_clause('varCovar', '').replace('LIM', 'self.data.nparam') + ")",
             'family_robust': "implies(self.data is not None and self.data.H is not None, "
                              + _fam_clause('robust_varCovar', 'robust_').replace('LIM', 'self.data.nparam') + ")",
             'family_bootstrap': "implies(self.data is not None and self.data.H is not None and self.data.bootstrap is not None, "
                                 + _fam_clause('bootstrap_varCovar', 'bootstrap_').replace('LIM', 'self.data.nparam') + ")",
             'corr_classical': "implies(self.data is not None and self.data.H is not None, " + _corr('varCovar') + ")",
             'corr_robust': "implies(self.data is not None and self.data.H is not None, " + _corr('robust_varCovar') + ")",
             'corr_bootstrap': "implies(self.data is not None and self.data.H is not None and self.data.bootstrap is not None, " + _corr('bootstrap_varCovar') + ")",
             # round 3 (m1, mutation survivors): the reported eigen-structure is that of MINUS the Hessian, and the condition number is
             # largest / smallest eigenvalue (float max when the smallest is zero)
             'eigen_structure_of_minus_hessian': "implies(self.data is not None and self.data.H is not None, "
                                                 "same(self.data.eigenValues, app('scipy.linalg.eigh', -app('numpy.nan_to_num', self.data.H))[0]) and "
                                                 "same(self.data.eigenVectors, app('scipy.linalg.eigh', -app('numpy.nan_to_num', self.data.H))[1]))",
             'singular_values_of_minus_hessian': "implies(self.data is not None and self.data.H is not None, "
                                                 "same(self.data.singularValues, app('scipy.linalg.svd', -app('numpy.nan_to_num', self.data.H))[1]))",
             'extreme_eigenvalues': "implies(self.data is not None and self.data.H is not None, "
                                    "same(self.data.smallestEigenValue, self.data.eigenValues[app('numpy.argmin', self.data.eigenValues)]) and "
                                    "same(self.data.largestEigenValue, self.data.eigenValues[app('numpy.argmax', self.data.eigenValues)]))",
             'condition_number': "implies(self.data is not None and self.data.H is not None, "
                                 "self.data.conditionNumber == ite(self.data.smallestEigenValue != 0, "
                                 "self.data.largestEigenValue / self.data.smallestEigenValue, FMAX()))",
         },
         replay=_NATIVE_REPLAY,
         invariants={
             1: {'clauses': {'done': _fam_clause('varCovar', '').replace('LIM', '_k'),
                             'values': 'forall(lambda q: self.data.betas[q].value == old(self.data.betas[q].value), 0, self.data.nparam)'},
                 'modifies': ['stdErr', 'tTest', 'pValue'], 'modifies_exact': True},
             2: {'clauses': {'done': _fam_clause('robust_varCovar', 'robust_').replace('LIM', '_k')},
                 'modifies': ['robust_stdErr', 'robust_tTest', 'robust_pValue'], 'modifies_exact': True},
             3: {'clauses': {'done': _fam_clause('bootstrap_varCovar', 'bootstrap_').replace('LIM', '_k')},
                 'modifies': ['bootstrap_stdErr', 'bootstrap_tTest', 'bootstrap_pValue'], 'modifies_exact': True},
         })
