"""Round 3 (tag m1): static obligation `locals-assigned-before-use` for the functions under a verified contract of
C02 / C04 / C07 / C08 / C15.

Why it exists.  The symbolic executor gives a local that is bound on some paths only an ARBITRARY value on the other
paths after a join, and it drops `logger.*` / `warnings.warn` calls together with their arguments (DESIGN 1.3).  A change
that removes the default binding of a local (`hmsg = ''` before `if hessian: hmsg = ...`, or the `error_msg = ...` line in
front of `raise ValueError(error_msg)`) therefore keeps every deductive obligation discharged, although the real function
now ends in UnboundLocalError instead of returning / raising what its contract says (found by the mutation self-test:
three mutants of BIOGEME.calculate_likelihood_and_derivatives).  This analysis decides, on the real AST (no import), that
on every structured path through the function each local is bound before it is read - including the reads inside dropped
logger calls, f-strings and exception arguments.

Verdicts (README policy for static obligations):
  discharged  every read of a local is preceded by a binding on every syntactic path;
  failed      a path reaches a read of a local without binding it, and the branch tests that matter for that local (the
              `if`s holding a binding of it, the `if`s enclosing the read) are syntactically independent (at most one
              of them, or no variable / field chain in common): a violating structure is positively established;
  unknown     a path exists only syntactically (correlated tests, a loop that would have to run zero times, an exception
              edge, `del`, nested scopes writing the name): the replay of the property decides on the real code.
"""
import ast
import time

MAX_STATES = 4000


class _Path:
    __slots__ = ('bound', 'dec', 'soft', 'softvars')

    def __init__(self, bound, dec, soft, softvars=frozenset()):
        # bound names, ((if id, outcome), ...), everything soft, names whose absence is only syntactic on this path
        self.bound, self.dec, self.soft, self.softvars = bound, dec, soft, softvars

    def key(self):
        return (self.bound, self.dec, self.soft, self.softvars)


def _names_in(node):
    return {n.id for n in ast.walk(node) if isinstance(n, ast.Name)}


def _chains(node):
    """maximal dotted chains read by an expression: `self.a.b == x` -> {'self.a.b', 'x'}"""
    out = set()

    def walk(n):
        if isinstance(n, (ast.Attribute, ast.Name)):
            parts, cur = [], n
            while isinstance(cur, ast.Attribute):
                parts.append(cur.attr)
                cur = cur.value
            if isinstance(cur, ast.Name):
                out.add('.'.join([cur.id] + parts[::-1]))
                return
        for ch in ast.iter_child_nodes(n):
            walk(ch)

    walk(node)
    return out


def _may_correlate(t1, t2):
    """two branch tests mention the same variable / field (or one mentions an object and the other a field of it)"""
    for a in _chains(t1):
        for b in _chains(t2):
            if a == b or a.startswith(b + '.') or b.startswith(a + '.'):
                return True
    return False


def analyse(fn):
    """-> list of (name, lineno, 'failed' | 'unknown', reason)"""
    params = {a.arg for a in fn.args.posonlyargs + fn.args.args + fn.args.kwonlyargs}
    if fn.args.vararg:
        params.add(fn.args.vararg.arg)
    if fn.args.kwarg:
        params.add(fn.args.kwarg.arg)
    declared_outer, local_names, soft_all = set(), set(), []

    def scan(node, top=True):
        for ch in ast.iter_child_nodes(node):
            if isinstance(ch, (ast.FunctionDef, ast.AsyncFunctionDef, ast.ClassDef)):
                local_names.add(ch.name)
                for sub in ast.walk(ch):
                    if isinstance(sub, ast.Nonlocal):
                        soft_all.append(f'nested scope rebinds {sub.names}')
                continue
            if isinstance(ch, ast.Lambda):
                continue
            if isinstance(ch, (ast.ListComp, ast.SetComp, ast.DictComp, ast.GeneratorExp)):
                for sub in ast.walk(ch):
                    if isinstance(sub, ast.NamedExpr):
                        local_names.add(sub.target.id)
                continue
            if isinstance(ch, (ast.Global, ast.Nonlocal)):
                declared_outer.update(ch.names)
            if isinstance(ch, ast.Name) and isinstance(ch.ctx, (ast.Store, ast.Del)):
                local_names.add(ch.id)
            if isinstance(ch, ast.ExceptHandler) and ch.name:
                local_names.add(ch.name)
            if isinstance(ch, (ast.Import, ast.ImportFrom)):
                for al in ch.names:
                    local_names.add((al.asname or al.name).split('.')[0])
            scan(ch, False)

    scan(fn)
    all_tracked = (local_names - declared_outer) - params
    stores = []          # (line, text of the stored name / attribute chain / subscripted object)
    for n in ast.walk(fn):
        if isinstance(n, (ast.Name, ast.Attribute, ast.Subscript)) and isinstance(n.ctx, (ast.Store, ast.Del)):
            stores.append((n.lineno, ast.unparse(n)))
            if isinstance(n, ast.Subscript):
                stores.append((n.lineno, ast.unparse(n.value)))

    def run(tracked, relevant, flow):
        """flow=True: classic path-insensitive pass (one state, intersection at joins) that finds the candidate names;
        flow=False: path enumeration for the candidates, branch decisions kept for the `relevant` ifs only"""
        findings = {}          # (name, lineno) -> (status, reason)
        parents = {}
        for n in ast.walk(fn):
            for c in ast.iter_child_nodes(n):
                parents[id(c)] = n
        # If nodes that hold a binding of each tracked name
        binders = {}
        for n in ast.walk(fn):
            if isinstance(n, ast.If):
                for sub in ast.walk(n):
                    if isinstance(sub, ast.Name) and isinstance(sub.ctx, ast.Store) and sub.id in tracked:
                        binders.setdefault(sub.id, set()).add(id(n))
        if_nodes = {id(n): n for n in ast.walk(fn) if isinstance(n, ast.If)}

        def enclosing_ifs(node):
            out = set()
            p = parents.get(id(node))
            while p is not None:
                if isinstance(p, ast.If):
                    out.add(id(p))
                p = parents.get(id(p))
            return out

        def record(name, node, path, why=''):
            rel = (binders.get(name, set()) | enclosing_ifs(node)) & {d for d, _ in path.dec}
            tests = [if_nodes[i].test for i in rel]
            shared = False
            for a in range(len(tests)):
                for b in range(a + 1, len(tests)):
                    if _may_correlate(tests[a], tests[b]):
                        shared = True
            # the same call-free test taken both ways, with no store to anything it mentions in between: not a path
            # (calls between the two tests are assumed not to change the outcome of a test that contains no call)
            seen_t = {}
            for d, o in path.dec:
                t = if_nodes[d].test
                if any(isinstance(x, ast.Call) for x in ast.walk(t)):
                    continue
                txt = ast.unparse(t)
                if txt in seen_t and seen_t[txt][1] != o:
                    la, lb = sorted((seen_t[txt][0].lineno, if_nodes[d].lineno))
                    chains = {ast.unparse(x) for x in ast.walk(t) if isinstance(x, (ast.Name, ast.Attribute, ast.Subscript))}
                    if not any(la < ln < lb and any(c == w or c.startswith(w + '.') or c.startswith(w + '[') for c in chains) for ln, w in stores):
                        return
                seen_t.setdefault(txt, (if_nodes[d], o))
            status = 'unknown' if (path.soft or name in path.softvars or shared or soft_all) else 'failed'
            decs = ', '.join(f'`{ast.unparse(if_nodes[d].test)[:50]}` is {o}' for d, o in path.dec if d in rel)
            reason = (f'local `{name}` is read at line {node.lineno} without a binding on the path where {decs or "(no branch matters)"}'
                      + (f' [{why or ("correlated tests" if shared else "soft edge")}]' if status == 'unknown' else ''))
            k = (name, node.lineno)
            if k not in findings or (findings[k][0] == 'unknown' and status == 'failed'):
                findings[k] = (status, reason)

        def reads(expr, paths, bound_extra=frozenset()):
            """all Name loads of tracked names in expr (comprehension targets excluded) must be bound"""
            if expr is None:
                return

            def walk(node, shadow):
                if isinstance(node, (ast.Lambda, ast.FunctionDef, ast.AsyncFunctionDef, ast.ClassDef)):
                    return            # evaluated when called
                if isinstance(node, (ast.ListComp, ast.SetComp, ast.DictComp, ast.GeneratorExp)):
                    sh = set(shadow)
                    for g in node.generators:
                        walk(g.iter, sh)
                        sh |= {n.id for n in ast.walk(g.target) if isinstance(n, ast.Name)}
                        for c in g.ifs:
                            walk(c, sh)
                    for part in ((node.key, node.value) if isinstance(node, ast.DictComp) else (node.elt,)):
                        walk(part, sh)
                    return
                if isinstance(node, ast.Name) and isinstance(node.ctx, ast.Load) and node.id in tracked and node.id not in shadow:
                    for p in paths:
                        if node.id not in p.bound:
                            record(node.id, node, p)
                for ch in ast.iter_child_nodes(node):
                    walk(ch, shadow)

            walk(expr, set(bound_extra))

        def bind(target, paths):
            names = {n.id for n in ast.walk(target) if isinstance(n, ast.Name) and isinstance(n.ctx, ast.Store) and n.id in tracked}
            # attribute / subscript targets read their base
            for n in ast.walk(target):
                if isinstance(n, (ast.Attribute, ast.Subscript)):
                    reads(n.value, paths)
                    if isinstance(n, ast.Subscript):
                        reads(n.slice, paths)
            if names:
                for p in paths:
                    p.bound = p.bound | names
            return paths

        def dedup(paths):
            seen, out = set(), []
            for p in paths:
                k = p.key()
                if k not in seen:
                    seen.add(k)
                    out.append(p)
            if flow and len(out) > 1:
                return [_Path(frozenset.intersection(*[p.bound for p in out]), (), any(p.soft for p in out),
                              frozenset().union(*[p.softvars for p in out]))]
            if len(out) > MAX_STATES:
                # give up on path sensitivity: keep the intersection, soft
                inter = frozenset.intersection(*[p.bound for p in out])
                return [_Path(inter, (), True)]
            return out

        def block(stmts, paths):
            """-> (paths falling through, paths leaving the enclosing loop by break, by continue)"""
            brk, cont = [], []
            for s in stmts:
                if not paths:
                    break
                paths, b, c = stmt(s, paths)
                brk += b
                cont += c
                paths = dedup(paths)
            return paths, brk, cont

        def fork(paths):
            return [_Path(p.bound, p.dec, p.soft, p.softvars) for p in paths]

        def stmt(s, paths):
            if isinstance(s, (ast.FunctionDef, ast.AsyncFunctionDef, ast.ClassDef)):
                for d in s.decorator_list:
                    reads(d, paths)
                for p in paths:
                    p.bound = p.bound | ({s.name} & tracked)
                return paths, [], []
            if isinstance(s, ast.Assign):
                reads(s.value, paths)
                for t in s.targets:
                    bind(t, paths)
                return paths, [], []
            if isinstance(s, ast.AnnAssign):
                if s.value is not None:
                    reads(s.value, paths)
                    bind(s.target, paths)
                return paths, [], []
            if isinstance(s, ast.AugAssign):
                reads(s.value, paths)
                if isinstance(s.target, ast.Name):
                    reads(ast.Name(id=s.target.id, ctx=ast.Load(), lineno=s.lineno, col_offset=0), paths)
                bind(s.target, paths)
                return paths, [], []
            if isinstance(s, ast.Expr):
                reads(s.value, paths)
                return paths, [], []
            if isinstance(s, ast.Return):
                reads(s.value, paths)
                return [], [], []
            if isinstance(s, ast.Raise):
                reads(s.exc, paths)
                reads(s.cause, paths)
                return [], [], []
            if isinstance(s, (ast.Pass, ast.Global, ast.Nonlocal)):
                return paths, [], []
            if isinstance(s, (ast.Import, ast.ImportFrom)):
                names = {(al.asname or al.name).split('.')[0] for al in s.names} & tracked
                for p in paths:
                    p.bound = p.bound | names
                return paths, [], []
            if isinstance(s, ast.Assert):
                reads(s.test, paths)
                reads(s.msg, paths)
                return paths, [], []
            if isinstance(s, ast.Delete):
                for p in paths:
                    p.soft = True
                return paths, [], []
            if isinstance(s, ast.Break):
                return [], paths, []
            if isinstance(s, ast.Continue):
                return [], [], paths
            if isinstance(s, ast.If):
                reads(s.test, paths)
                yes, no = fork(paths), fork(paths)
                if not flow and id(s) in relevant:
                    for p in yes:
                        p.dec = p.dec + ((id(s), True),)
                    for p in no:
                        p.dec = p.dec + ((id(s), False),)
                a, b1, c1 = block(s.body, yes)
                b, b2, c2 = block(s.orelse, no)
                return a + b, b1 + b2, c1 + c2
            if isinstance(s, (ast.For, ast.AsyncFor)):
                reads(s.iter, paths)
                zero = fork(paths)
                body_binds = {n.id for x in s.body for n in ast.walk(x) if isinstance(n, ast.Name) and isinstance(n.ctx, ast.Store)} \
                    | {n.id for n in ast.walk(s.target) if isinstance(n, ast.Name)}
                for p in zero:
                    p.softvars = p.softvars | (body_binds & tracked)        # unbound only if the iterable is empty
                once = fork(paths)
                bind(s.target, once)
                after, brk, cont = block(s.body, once)
                # a second iteration starts with at least what one iteration bound: nothing new to learn for bindings
                done = after + cont
                out, b2, c2 = block(s.orelse, zero + fork(done))
                return out + brk, b2, c2
            if isinstance(s, ast.While):
                reads(s.test, paths)
                zero = fork(paths)
                const_true = isinstance(s.test, ast.Constant) and bool(s.test.value)
                body_binds = {n.id for x in s.body for n in ast.walk(x) if isinstance(n, ast.Name) and isinstance(n.ctx, ast.Store)}
                for p in zero:
                    p.softvars = p.softvars | (body_binds & tracked)
                once = fork(paths)
                after, brk, cont = block(s.body, once)
                done = after + cont
                reads(s.test, done)
                out, b2, c2 = block(s.orelse, ([] if const_true else zero) + fork(done))
                return out + brk, b2, c2
            if isinstance(s, (ast.With, ast.AsyncWith)):
                for it in s.items:
                    reads(it.context_expr, paths)
                    if it.optional_vars is not None:
                        bind(it.optional_vars, paths)
                return block(s.body, paths)
            if isinstance(s, ast.Try) or type(s).__name__ == 'TryStar':
                entry = fork(paths)
                a, b1, c1 = block(s.body, paths)
                outs, brk, cont = [], list(b1), list(c1)
                # a handler may be entered after any prefix of the body: the bindings at entry are certain, the rest is not
                for h in s.handlers:
                    hp = fork(entry)
                    try_binds = frozenset(n.id for x in s.body for n in ast.walk(x) if isinstance(n, ast.Name) and isinstance(n.ctx, ast.Store)) & tracked
                    for p in hp:
                        p.softvars = p.softvars | try_binds
                        if h.name and h.name in tracked:
                            p.bound = p.bound | {h.name}
                    if h.type is not None:
                        reads(h.type, hp)
                    o, b, c = block(h.body, hp)
                    outs += o
                    brk += b
                    cont += c
                o, b, c = block(s.orelse, a)
                outs += o
                brk += b
                cont += c
                if s.finalbody:
                    outs, b, c = block(s.finalbody, dedup(outs))
                    brk += b
                    cont += c
                return outs, brk, cont
            if isinstance(s, ast.Match):
                reads(s.subject, paths)
                outs, brk, cont = [], [], []
                for case in s.cases:
                    cp = fork(paths)
                    for p in cp:
                        p.soft = True
                        p.bound = p.bound | ({n for n in (getattr(x, 'name', None) for x in ast.walk(case.pattern)) if n} & tracked)
                    o, b, c = block(case.body, cp)
                    outs += o
                    brk += b
                    cont += c
                return outs + fork(paths), brk, cont
            # anything else: reads of every expression child, nothing bound; mark soft
            for p in paths:
                p.soft = True
            for ch in ast.iter_child_nodes(s):
                if isinstance(ch, ast.expr):
                    reads(ch, paths)
            return paths, [], []

        block(fn.body, [_Path(frozenset(), (), False)])
        return findings

    first = run(all_tracked, None, True)
    if not first:
        return []
    cands = {name for (name, _line) in first}
    parents0 = {}
    for n in ast.walk(fn):
        for ch in ast.iter_child_nodes(n):
            parents0[id(ch)] = n
    relevant = set()
    for n in ast.walk(fn):
        if isinstance(n, ast.Name) and n.id in cands:
            q = parents0.get(id(n))
            while q is not None:
                if isinstance(q, ast.If):
                    relevant.add(id(q))
                q = parents0.get(id(q))
    findings = run(cands, relevant, False)
    return [(name, line, st, why) for (name, line), (st, why) in sorted(findings.items(), key=lambda kv: kv[0][1])]


def extras(prop: str, contract_modules=None):
    """one static obligation per function under a VERIFIED contract of `prop` (the contract modules are loaded already)."""
    from pyvc.contract import REGISTRY
    from pyvc.driver import Extra
    from pyvc.repo import get_repo
    repo = get_repo()
    out, seen = [], set()
    for key, c in REGISTRY.contracts.items():
        if prop not in c.props or not c.verify or c.qualname in seen:
            continue
        seen.add(c.qualname)
        t0 = time.time()
        short = c.qualname.replace('biogeme.', '', 1)
        name = f'{prop}:static:{short}:locals-assigned-before-use'
        fi = repo.function(c.qualname)
        if fi is None:
            out.append(Extra(name, 'static', 'unknown', 'ast-static', 0.0, 'function not found'))
            continue
        try:
            found = analyse(fi.node)
        except RecursionError:      # pragma: no cover
            out.append(Extra(name, 'static', 'unknown', 'ast-static', round(time.time() - t0, 4), 'analysis gave up (recursion)'))
            continue
        if not found:
            out.append(Extra(name, 'static', 'discharged', 'ast-static', round(time.time() - t0, 4),
                             'every local is bound before it is read on every syntactic path (reads in dropped logger calls included)'))
            continue
        status = 'failed' if any(f[2] == 'failed' for f in found) else 'unknown'
        first = next(f for f in found if f[2] == status)
        out.append(Extra(name, 'static', status, 'ast-static', round(time.time() - t0, 4), first[3] + ' -> UnboundLocalError on that path',
                         {'findings': [{'local': f[0], 'line': f[1], 'status': f[2], 'why': f[3]} for f in found[:6]]}))
    return out
