"""C08 (extension): the tabular views of results.py that are inside the engine's subset.

`bioResults.get_general_statistics` builds a plain dict label -> GeneralStatistic(value, format): proved for ALL results
objects: every label holds the raw quantity it names (one post clause per label, plus one clause per combination of the
five conditions under which optional rows are written -- together: all results objects); optional rows are present
whenever their quantity exists.  The pandas-based views are decided by static obligations (specs/c08_static.py) and the bounded
stand-in bounded/c08_tables.py.
"""
from pyvc.contract import contract, field_type

Q = 'biogeme.results.'

for _f, _t in (('nparam', 'int'), ('sampleSize', 'int'), ('numberOfObservations', 'int'), ('excludedData', 'int'),
               ('logLike', 'float'), ('akaike', 'float'), ('bayesian', 'float'), ('gradientNorm', 'float'),
               ('likelihoodRatioTest', 'float | None'), ('likelihoodRatioTestNull', 'float | None'),
               ('rhoSquare', 'float | None'), ('rhoSquareNull', 'float | None'), ('rhoBarSquare', 'float | None'),
               ('rhoBarSquareNull', 'float | None'), ('monte_carlo', 'bool'), ('numberOfDraws', 'int'),
               ('numberOfThreads', 'int'), ('typesOfDraws', 'dict[str, str]')):
    field_type('RawResults', _f, _t)

# label -> raw field of self.data (the specification of "the quantity its label names")
GENERAL_STATISTICS = {
    'Number of estimated parameters': ('nparam', 'True'),
    'Sample size': ('sampleSize', 'True'),
    'Observations': ('numberOfObservations', 'self.data.sampleSize != self.data.numberOfObservations'),
    'Excluded observations': ('excludedData', 'True'),
    'Null log likelihood': ('nullLogLike', 'self.data.nullLogLike is not None'),
    'Init log likelihood': ('initLogLike', 'True'),
    'Final log likelihood': ('logLike', 'True'),
    'Likelihood ratio test for the null model': ('likelihoodRatioTestNull', 'self.data.nullLogLike is not None'),
    'Rho-square for the null model': ('rhoSquareNull', 'self.data.nullLogLike is not None'),
    'Rho-square-bar for the null model': ('rhoBarSquareNull', 'self.data.nullLogLike is not None'),
    'Likelihood ratio test for the init. model': ('likelihoodRatioTest', 'True'),
    'Rho-square for the init. model': ('rhoSquare', 'True'),
    'Rho-square-bar for the init. model': ('rhoBarSquare', 'True'),
    'Akaike Information Criterion': ('akaike', 'True'),
    'Bayesian Information Criterion': ('bayesian', 'True'),
    'Final gradient norm': ('gradientNorm', 'True'),
    'Number of draws': ('numberOfDraws', 'self.data.monte_carlo'),
    'Draws generation time': ('drawsProcessingTime', 'self.data.monte_carlo'),
    'Bootstrapping time': ('bootstrap_time', 'self.data.bootstrap is not None'),
    'Nbr of threads': ('numberOfThreads', 'True'),
}


def _slug(label):
    return ''.join(c if c.isalnum() else '_' for c in label).strip('_')


# the five conditions under which optional rows are written
CONDITIONS = {
    'free': 'self.number_of_free_parameters() != self.data.nparam',
    'obs': 'self.data.sampleSize != self.data.numberOfObservations',
    'null': 'self.data.nullLogLike is not None',
    'mc': 'self.data.monte_carlo',
    'boot': 'self.data.bootstrap is not None',
}
_COND_OF = {'self.data.sampleSize != self.data.numberOfObservations': 'obs', 'self.data.nullLogLike is not None': 'null',
            'self.data.monte_carlo': 'mc', 'self.data.bootstrap is not None': 'boot', 'True': None}


def _row(label, field):
    return f"({label!r} in result and same(result[{label!r}].value, self.data.{field}))"


_FREE_ROW = ("('Number of free parameters' in result and "
             "result['Number of free parameters'].value == self.number_of_free_parameters())")
_ALL = ' and '.join(f'({c})' for c in CONDITIONS.values())

# (1) one clause per label, on the results objects for which every optional row is written (names the row that is wrong)
_ENS = {}
for _label, (_field, _when) in GENERAL_STATISTICS.items():
    _ENS['row_' + _slug(_label)] = f"implies({_ALL}, {_row(_label, _field)})"
_ENS['row_Number_of_free_parameters'] = f"implies({_ALL}, {_FREE_ROW})"

# (2) one clause per combination of the five conditions (all results objects are in exactly one): every row written in
#     that combination holds its quantity.  (Stated per combination because the solver is slow on the merged encoding of
#     six conditional allocations; with the conditions fixed each clause is discharged in a fraction of a second.)
for _bits in range(32):
    _on = {c: bool(_bits >> k & 1) for k, c in enumerate(CONDITIONS)}
    _scen = ' and '.join(f"({src})" if _on[c] else f"(not ({src}))" for c, src in CONDITIONS.items())
    _rows = [_row(l, f) for l, (f, w) in GENERAL_STATISTICS.items() if _COND_OF[w] is None or _on[_COND_OF[w]]]
    if _on['free']:
        _rows.append(_FREE_ROW)
    _name = 'rows_when_' + '_'.join(('' if _on[c] else 'no-') + c for c in CONDITIONS)
    _ENS[_name] = f"implies({_scen}, {' and '.join(_rows)})"

_GS_REPLAY = """
import sys, warnings
warnings.simplefilter('ignore')
sys.path.insert(0, '/verif/bounded')
import c08_tables
n, bad = c08_tables.run_views(cases=8, seed=0, only='general_statistics')
slug = lambda t: ''.join(c if c.isalnum() else '_' for c in t).strip('_')
row = payload.get('obligation', '').split(':row_')[-1].split('#')[0]
mine = [f for f in bad if slug(str(f.get('check')).split(':', 1)[-1]) == row]
violated = bool(bad)
detail = f'{n} cells compared with the raw fields; first mismatch: {(mine or bad)[0] if bad else None}'
"""

# assumed: counting the parameters away from their bounds reads, and changes, nothing but the estimates
contract(Q + 'bioResults.number_of_free_parameters', 'C08', pure=True, verify=False, returns='int',
         reads=['betas'],
         note='assumed pure (generator expression over self.data.betas; compared natively in bounded/c08_tables.py)')

contract(Q + 'bioResults.get_general_statistics', 'C08',
         requires={'data': 'self.data is not None'},
         ensures=_ENS,
         replay=_GS_REPLAY)
