"""C08 (extension): the tabular views of results.py that are inside the engine's subset.

`bioResults.get_general_statistics` builds a plain dict label -> GeneralStatistic(value, format): proved for ALL results
objects without Monte-Carlo draws (quick tier) and with them (thorough tier, contracts/c08_tables_mc.py): every label holds
the raw quantity it names (one post clause per label); optional rows are present whenever their quantity exists.  The pandas-based views are decided by static obligations (specs/c08_static.py) and the bounded
stand-in bounded/c08_tables.py.
"""
from pyvc.contract import contract, field_type

Q = 'biogeme.results.'

for _f, _t in (('nparam', 'int'), ('sampleSize', 'int'), ('numberOfObservations', 'int'), ('excludedData', 'int'),
               ('logLike', 'float'), ('akaike', 'float'), ('bayesian', 'float'), ('gradientNorm', 'float'),
               ('likelihoodRatioTest', 'float | None'), ('likelihoodRatioTestNull', 'float | None'),
               ('rhoSquare', 'float | None'), ('rhoSquareNull', 'float | None'), ('rhoBarSquare', 'float | None'),
               ('rhoBarSquareNull', 'float | None'), ('monte_carlo', 'bool'), ('numberOfDraws', 'int'),
               ('numberOfThreads', 'int'), ('typesOfDraws', 'dict[str, str]')):
    field_type('RawResults', _f, _t)

# label -> raw field of self.data (the specification of "the quantity its label names")
GENERAL_STATISTICS = {
    'Number of estimated parameters': ('nparam', 'True'),
    'Sample size': ('sampleSize', 'True'),
    'Observations': ('numberOfObservations', 'self.data.sampleSize != self.data.numberOfObservations'),
    'Excluded observations': ('excludedData', 'True'),
    'Null log likelihood': ('nullLogLike', 'self.data.nullLogLike is not None'),
    'Init log likelihood': ('initLogLike', 'True'),
    'Final log likelihood': ('logLike', 'True'),
    'Likelihood ratio test for the null model': ('likelihoodRatioTestNull', 'self.data.nullLogLike is not None'),
    'Rho-square for the null model': ('rhoSquareNull', 'self.data.nullLogLike is not None'),
    'Rho-square-bar for the null model': ('rhoBarSquareNull', 'self.data.nullLogLike is not None'),
    'Likelihood ratio test for the init. model': ('likelihoodRatioTest', 'True'),
    'Rho-square for the init. model': ('rhoSquare', 'True'),
    'Rho-square-bar for the init. model': ('rhoBarSquare', 'True'),
    'Akaike Information Criterion': ('akaike', 'True'),
    'Bayesian Information Criterion': ('bayesian', 'True'),
    'Final gradient norm': ('gradientNorm', 'True'),
    'Number of draws': ('numberOfDraws', 'self.data.monte_carlo'),
    'Draws generation time': ('drawsProcessingTime', 'self.data.monte_carlo'),
    'Bootstrapping time': ('bootstrap_time', 'self.data.bootstrap is not None'),
    'Nbr of threads': ('numberOfThreads', 'True'),
}


def _slug(label):
    return ''.join(c if c.isalnum() else '_' for c in label).strip('_')


def _row(label, field):
    return f"({label!r} in result and same(result[{label!r}].value, self.data.{field}))"


_FREE = 'self.number_of_free_parameters() != self.data.nparam'
_FREE_ROW = ("('Number of free parameters' in result and "
             "result['Number of free parameters'].value == self.number_of_free_parameters())")
_MC = 'self.data.monte_carlo'


def clauses(monte_carlo: bool) -> dict:
    """one clause per label: on every results object (with / without Monte-Carlo draws) on which the row's quantity
    exists, the row is present and holds that quantity"""
    guard = _MC if monte_carlo else f'not {_MC}'
    suffix = '_with_draws' if monte_carlo else ''
    out = {}
    for label, (field, when) in GENERAL_STATISTICS.items():
        if when == _MC and not monte_carlo:
            continue
        cond = guard if when in ('True', _MC) else f'{guard} and {when}'
        out['row_' + _slug(label) + suffix] = f"implies({cond}, {_row(label, field)})"
    out['row_Number_of_free_parameters' + suffix] = f"implies({guard} and {_FREE}, {_FREE_ROW})"
    return out


# Quick tier: all results objects without Monte-Carlo draws (each clause is discharged in a fraction of a second).
# The same clauses for results objects WITH draws are added in the thorough tier by contracts/c08_tables_mc.py: the
# comprehension that builds the 'Types of draws' row is encoded with quantified frame conditions, every row written
# before it must be read through them, and each clause then costs several seconds of solver time.
_ENS = clauses(monte_carlo=False)

_GS_REPLAY = """
import sys, warnings
warnings.simplefilter('ignore')
sys.path.insert(0, '/verif/bounded')
import c08_tables
n, bad = c08_tables.run_views(cases=8, seed=0, only='general_statistics')
slug = lambda t: ''.join(c if c.isalnum() else '_' for c in t).strip('_')
row = payload.get('obligation', '').split(':row_')[-1].split('#')[0].replace('_with_draws', '')
mine = [f for f in bad if slug(str(f.get('check')).split(':', 1)[-1]) == row]
violated = bool(bad)
detail = f'{n} cells compared with the raw fields; first mismatch: {(mine or bad)[0] if bad else None}'
"""

# assumed: counting the parameters away from their bounds reads, and changes, nothing but the estimates
contract(Q + 'bioResults.number_of_free_parameters', 'C08', pure=True, verify=False, returns='int',
         reads=['betas'],
         note='assumed pure (generator expression over self.data.betas; compared natively in bounded/c08_tables.py)')

contract(Q + 'bioResults.get_general_statistics', 'C08',
         requires={'data': 'self.data is not None'},
         ensures=_ENS,
         replay=_GS_REPLAY)
