"""C07: sign flip between the likelihood and the minimised function, derivative pass-through."""
from pyvc.contract import contract, field_type

N = 'biogeme.negative_likelihood.NegativeLikelihood.'
field_type('NegativeLikelihood', 'x', 'Any')

contract(N + '_f', 'C07', modifies=[],
         raises={'BiogemeError': 'self.x is None'},
         ensures={'minus_unscaled_likelihood': 'same(result, -self.like(self.x, scaled=False, batch=None))'})

contract(N + '_f_g', 'C07', modifies=[], check_safe=False,
         raises={'BiogemeError': 'self.x is None'},
         ensures={'function': 'same(result.function, -typed(self.like_derivatives(self.x, scaled=False, hessian=False, bhhh=False, batch=None), "FunctionOutput").function)',
                  'gradient': 'same(result.gradient, -typed(self.like_derivatives(self.x, scaled=False, hessian=False, bhhh=False, batch=None), "FunctionOutput").gradient)',
                  'no_hessian': 'result.hessian is None'})

contract(N + '_f_g_h', 'C07', modifies=[], check_safe=False,
         raises={'BiogemeError': 'self.x is None'},
         ensures={'function': 'same(result.function, -typed(self.like_derivatives(self.x, scaled=False, hessian=True, bhhh=False, batch=None), "FunctionOutput").function)',
                  'gradient': 'same(result.gradient, -typed(self.like_derivatives(self.x, scaled=False, hessian=True, bhhh=False, batch=None), "FunctionOutput").gradient)',
                  'hessian': 'same(result.hessian, -typed(self.like_derivatives(self.x, scaled=False, hessian=True, bhhh=False, batch=None), "FunctionOutput").hessian)'})

contract(N + 'dimension', 'C07', modifies=[], ensures={'dim': 'same(result, self.the_dimension)'})
