"""C07: sign flip between the likelihood and the minimised function, derivative pass-through."""
from pyvc.contract import contract, field_type

N = 'biogeme.negative_likelihood.NegativeLikelihood.'
field_type('NegativeLikelihood', 'x', 'Any')

contract(N + '_f', 'C07', modifies=[],
         raises={'BiogemeError': 'self.x is None'},
         ensures={'minus_unscaled_likelihood': 'same(result, -self.like(self.x, scaled=False, batch=None))'})

# round 3 (m1): `check_safe=False` (every implicit exception ASSUMED away) replaced by the one explicit precondition it stood for: the
# derivative callback returns the derivatives it was asked for (FunctionOutput declares them Optional; the callback of BIOGEME.optimize is
# calculate_likelihood_and_derivatives, whose contract (C02/C04/C15) gives arrays for gradient, Hessian and BHHH).  The callback is a pure
# function of its arguments (A-CALLABLE), so the call in the precondition denotes the value the body receives.
_OUT = 'typed(self.like_derivatives(self.x, scaled=False, hessian={h}, bhhh=False, batch=None), "FunctionOutput")'

contract(N + '_f_g', 'C07', modifies=[],
         requires={'callback_returns_a_gradient': f"implies(self.x is not None, {_OUT.format(h='False')}.gradient is not None)"},
         raises={'BiogemeError': 'self.x is None'},
         ensures={'function': 'same(result.function, -typed(self.like_derivatives(self.x, scaled=False, hessian=False, bhhh=False, batch=None), "FunctionOutput").function)',
                  'gradient': 'same(result.gradient, -typed(self.like_derivatives(self.x, scaled=False, hessian=False, bhhh=False, batch=None), "FunctionOutput").gradient)',
                  'no_hessian': 'result.hessian is None'})

contract(N + '_f_g_h', 'C07', modifies=[],
         requires={'callback_returns_gradient_and_hessian': f"implies(self.x is not None, {_OUT.format(h='True')}.gradient is not None and "
                                                            f"{_OUT.format(h='True')}.hessian is not None)"},
         raises={'BiogemeError': 'self.x is None'},
         ensures={'function': 'same(result.function, -typed(self.like_derivatives(self.x, scaled=False, hessian=True, bhhh=False, batch=None), "FunctionOutput").function)',
                  'gradient': 'same(result.gradient, -typed(self.like_derivatives(self.x, scaled=False, hessian=True, bhhh=False, batch=None), "FunctionOutput").gradient)',
                  'hessian': 'same(result.hessian, -typed(self.like_derivatives(self.x, scaled=False, hessian=True, bhhh=False, batch=None), "FunctionOutput").hessian)'})

contract(N + 'dimension', 'C07', modifies=[], ensures={'dim': 'same(result, self.the_dimension)'})
