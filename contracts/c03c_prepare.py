"""C03 (round 2, tag c03c): IdManager.prepare decomposed."""
from pyvc.contract import contract, field_type, REGISTRY
from contracts import c03c_replays as RP
import contracts.c03_idmanager  # noqa: F401  (expressions_names_indices, abstract dict_of_elementary_expression, field types)

from pyvc.libext import c03c_ext as _ext
_ext.install_discharge_retry()     # extra solver configurations for the (large) VC of prepare; only `unsat` changes a verdict

Q = 'biogeme.expressions.idmanager.'

# The modular call rule gives the object returned by a callee no position in the heap: nothing says that the tuple
# returned by expressions_names_indices, its list of names and its dictionary of indices exist when the call returns,
# so a list allocated LATER in prepare could be the same object.  The existing contract is therefore strengthened
# (not replaced) with three clauses that are proved on the body of expressions_names_indices like the others.
_eni = REGISTRY.contracts[Q + 'expressions_names_indices']
_eni.ensures.update({
    'result_exists': 'c03c_allocated(result) and c03c_allocated(result.names) and c03c_allocated(result.indices)',
    'own_objects': 'result.names is not dict_of_elements and result.indices is not dict_of_elements',
})

BETA = "'biogeme.expressions.beta_parameters.Beta'"

# round 3 (m4): WHICH names are numbered.  The abstract contract of the virtual collector gets one more (assumed) clause: the keys
# of the dictionary it returns are the names in the uninterpreted relation c03m4_reports(formula, kind, name); prepare is then
# obliged to put every name reported by every formula into the table of its kind (a formula whose dictionary is dropped, or
# collected into the wrong accumulator, leaves its parameters unnumbered) and nothing else.
_doe = REGISTRY.contracts['biogeme.expressions.base_expressions.Expression.dict_of_elementary_expression']
_doe.ensures.update({'keys_are_the_reported_names': "forall(lambda x: iff(x in result, c03m4_reports(self, the_type, x)), ty='str')"})
_TY = 'TypeOfElementaryExpression.'


def _collected(table, kind, lim):
    return (f"forall(lambda q: forall(lambda x: implies(c03m4_reports(self.expressions[q], {_TY}{kind}, x), x in {table}), ty='str'), 0, {lim})")


def _nothing_else(table, kind, lim):
    # exists q < lim: c03m4_reports(self.expressions[q], kind, x), in its quantifier-free recursive form (specs/c03m4_specs.py)
    return (f"forall(lambda x: implies(x in {table}, c03m4_reported_upto(self.expressions, {_TY}{kind}, {lim}, x)), ty='str')")


_KINDS = {1: ('free_betas', 'FREE_BETA'), 2: ('fixed_betas', 'FIXED_BETA'), 3: ('random_variables', 'RANDOM_VARIABLE'), 4: ('draws', 'DRAWS')}


def _tuple_clauses(fld):
    nm, ix = f'self.{fld}.names', f'self.{fld}.indices'
    return {
        f'{fld}_sorted_by_name': f'forall(lambda a: forall(lambda b: implies(a < b, {nm}[a] < {nm}[b]), 0, len({nm})), 0, len({nm}))',
        f'{fld}_position_of_name': f'forall(lambda q: {ix}[{nm}[q]] == q, 0, len({nm}))',
        f'{fld}_names_are_keys': f'forall(lambda q: {nm}[q] in self.{fld}.expressions, 0, len({nm}))',
        f'{fld}_index_in_range_and_inverse': f"forall(lambda x: implies(x in {ix}, 0 <= {ix}[x] < len({nm}) and {nm}[{ix}[x]] == x), ty='str')",
        f'{fld}_index_follows_name_order': f"forall(lambda x: forall(lambda y: implies(x in {ix} and y in {ix} and x < y, {ix}[x] < {ix}[y]), ty='str'), ty='str')",
        f'{fld}_indexed_names_are_the_keys': f"forall(lambda x: (x in {ix}) == (x in self.{fld}.expressions), ty='str')",
    }


FN, XN, EL = 'self.free_betas.names', 'self.fixed_betas.names', 'self.elementary_expressions'
contract(Q + 'IdManager.prepare', 'C03', self_class='IdManager', label='IdManager.prepare', replay=RP.PREPARE,
         requires={'formulas': 'forall(lambda q: self.expressions[q] is not None, 0, len(self.expressions))',
                   'draws_need_a_database': 'implies(self.requires_draws, self.database is not None)'},
         modifies=['self.free_betas', 'self.bounds', 'self.number_of_free_betas', 'self.fixed_betas',
                   'self.random_variables', 'self.draws', 'self.variables', 'self.elementary_expressions',
                   'self.free_betas_values', 'self.fixed_betas_values',
                   '*.theDraws', '*.typesOfDraws', '*.number_of_draws'],
         may_raise=['BiogemeError'],
         ensures={
             **_tuple_clauses('free_betas'), **_tuple_clauses('fixed_betas'),
             'n_free': f'self.number_of_free_betas == len({FN})',
             'bounds_len': f'len(self.bounds) == len({FN})',
             'bounds_by_name': f"forall(lambda q: same(self.bounds[q], (typed(self.free_betas.expressions[{FN}[q]], {BETA}).lb, "
                               f"typed(self.free_betas.expressions[{FN}[q]], {BETA}).ub)), 0, len({FN}))",
             'free_values_by_name': f"len(self.free_betas_values) == len({FN}) and forall(lambda q: self.free_betas_values[q] == "
                                    f"typed(self.free_betas.expressions[{FN}[q]], {BETA}).initValue, 0, len({FN}))",
             'fixed_values_by_name': f"len(self.fixed_betas_values) == len({XN}) and forall(lambda q: self.fixed_betas_values[q] == "
                                     f"typed(self.fixed_betas.expressions[{XN}[q]], {BETA}).initValue, 0, len({XN}))",
             'blocks': f'seq_eq({EL}.names, {FN} + {XN} + self.random_variables.names + self.draws.names + self.variables.names)',
             'unique_index_of_name': f'forall(lambda q: {EL}.indices[{EL}.names[q]] == q, 0, len({EL}.names))',
             'name_used_once': f'forall(lambda a: forall(lambda b: implies(a != b, {EL}.names[a] != {EL}.names[b]), 0, len({EL}.names)), 0, len({EL}.names))',
         })


# round 3 (m4): the COLLECTION clauses are verified as a second contract of the same body (the 130-hypothesis VC of the numbering clauses
# above does not bear sixteen more quantified obligations: > 30 min).  The plain key `IdManager.prepare` carries the round-1 contract of
# contracts/c03_idmanager.py (property tag C03x: checked by no property, superseded by the one above); within the C03 run it is re-used as
# the slot of this variant.  Calls of prepare() on an IdManager resolve to the `@IdManager` contract above, never to this one.
_col = REGISTRY.contracts[Q + 'IdManager.prepare']
_col.props = ['C03']
_col.label = 'IdManager.prepare[collection]'
_col.replay = RP.PREPARE
_col.requires = {'formulas': 'forall(lambda q: self.expressions[q] is not None, 0, len(self.expressions))',
                 'draws_need_a_database': 'implies(self.requires_draws, self.database is not None)'}
_col.check_frame = False
_col.min_obligations = 8
from pyvc.contract import LoopInv as _LoopInv
_col.invariants = {k: _LoopInv(clauses={'accumulator_exists': 'c03c_allocated(expr)', 'collected_so_far': _collected('expr', kind, '_k'), 'nothing_else_so_far': _nothing_else('expr', kind, '_k')})
                   for k, (fld, kind) in _KINDS.items()}
_col.ensures = {
    **{f'{fld}_every_reported_name_is_numbered': _collected(f'self.{fld}.expressions', kind, 'len(self.expressions)') for fld, kind in _KINDS.values()},
    # the converse (an accumulator that is not re-initialised between two kinds would number the free parameters as fixed ones as well)
    **{f'{fld}_only_reported_names_are_numbered': _nothing_else(f'self.{fld}.expressions', kind, 'len(self.expressions)') for fld, kind in _KINDS.values()}}

# the table of the database columns (fifth loop): every column name is indexed, and the index of a name is a position that carries it
# (also with repeated column names; C01 reads Variable.variableId from this table)
_col.invariants[5] = _LoopInv(clauses={
    'indexed_so_far': 'forall(lambda q: variables_names[q] in variables_indices, 0, _k)',
    'index_is_a_position_of_the_name': "forall(lambda x: implies(x in variables_indices, 0 <= typed(variables_indices[x], 'int') < _k and "
                                       "variables_names[typed(variables_indices[x], 'int')] == x), ty='str')"})
_col.ensures.update({
    'every_column_is_indexed': 'implies(self.database is not None, forall(lambda q: self.variables.names[q] in self.variables.indices, 0, len(self.variables.names)))',
    'column_index_is_a_position_of_the_name':
        "implies(self.database is not None, forall(lambda x: implies(x in self.variables.indices, 0 <= self.variables.indices[x] < len(self.variables.names) and "
        "self.variables.names[self.variables.indices[x]] == x), ty='str'))"})


def lemmas():
    """Pure-logic consequences of the proved postconditions of prepare (no heap, no program): the VC of prepare carries
    ~130 quantified hypotheses and the solvers need 5-60 s (or give up, depending on the machine load) on these derived
    clauses there, so they are derived here from the three discharged clauses they follow from (blocks,
    unique_index_of_name, name_used_once).  Each goal is refuted at Skolem constants with the hypotheses instantiated at
    the positions the argument uses (q, nf + q): instances of proved clauses, hence sound."""
    import itertools
    import time
    import z3
    from pyvc.driver import Extra
    out = []
    nf, nx, n = z3.Ints('nf nx n')
    EN, FNa, XNa, REST = (z3.Array(k, z3.IntSort(), z3.IntSort()) for k in ('EN', 'FN', 'XN', 'REST'))
    IDX = z3.Function('IDX', z3.IntSort(), z3.IntSort())

    def blocks(q):            # names == free names + fixed names + (random variables + draws + variables)
        return z3.Implies(z3.And(0 <= q, q < n), EN[q] == z3.If(q < nf, FNa[q], z3.If(q < nf + nx, XNa[q - nf], REST[q - nf - nx])))

    def unique_index_of_name(q):
        return z3.Implies(z3.And(0 <= q, q < n), IDX(EN[q]) == q)

    def name_used_once(a, b):
        return z3.Implies(z3.And(0 <= a, a < n, 0 <= b, b < n, a != b), EN[a] != EN[b])

    base = [nf >= 0, nx >= 0, n >= nf + nx]
    q0, a0, b0 = z3.Ints('q0 a0 b0')
    goals = {
        'unique-index-of-free-parameter-is-its-rank': (z3.Implies(z3.And(0 <= q0, q0 < nf), IDX(FNa[q0]) == q0), [q0]),
        'unique-index-of-fixed-parameter-is-nfree-plus-rank': (z3.Implies(z3.And(0 <= q0, q0 < nx), IDX(XNa[q0]) == nf + q0), [nf + q0]),
        'free-and-fixed-names-disjoint': (z3.Implies(z3.And(0 <= a0, a0 < nf, 0 <= b0, b0 < nx), FNa[a0] != XNa[b0]), [a0, nf + b0]),
    }
    for name, (g, terms) in goals.items():
        t0 = time.time()
        s = z3.Solver()
        s.set('timeout', 20000)
        s.add(*base)
        for t in terms:
            s.add(blocks(t), unique_index_of_name(t))
        for t, u in itertools.permutations(terms, 2):
            s.add(name_used_once(t, u))
        s.add(z3.Not(g))
        r = str(s.check())
        out.append(Extra(f'C03:lemma:prepare:{name}', 'lemma', {'unsat': 'discharged', 'sat': 'failed'}.get(r, 'unknown'),
                         f'z3-{z3.get_version_string()}', round(time.time() - t0, 3),
                         'from blocks, unique_index_of_name, name_used_once (postconditions of IdManager.prepare)'))
    # sanity of the lemma itself: the hypotheses are satisfiable (not a vacuous derivation)
    t0 = time.time()
    s = z3.Solver()
    s.set('timeout', 20000)
    q, a, b = z3.Ints('q a b')
    s.add(*base, nf == 2, nx == 1, n == 4, z3.ForAll([q], blocks(q)), z3.ForAll([q], unique_index_of_name(q)), z3.ForAll([a, b], name_used_once(a, b)))
    r = str(s.check())
    out.append(Extra('C03:lemma:prepare:hypotheses-satisfiable', 'lemma', 'discharged' if r == 'sat' else 'failed',
                     f'z3-{z3.get_version_string()}', round(time.time() - t0, 3), 'vacuity guard of the derived clauses'))
    return out
