"""Contracts for biogeme.sampling_of_alternatives (C19)."""
from pyvc.contract import contract, field_type

Q = 'biogeme.sampling_of_alternatives.sampling_of_alternatives.'

_REPLAY_SEGMENTS = """
from biogeme.sampling_of_alternatives.sampling_of_alternatives import generate_segment_size
cands = [(integer(m.get('sample_size'), 7), integer(m.get('number_of_segments'), 3))]
cands += [(s, n) for s in range(0, 14) for n in range(1, 7)] + [(-1, 3), (5, 0), (5, -2)]
violated = False
for s, n in cands:
    bad_args = s < 0 or n <= 0
    try:
        r = generate_segment_size(s, n)
        raised = False
    except ValueError:
        raised = True
    if raised != bad_args:
        violated, detail = True, f'generate_segment_size({s}, {n}): ValueError raised={raised}, expected {bad_args}'
        break
    if raised:
        continue
    ok = (len(r) == n and sum(r) == s and max(r) - min(r) <= 1
          and all(r[q] == s // n + (1 if q < s % n else 0) for q in range(n)))
    if not ok:
        violated, detail = True, f'generate_segment_size({s}, {n}) = {r}'
        break
"""

# shared by check_partition / Partition: acceptance of a context iff the side conditions hold
_REPLAY_VALIDATION = """
import sys
sys.path.insert(0, '/verif/bounded')
import c19_native
n, bad = c19_native.run_validation()
violated = bool(bad)
detail = f'{n} candidate contexts; first mismatch: {bad[0] if bad else None}'
"""

# the sampling protocol on generated contexts through the real pandas (main + MEV sample)
_REPLAY_PROTOCOL = """
import sys
import numpy as np
sys.path.insert(0, '/verif/bounded')
import c19_native
n, bad = c19_native.run_protocol(np.random.default_rng(0), 30, (6, 3, 4), 3, 'protocol')
violated = bool(bad)
detail = f'{n} generated choice sets; first mismatch: {bad[0] if bad else None}'
"""

contract(Q + 'generate_segment_size', 'C19',
         types={'sample_size': 'int', 'number_of_segments': 'int'},
         raises={'ValueError': 'sample_size < 0 or number_of_segments <= 0'},
         ensures={
             'length': 'len(result) == number_of_segments',
             # sum(result) == sample_size follows from `values` by LEMMA balanced-sum (induction; props/C19.py)
             'balanced': 'forall(lambda a: forall(lambda b: result[a] - result[b] <= 1 and result[b] - result[a] <= 1, '
                         '0, number_of_segments), 0, number_of_segments)',
             'values': 'forall(lambda q: result[q] == sample_size // number_of_segments + '
                       '(1 if q < sample_size % number_of_segments else 0), 0, number_of_segments)',
         },
         invariants={1: {'clauses': {
             'len': 'len(segment_sizes) == number_of_segments',
             'done': 'forall(lambda q: segment_sizes[q] == sample_size // number_of_segments + 1, 0, _k)',
             'todo': 'forall(lambda q: segment_sizes[q] == sample_size // number_of_segments, _k, number_of_segments)',
         }}},
         replay=_REPLAY_SEGMENTS)

C = 'biogeme.sampling_of_alternatives.sampling_context.'
field_type('StratumTuple', 'subset', 'set[int]')
field_type('StratumTuple', 'sample_size', 'int')
field_type('SamplingContext', 'partition', 'list[biogeme.sampling_of_alternatives.sampling_context.StratumTuple]')

# stratum q of self.partition violates the protocol's side conditions:
#   empty, requested size not in 1..n, or an alternative id that is not in the table of alternatives
_BAD_SIZE = ("(len(self.partition[q].subset) == 0 or self.partition[q].sample_size <= 0 "
             "or self.partition[q].sample_size > len(self.partition[q].subset))")
_BAD_ID = "exists(lambda x: x in self.partition[q].subset and x not in self.alternatives[self.id_column].values)"
_BAD = f"({_BAD_SIZE} or {_BAD_ID})"

contract(C + 'SamplingContext.check_partition', 'C19',
         raises={'BiogemeError': f'exists(lambda q: {_BAD}, 0, len(self.partition))'},
         modifies=[],
         replay=_REPLAY_VALIDATION,
         invariants={
             1: {'clauses': {'sizes_ok_so_far': f'forall(lambda q: not {_BAD_SIZE}, 0, _k)',
                             'ids_ok_so_far': f'forall(lambda q: not {_BAD_ID}, 0, _k)'}},
             2: {'clauses': {'known_so_far': 'forall(lambda j: set_elem(stratum.subset, j) in self.alternatives[self.id_column].values, 0, _k)'}},
         })

# ---------------------------------------------------------------------------------------------
# SamplingOfAlternatives: the sampling protocol, over the abstract pandas model of
# pyvc/libext/c19_pandas.py (free constructors; see there for the assumed LIBSPEC)
# ---------------------------------------------------------------------------------------------
_ST = 'biogeme.sampling_of_alternatives.sampling_context.StratumTuple'
field_type('SamplingOfAlternatives', 'alternatives', 'pd.DataFrame')
field_type('SamplingOfAlternatives', 'id_column', 'str')
field_type('SamplingOfAlternatives', 'partition', f'list[{_ST}]')
field_type('SamplingOfAlternatives', 'second_partition', f'list[{_ST}]')
# the contracts below cover contexts without cross-nested-logit nests (the CNL alpha columns are
# a pandas `apply` with a closure: out of the engine's reach, exercised by the bounded stand-in)
field_type('SamplingOfAlternatives', 'cnl_nests', 'None')

_IDS = 'self.alternatives[self.id_column]'

# frame appended for stratum q of the second partition: sample_size rows drawn without replacement
# from the rows of the table whose id is in the stratum, weight column n/k
_MEV_CL = {
    'column': "pd_setcol_name(PART) == '_mev_weight'",
    'weight_n_over_k': "pd_setcol_val(PART) == len(self.second_partition[q].subset) / self.second_partition[q].sample_size",
    'requested_size': "pd_sample_n(pd_setcol_base(PART)) == self.second_partition[q].sample_size",
    'drawn_from_stratum': f"same(pd_sample_src(pd_setcol_base(PART)), self.alternatives[{_IDS}.isin(self.second_partition[q].subset)])",
    # round 3: no alternative twice inside a stratum
    'without_replacement': "not pd_sample_replace(pd_setcol_base(PART))",
}
_MEV_Q = '(' + ' and '.join(_MEV_CL.values()) + ')'

contract(Q + 'SamplingOfAlternatives.sample_mev_alternatives', 'C19', replay=_REPLAY_PROTOCOL,
         requires={'sizes_positive': 'forall(lambda q: self.second_partition[q].sample_size > 0, 0, len(self.second_partition))'},
         modifies=[],
         ensures={
             'one_frame_per_stratum': 'pd_nparts(result) == len(self.second_partition)',
             # round 3: row labels of the returned sample are the positions 0..n-1 (process_row names the flattened
             # columns `<col>_<row label>`): the concatenation must renumber
             'rows_labelled_by_position': 'pd_renumbered(result)',
             **{f'stratum_{k}': 'forall(lambda q: ' + v.replace('PART', 'pd_part(result, q)') + ', 0, len(self.second_partition))'
                for k, v in _MEV_CL.items()},
         },
         invariants={1: {'clauses': {
             'len': 'len(results) == _k',
             'exist': 'forall(lambda q: allocated(results[q]), 0, _k)',
             'done': 'forall(lambda q: ' + _MEV_Q.replace('PART', 'pd_frame(results[q])') + ', 0, _k)',
         }}})

# --- first sample: stratified sampling without replacement around the chosen alternative -------
_C0 = f'self.alternatives[{_IDS} == chosen]'                       # rows of the table whose id is the chosen one
_LP = ("(app('numpy.log', self.partition[q].sample_size) - app('numpy.log', len(self.partition[q].subset)))")
_ALT_CL = {
    'column': "pd_setcol_name(PART) == '_log_proba'",
    # correction term log k - log n with k the *requested* size of the stratum (not k - 1)
    'correction_log_k_over_n': f"pd_setcol_val(PART) == {_LP}",
    # the chosen alternative counts for its stratum: one alternative less is drawn there
    'drawn_size': "pd_sample_n(pd_setcol_base(PART)) == self.partition[q].sample_size - (1 if chosen in self.partition[q].subset else 0)",
    # drawn among the alternatives of the stratum, the chosen one excluded (=> no duplicate of the chosen)
    'drawn_from_stratum_without_chosen': f"same(pd_sample_src(pd_setcol_base(PART)), "
                                         f"self.alternatives[pd_isin_without({_IDS}, self.partition[q].subset, chosen)])",
    # round 3: no alternative twice inside a stratum
    'without_replacement': "not pd_sample_replace(pd_setcol_base(PART))",
}
_ALT_Q = '(' + ' and '.join(_ALT_CL.values()) + ')'
_SUB = 'pd_part(pd_part(result, 1), q)'

contract(Q + 'SamplingOfAlternatives.sample_alternatives', 'C19', replay=_REPLAY_PROTOCOL,
         types={'chosen': 'int'},
         requires={'strata_disjoint': 'forall(lambda a: forall(lambda b: implies(a != b, '
                                      'not exists(lambda x: x in self.partition[a].subset and x in self.partition[b].subset)), '
                                      '0, len(self.partition)), 0, len(self.partition))'},
         raises={'BiogemeError': f'len({_C0}) != 1'},
         modifies=[],
         ensures={
             'chosen_then_sample': 'pd_nparts(result) == 2',
             # round 3: the chosen alternative is row 0 and the sampled ones rows 1.. BY LABEL too (ignore_index=True on
             # the outer concatenation): process_row names the flattened columns `<col>_<row label>`
             'rows_labelled_by_position': 'pd_renumbered(result)',
             'chosen_first_with_its_correction': f"forall(lambda q: implies(chosen in self.partition[q].subset, "
                                                 f"same(pd_part(result, 0), pd_setcol({_C0}, '_log_proba', {_LP}))), 0, len(self.partition))",
             'chosen_first_unchanged_if_in_no_stratum': f"exists(lambda q: old(chosen in self.partition[q].subset), 0, old(len(self.partition))) "
                                                        f"or same(pd_part(result, 0), {_C0})",
             'one_frame_per_stratum': 'pd_nparts(pd_part(result, 1)) == len(self.partition)',
             **{f'stratum_{k}': 'forall(lambda q: ' + v.replace('PART', _SUB) + ', 0, len(self.partition))' for k, v in _ALT_CL.items()},
         },
         invariants={1: {'clauses': {
             'len': 'len(results) == _k',
             'exist': 'forall(lambda q: allocated(results[q]) and other_object(results[q], chosen_alternative), 0, _k)',
             **{f'done_{k}': 'forall(lambda q: ' + v.replace('PART', 'pd_frame(results[q])') + ', 0, _k)' for k, v in _ALT_CL.items()},
             'chosen_in': f"forall(lambda q: implies(chosen in self.partition[q].subset, "
                          f"same(pd_frame(chosen_alternative), pd_setcol({_C0}, '_log_proba', {_LP}))), 0, _k)",
             'chosen_out': f"exists(lambda q: old(chosen in self.partition[q].subset), 0, _k) or same(pd_frame(chosen_alternative), {_C0})",
         }}})

# the sampler works on the very objects validated by SamplingContext (check_partition / Partition)
field_type('SamplingContext', 'second_partition', f'list[{_ST}] | None')
contract(Q + 'SamplingOfAlternatives.__init__', 'C19',
         types={'context': 'biogeme.sampling_of_alternatives.sampling_context.SamplingContext'},
         modifies=['self.alternatives', 'self.id_column', 'self.partition', 'self.second_partition', 'self.cnl_nests'],
         ensures={'same_table': 'self.alternatives is context.alternatives',
                  'same_id_column': 'self.id_column == context.id_column',
                  'same_partition': 'self.partition is context.partition',
                  'same_second_partition': 'same(self.second_partition, context.second_partition)',
                  # round 3: the CNL nests are handed over too (their deletion only made a frame obligation vanish)
                  'same_cnl_nests': 'same(self.cnl_nests, context.cnl_nests)'})
