"""C17 (round 3, agent c17e): segmented parameters (biogeme/segmentation.py), for every number of segmentations and categories.

DiscreteSegmentationTuple.__init__   reference defaulting / validation (raises iff a given reference is not a category)
OneSegmentation.__init__             self.mapping == the entries of the tuple's mapping whose category is not the reference
OneSegmentation.beta_name / beta_expression   name f'{beta.name}_{category}', node Beta(that name, same start value / status, no bounds)
OneSegmentation.list_of_expressions  one term per entry of self.mapping:  value(parameter of the category) * [variable == code]
Segmentation.segmented_beta          value == sum over the term list: position 0 the reference parameter (a Beta node with the
                                     name / start value / bounds / status of self.beta), position 1 + p the term of the p-th
                                     (segmentation, category) POSITION (numbering c17e_off / c17e_seg / c17e_cat, specs/c17e_specs.py):
                                     one term per position, also when two segmentations share a category label.
The lemmas of contracts/c17e_obligations.py turn the position sum into  reference + sum_s sum_q shift(s, q) * [x_s == code(s, q)].
Values are c05c_val (specs/c05c_specs.py): the value of a parameter node stays abstract (the current value of that parameter),
the value of a Variable node is the value of its data column (A-VARIABLE, specs/c17d_specs.py).
Engine extensions: pyvc/libext/c17e_ext.py.
"""
from pyvc.contract import REGISTRY, contract, field_type

import contracts.c17d_nodes as N17      # noqa: F401
from contracts.c17_obligations import _replay_code

_REPLAY_SEG = '''
# segmentation builders on the real code: fixed candidates (structure of the tree, names, validation), then the bounded
# stand-in for the values (compiled engine)
import logging, warnings
logging.disable(logging.CRITICAL); warnings.filterwarnings('ignore')
from biogeme.exceptions import BiogemeError
from biogeme.expressions import Beta, Variable, Numeric, bioMultSum
from biogeme.expressions.binary_expressions import Times
from biogeme.expressions.comparison_expressions import Equal
from biogeme.segmentation import DiscreteSegmentationTuple, OneSegmentation, Segmentation
violated, detail = False, ''
def bad(msg):
    global violated, detail
    if not violated:
        violated, detail = True, msg
m1 = {10: 'low', 20: 'medium', 35: 'high'}
m2 = {1: 'low', 2: 'high'}            # labels shared with m1
for mapping, ref, want_ref, refused in ((m1, None, 'low', False), (m1, 'high', 'high', False), (m1, 'absent', None, True), (m2, 'low', 'low', False)):
    try:
        t = DiscreteSegmentationTuple('x', dict(mapping), reference=ref)
        if refused or t.reference != want_ref or t.mapping != mapping or not isinstance(t.variable, Variable) or t.variable.name != 'x':
            bad(f'DiscreteSegmentationTuple({mapping}, reference={ref!r}): reference {t.reference!r}, mapping {t.mapping}')
    except BiogemeError:
        if not refused:
            bad(f'DiscreteSegmentationTuple({mapping}, reference={ref!r}) refused')
v = Variable('inc')
if DiscreteSegmentationTuple(v, dict(m1)).variable is not v:
    bad('a Variable node given to DiscreteSegmentationTuple is not kept')
b = Beta('b', 0.5, -1.0, 2.0, 0)
for tuples in ([], [(v, m1, 'medium')], [(v, m1, None), ('z', m2, 'high')], [('u', m2, None), ('w', m2, None), (v, m1, 'high')]):
    ts = [DiscreteSegmentationTuple(x, dict(mp), reference=r) for x, mp, r in tuples]
    seg = Segmentation(b, ts)
    want = []
    for (x, mp, r), one in zip(tuples, seg.segmentations):
        refc = r if r is not None else next(iter(mp.values()))
        kept = {k: c for k, c in mp.items() if c != refc}
        if one.mapping != kept or list(one.mapping) != list(kept) or one.reference != refc or one.beta is not b:
            bad(f'OneSegmentation of {mp} (reference {refc}): mapping {one.mapping}')
        for k, c in kept.items():
            if one.beta_name(c) != f'b_{c}':
                bad(f'beta_name({c!r}) == {one.beta_name(c)!r}')
            be = one.beta_expression(c)
            if (be.name, be.initValue, be.lb, be.ub, be.status) != (f'b_{c}', 0.5, None, None, 0):
                bad(f'beta_expression({c!r}) == {be}')
            want.append((f'b_{c}', x if isinstance(x, str) else x.name, float(k)))
        try:
            one.beta_name(refc)
            bad(f'beta_name of the reference category {refc!r} accepted')
        except BiogemeError:
            pass
        terms = one.list_of_expressions()
        if len(terms) != len(kept):
            bad(f'list_of_expressions of {kept}: {len(terms)} terms')
    tree = seg.segmented_beta()
    ch = tree.children if isinstance(tree, bioMultSum) else []
    r0 = ch[0] if ch else None
    if not isinstance(r0, Beta) or (r0.name, r0.initValue, r0.lb, r0.ub, r0.status) != ('b', 0.5, -1.0, 2.0, 0):
        bad(f'first term of segmented_beta: {r0}')
    got = []
    for e in ch[1:]:
        ok = (isinstance(e, Times) and isinstance(e.left, Beta) and isinstance(e.right, Equal) and isinstance(e.right.left, Variable)
              and isinstance(e.right.right, Numeric))
        got.append((e.left.name, e.right.left.name, float(e.right.right.value)) if ok else str(e))
    if got != want:
        bad(f'segmented_beta over {[(str(x), mp, r) for x, mp, r in tuples]}: terms {got}, expected one per (segmentation, category) position: {want}')
if not violated:
    import json, subprocess, sys
    for clause in ('segmented_beta:value-per-segment', 'segmented_beta:parameters'):
        r = subprocess.run([sys.executable, '/verif/bounded/c17_segmentation.py', 'thorough', '0', clause], capture_output=True, text=True, cwd='/tmp')
        rec = json.loads(r.stdout.strip().splitlines()[-1])['clauses'][clause]
        if rec['failures']:
            bad(f"{clause}: {rec['cases']} cases; first failures: {json.dumps(rec['failures'][:2], default=str)[:1000]}")
'''

P = 'C17'
S = 'biogeme.segmentation.'

field_type('DiscreteSegmentationTuple', 'variable', 'Variable')
field_type('DiscreteSegmentationTuple', 'mapping', 'dict[int, str]')
field_type('DiscreteSegmentationTuple', 'reference', 'str')


_IN_VALUES = "exists(lambda j: {m}[keys_of({m})[j]] == {x}, 0, len({m}))"

contract(S + 'DiscreteSegmentationTuple.__init__', P, replay=_REPLAY_SEG,
         types={'mapping': 'dict[int, str]', 'reference': 'str | None'},
         modifies=['self.variable', 'self.mapping', 'self.reference'],
         # refused exactly when a reference category is given that is not a category of the mapping; with no reference
         # given the first category is taken (an empty mapping then escapes as StopIteration: remark in the report)
         raises={'BiogemeError': "reference is not None and not " + _IN_VALUES.format(m='mapping', x="typed(reference, 'str')"),
                 'StopIteration': 'reference is None and len(mapping) == 0'},
         ensures={'mapping_kept': 'self.mapping is mapping and len(mapping) == old(len(mapping))',
                  'given_reference_kept': "implies(reference is not None, self.reference == typed(reference, 'str'))",
                  'default_reference_is_first_category': 'implies(reference is None, self.reference == mapping[keys_of(mapping)[0]])',
                  'reference_is_a_category': _IN_VALUES.format(m='mapping', x='self.reference'),
                  'variable_node_kept': 'implies(isinstance(variable, Variable), self.variable is variable)',
                  'variable_given_by_name': 'implies(not isinstance(variable, Variable), isinstance(self.variable, Variable) '
                                            'and same(self.variable.name, variable))'})

# ------------------------------------------------------------------------------------------------ OneSegmentation
field_type('OneSegmentation', 'beta', 'Beta')
field_type('OneSegmentation', 'variable', 'Variable')
field_type('OneSegmentation', 'reference', 'str')
field_type('OneSegmentation', 'mapping', 'dict[int, str]')
field_type('Beta', 'name', 'str')
field_type('Variable', 'name', 'str')

_TM = 'segmentation_tuple.mapping'
contract(S + 'OneSegmentation.__init__', P, replay=_REPLAY_SEG,
         types={'beta': 'Beta', 'segmentation_tuple': 'DiscreteSegmentationTuple'},
         # the engine keeps no class fact for a typed parameter: objects of the two classes are told apart by this clause
         requires={'two_objects': 'self is not segmentation_tuple'},
         modifies=['self.beta', 'self.variable', 'self.reference', 'self.mapping'],
         ensures={'parameter_kept': 'self.beta is beta',
                  'variable_kept': 'self.variable is segmentation_tuple.variable',
                  'reference_kept': 'self.reference == segmentation_tuple.reference',
                  'own_dictionary': f'self.mapping is not {_TM}',
                  'categories_of_the_tuple_untouched': f'len({_TM}) == old(len({_TM}))',
                  # exactly the non-reference categories are kept, with their codes
                  'non_reference_categories_kept': f"forall(lambda x: (x in self.mapping) == (x in {_TM} and {_TM}[x] != segmentation_tuple.reference), ty='int')",
                  'categories_of_the_codes_kept': f"forall(lambda x: implies(x in self.mapping, self.mapping[x] == {_TM}[x]), ty='int')",
                  'no_reference_category_left': "forall(lambda q: self.mapping[keys_of(self.mapping)[q]] != self.reference, 0, len(self.mapping))"})

_CAT_UNKNOWN = "not " + _IN_VALUES.format(m='self.mapping', x='category')
contract(S + 'OneSegmentation.beta_name', P, pure=True, replay=_REPLAY_SEG, types={'category': 'str'}, modifies=[],
         raises={'BiogemeError': _CAT_UNKNOWN},
         ensures={'name_is_parameter_underscore_category': "result == f'{self.beta.name}_{category}'"})

# the parameter node of a category: a function of the segmentation object and the category (allocation abstracted; the
# object is not modified by any function under contract: frame obligations)
contract(S + 'OneSegmentation.beta_expression', P, pure=True, replay=_REPLAY_SEG, returns='Beta', types={'category': 'str'}, modifies=[],
         raises={'BiogemeError': _CAT_UNKNOWN},
         ensures={'a_parameter': 'isinstance(result, Beta)',
                  'named_parameter_underscore_category': "result.name == f'{self.beta.name}_{category}'",
                  'same_starting_value_and_status': 'same(result.initValue, self.beta.initValue) and same(result.status, self.beta.status)',
                  # (a category equal to the reference cannot be in the mapping built by the constructor: no_reference_category_left)
                  'shift_is_unbounded': 'implies(category != self.reference, result.lb is None and result.ub is None)'})

# one term per entry of the (non-reference) mapping, in its order:  term q = parameter(category_q) * (variable == code_q)
_CODE = 'keys_of(self.mapping)[q]'
_TERM_Q = (f"c05c_val(self.beta_expression(self.mapping[{_CODE}])) * ite(c05c_val(self.variable) == {_CODE}, 1, 0)")
contract(S + 'OneSegmentation.list_of_expressions', P, pure=True, replay=_REPLAY_SEG, returns='list[Expression]', modifies=[], nla_uf=True,
         ensures={'one_term_per_category': 'len(result) == len(self.mapping)',
                  'term_is_shift_times_indicator': f"forall(lambda q: c05c_val(result[q]) == {_TERM_Q}, 0, len(self.mapping))"})

# ------------------------------------------------------------------------------------------------ Segmentation
field_type('Segmentation', 'beta', 'Beta')
field_type('Segmentation', 'segmentations', 'list[OneSegmentation]')

# the sum node keeps the terms it was given (same loop invariant `copied` as the value clause of contracts/c05c_nodes.py):
# clause added to the VERIFIED constructor contract for the C17 run, so that the first term can be named in a postcondition
_MS = REGISTRY.contracts['biogeme.expressions.nary_expressions.bioMultSum.__init__']
_MS.ensures['children_are_the_terms'] = ('len(self.children) == len(list_of_expressions) and '
                                         'forall(lambda q: self.children[q] is list_of_expressions[q], 0, len(list_of_expressions))')

SEGS = 'self.segmentations'
_SEG_P = f"{SEGS}[c17e_seg({SEGS}, p - 1)]"
_CODE_P = f"keys_of({_SEG_P}.mapping)[c17e_cat({SEGS}, p - 1)]"
# term of the (segmentation, category) position p - 1:  value of the parameter of that category * [variable == code]
TERM_P = f"c05c_val({_SEG_P}.beta_expression({_SEG_P}.mapping[{_CODE_P}])) * ite(c05c_val({_SEG_P}.variable) == {_CODE_P}, 1, 0)"
_R0 = "typed(result, 'bioMultSum').children[0]"
contract(S + 'Segmentation.segmented_beta', P, nla_uf=True, replay=_REPLAY_SEG, modifies=[],
         ensures={'reference_parameter': f"isinstance({_R0}, Beta) and typed({_R0}, 'Beta').name == self.beta.name and "
                                         f"same(typed({_R0}, 'Beta').initValue, self.beta.initValue) and same(typed({_R0}, 'Beta').lb, self.beta.lb) and "
                                         f"same(typed({_R0}, 'Beta').ub, self.beta.ub) and same(typed({_R0}, 'Beta').status, self.beta.status)",
                  'value_is_reference_plus_one_shift_per_position':
                      f"c05c_val(result) == sum_range(lambda p: ite(p == 0, c05c_val({_R0}), {TERM_P}), 0, 1 + c17e_npos({SEGS}))"})
