"""C10 (tag c10c): static obligations decided on the real AST (no import of biogeme) for the two big bodies that are
out of the deductive engine's reach as a whole (IdManager.prepare: 9 minutes of `unknown`; BIOGEME.__init__: engine
object construction).  Each obligation is a syntactic fact about the ONE place where the hand-over happens; the
semantic content of the pieces is proved by the contracts of contracts/c10c_draws.py and c03_idmanager.py.

  C10:static:IdManager.prepare:draws-numbered-by-sorted-names
        self.draws (resp. self.random_variables) is assigned exactly once in prepare, as
        expressions_names_indices(expr) where expr was built, since its last `expr = {}`, only from
        f.dict_of_elementary_expression(the_type=TypeOfElementaryExpression.DRAWS) (resp. RANDOM_VARIABLE) of every
        f in self.expressions; no other method of IdManager assigns them (except None in __init__).
  C10:static:IdManager.prepare:generate_draws-arguments
        the only generate_draws call of prepare is self.database.generate_draws(self.draw_types(), self.draws.names,
        self.number_of_draws), under `if self.requires_draws`, after self.draws has been assigned.
  C10:static:BIOGEME.__init__:seed-before-any-draw
        `if self.seed != 0: np.random.seed(self.seed)` (self.seed read from the parameters just before) precedes every
        statement of __init__ that can generate draws; numpy is seeded nowhere else in biogeme.py.
  C10:static:BIOGEME.__init__:draws-handed-to-engine-before-expressions
        self._generate_draws(self.number_of_draws) is immediately followed by
        `if self.monte_carlo: self.theC.setDraws(self.database.theDraws)`; every setExpressions / evaluation call of __init__
        comes later; _generate_draws and setDraws are called exactly once in biogeme.py.
  C10:static:calculator.calculate_function_and_derivatives:draws-handed-to-engine-before-calculate
        (the get_value_c path) `if the_expression.requires_draws(): ... the_cpp.setDraws(database.theDraws)` precedes
        the_cpp.calculate(...); one setDraws call.  (The order w.r.t. setExpression is NOT demanded: the one-expression engine
        accepts the draws any time before calculate -- observed with the bounded harness; demanding it flagged a harmless reordering.)
"""
import ast
import time

from pyvc.driver import Extra
from pyvc.repo import get_repo

BACKEND = 'ast-static'


def _fn(qualname):
    fi = get_repo().function(qualname)
    return fi.node if fi is not None else None


def _calls(node, attr):
    return [n for n in ast.walk(node) if isinstance(n, ast.Call) and isinstance(n.func, ast.Attribute) and n.func.attr == attr]


def _u(n):
    return ast.unparse(n)


def _assigns_to_self(node, field):
    out = []
    for n in ast.walk(node):
        tg = []
        if isinstance(n, ast.Assign):
            tg = n.targets
        elif isinstance(n, (ast.AnnAssign, ast.AugAssign)):
            tg = [n.target]
        for t in tg:
            for s in ast.walk(t):
                if isinstance(s, ast.Attribute) and s.attr == field and isinstance(s.value, ast.Name) and s.value.id == 'self':
                    out.append(n)
    return out


def check_numbering():
    prep = _fn('biogeme.expressions.idmanager.IdManager.prepare')
    if prep is None:
        return 'failed', 'IdManager.prepare not found', None
    ci = get_repo().find_class('IdManager')
    problems = []
    for field, kind in (('draws', 'DRAWS'), ('random_variables', 'RANDOM_VARIABLE')):
        body = prep.body
        idx = [i for i, s in enumerate(body) if s in _assigns_to_self(prep, field)]
        if len(_assigns_to_self(prep, field)) != 1 or len(idx) != 1:
            problems.append(f'self.{field} is not assigned exactly once at the top level of prepare')
            continue
        a = body[idx[0]]
        if not (isinstance(a, ast.Assign) and _u(a.value) == 'expressions_names_indices(expr)'):
            problems.append(f'self.{field} = {_u(a.value) if hasattr(a, "value") else "?"} (expected expressions_names_indices(expr))')
            continue
        start = max([i for i in range(idx[0]) if _u(body[i]) == 'expr = {}'], default=None)
        if start is None:
            problems.append(f'no `expr = {{}}` before self.{field}')
            continue
        between = body[start + 1:idx[0]]
        want = (f'for f in self.expressions:\n    d = f.dict_of_elementary_expression(the_type=TypeOfElementaryExpression.{kind})\n'
                f'    expr = dict(expr, **d)')
        if len(between) != 1 or _u(between[0]) != want:
            problems.append(f'the dictionary numbered into self.{field} is built by: {[_u(b) for b in between]}')
        for name, m in ci.methods.items():
            if name in ('prepare',):
                continue
            for asg in _assigns_to_self(m.node, field):
                val = getattr(asg, 'value', None)
                if not (name == '__init__' and val is not None and _u(val) == 'None'):
                    problems.append(f'IdManager.{name} assigns self.{field}')
    if problems:
        return 'failed', '; '.join(problems), {'problems': problems}
    return 'discharged', 'self.draws / self.random_variables = expressions_names_indices(<DRAWS / RANDOM_VARIABLE dictionaries of all expressions>)', None


def check_generate_args():
    prep = _fn('biogeme.expressions.idmanager.IdManager.prepare')
    calls = _calls(prep, 'generate_draws')
    if len(calls) != 1:
        return 'failed', f'{len(calls)} generate_draws calls in IdManager.prepare', {'calls': [_u(c) for c in calls]}
    c = calls[0]
    want = 'self.database.generate_draws(self.draw_types(), self.draws.names, self.number_of_draws)'
    if _u(c) != want:
        return 'failed', f'call is `{_u(c)}`, expected `{want}`', {'call': _u(c)}
    guard = [s for s in prep.body if isinstance(s, ast.If) and c in list(ast.walk(s))]
    if len(guard) != 1 or _u(guard[0].test) != 'self.requires_draws' or guard[0].orelse or len(guard[0].body) != 1:
        return 'failed', 'the call is not the only statement under `if self.requires_draws:`', None
    pos_call = prep.body.index(guard[0])
    pos_draws = [i for i, s in enumerate(prep.body) if s in _assigns_to_self(prep, 'draws')]
    if not pos_draws or max(pos_draws) > pos_call:
        return 'failed', 'generate_draws is called before self.draws is assigned', None
    return 'discharged', want, None


DRAW_SOURCES = ('_generate_draws', 'generate_draws', 'reset_id_manager', 'IdManager', 'setDraws')


def _mentions(stmt, names):
    for n in ast.walk(stmt):
        if isinstance(n, ast.Call):
            f = n.func
            nm = f.attr if isinstance(f, ast.Attribute) else (f.id if isinstance(f, ast.Name) else None)
            if nm in names:
                return True
    return False


def check_seed():
    init = _fn('biogeme.biogeme.BIOGEME.__init__')
    if init is None:
        return 'failed', 'BIOGEME.__init__ not found', None
    body = init.body
    seed_if = [i for i, s in enumerate(body) if isinstance(s, ast.If) and _u(s.test) == 'self.seed != 0'
               and len(s.body) == 1 and _u(s.body[0]) == 'np.random.seed(self.seed)' and not s.orelse]
    if len(seed_if) != 1:
        return 'failed', '`if self.seed != 0: np.random.seed(self.seed)` not found exactly once at the top level of __init__', None
    i = seed_if[0]
    if i == 0 or _u(body[i - 1]) != "self.seed = self.biogeme_parameters.get_value(name='seed')":
        return 'failed', f'statement before the seeding is `{_u(body[i - 1])[:120]}`', None
    early = [(_u(s)[:80]) for s in body[:i] if _mentions(s, DRAW_SOURCES)]
    if early:
        return 'failed', f'statements that can generate draws precede the seeding: {early}', {'early': early}
    mi = get_repo().modules['biogeme.biogeme']
    seeds = [n for n in ast.walk(mi.tree) if isinstance(n, ast.Call) and _u(n.func).endswith('random.seed')]
    if len(seeds) != 1:
        return 'failed', f'numpy is seeded {len(seeds)} times in biogeme.py', None
    later = [j for j, s in enumerate(body) if j > i and _mentions(s, DRAW_SOURCES)]
    if not later:
        return 'failed', 'no draw-generating statement after the seeding (vacuous)', None
    return 'discharged', f'seeding is statement {i} of __init__; first draw-generating statement is {later[0]}', None


def check_handover():
    init = _fn('biogeme.biogeme.BIOGEME.__init__')
    body = init.body
    gen = [i for i, s in enumerate(body) if _u(s) == 'self._generate_draws(self.number_of_draws)']
    if len(gen) != 1:
        return 'failed', '`self._generate_draws(self.number_of_draws)` not found exactly once at the top level of __init__', None
    i = gen[0]
    nxt = body[i + 1] if i + 1 < len(body) else None
    if not (isinstance(nxt, ast.If) and _u(nxt.test) == 'self.monte_carlo' and not nxt.orelse and len(nxt.body) == 1
            and _u(nxt.body[0]) == 'self.theC.setDraws(self.database.theDraws)'):
        return 'failed', f'the statement after _generate_draws is `{_u(nxt)[:160] if nxt is not None else None}`', None
    evals = [j for j, s in enumerate(body) if _mentions(s, ('setExpressions', 'calculateLikelihood', 'calculateLikelihoodAndDerivatives',
                                                            'simulateFormula', 'simulateSeveralFormulas'))]
    if not evals or min(evals) <= i + 1:
        return 'failed', f'an engine evaluation / setExpressions statement precedes the hand-over of the draws (positions {evals}, hand-over {i + 1})', None
    mi = get_repo().modules['biogeme.biogeme']
    n_gen = len(_calls(mi.tree, '_generate_draws'))
    n_set = len(_calls(mi.tree, 'setDraws'))
    if n_gen != 1 or n_set != 1:
        return 'failed', f'_generate_draws called {n_gen} times, setDraws {n_set} times in biogeme.py', None
    return 'discharged', f'_generate_draws at statement {i}, setDraws at {i + 1}, first setExpressions at {min(evals)}', None


def check_calculator():
    fn = _fn('biogeme.expressions.calculator.calculate_function_and_derivatives')
    if fn is None:
        return 'failed', 'calculate_function_and_derivatives not found', None
    body = fn.body
    hand = [i for i, s in enumerate(body) if isinstance(s, ast.If) and _u(s.test) == 'the_expression.requires_draws()' and not s.orelse
            and s.body and _u(s.body[-1]) == 'the_cpp.setDraws(database.theDraws)']
    if len(hand) != 1:
        return 'failed', '`if the_expression.requires_draws(): ... the_cpp.setDraws(database.theDraws)` not found exactly once', None
    later = [i for i, s in enumerate(body) if _mentions(s, ('calculate',))]
    if not later or min(later) <= hand[0]:
        return 'failed', f'calculate at statements {later} precedes the hand-over of the draws at {hand[0]}', None
    if len(_calls(fn, 'setDraws')) != 1:
        return 'failed', 'setDraws is called more than once', None
    return 'discharged', f'setDraws(database.theDraws) at statement {hand[0]}, calculate at statement {min(later)}', None


CHECKS = [
    ('C10:static:IdManager.prepare:draws-numbered-by-sorted-names', check_numbering),
    ('C10:static:IdManager.prepare:generate_draws-arguments', check_generate_args),
    ('C10:static:BIOGEME.__init__:seed-before-any-draw', check_seed),
    ('C10:static:BIOGEME.__init__:draws-handed-to-engine-before-expressions', check_handover),
    ('C10:static:calculator.calculate_function_and_derivatives:draws-handed-to-engine-before-calculate', check_calculator),
]


def extras(tier, seed):
    out = []
    for name, fn in CHECKS:
        t0 = time.time()
        try:
            status, detail, witness = fn()
        except Exception as e:       # an unexpected shape of the source is a failed check, not a crash
            status, detail, witness = 'failed', f'{type(e).__name__}: {e}', None
        out.append(Extra(name, 'static', status, BACKEND, round(time.time() - t0, 3), detail, witness))
    return out


# replay of a failed static obligation: the end-to-end effect on the real code (coded generators)
REPLAY_STATIC = r'''
import warnings; warnings.simplefilter('ignore')
import numpy as np, pandas as pd
import biogeme.biogeme as bio
from biogeme.database import Database
from biogeme.expressions import Beta, MonteCarlo, bioDraws
from biogeme.native_draws import RandomNumberGeneratorTuple
from biogeme.parameters import Parameters
def coded(c):
    return lambda n, r: np.array([[1000.0 * c + 10 * i + j for j in range(r)] for i in range(n)])
def run(seed):
    db = Database('d', pd.DataFrame({'x': [1.0, 2.0, 3.0]}))
    db.set_random_number_generators({f'T{c}': RandomNumberGeneratorTuple(coded(c), '') for c in (1, 2, 3)})
    f = MonteCarlo(bioDraws('zz', 'T1') + 2 * bioDraws('aa', 'T2') * bioDraws('mm', 'UNIFORM'))
    p = Parameters(); p.set_value(name='number_of_draws', value=4, section='MonteCarlo'); p.set_value(name='seed', value=seed, section='MonteCarlo')
    b = bio.BIOGEME(db, {'f': f}, parameters=p, skip_audit=True)
    return b, b.simulate({})
b, s1 = run(11)
_, s2 = run(11)
names = b.id_manager.draws.names
bad = []
if names != ['aa', 'mm', 'zz']: bad.append(('names', names))
if not np.allclose(s1['f'].values, s2['f'].values): bad.append(('seed 11 twice', s1['f'].tolist(), s2['f'].tolist()))
violated = bool(bad)
detail = f'hand-over of draws in BIOGEME.__init__: {bad}'
'''
