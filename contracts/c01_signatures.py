"""C01: serialisation of every node against ENGINE-SPEC (what the engine reads at each position)."""
from pyvc.contract import contract, field_type

B = 'biogeme.expressions.'

# abstract contracts used at call sites (induction hypothesis on children)
contract(B + 'base_expressions.Expression.get_signature', ['C01'], verify=False, pure=True,
         returns='list[str]', ensures={'t': 'True'}, label='Expression.get_signature(abstract)',
         note='abstract contract: the signature list of a sub-formula (deterministic)')

contract(B + 'base_expressions.Expression.get_id', ['C01'], verify=False, pure=True, returns='int', ensures={'t': 'True'},
         note='abstract contract: the identifier a node is known by in the signature (id(self); the selected member for catalogs)')

LAST = 'result[len(result) - 1]'


def line_clauses(cls, items):
    c = {'type': f"engine_field({LAST}, 'type') == '{cls}'",
         'id': f"same(engine_field({LAST}, 'id'), self.get_id())"}
    for k, e in items.items():
        c[f'item{k}'] = f"same(engine_item({LAST}, {k}), {e})"
    c['nitems'] = f"engine_nitems({LAST}) == {1 + len(items)}"
    return c


BIN = ['Plus', 'Minus', 'Times', 'Divide', 'Power', 'bioMin', 'bioMax', 'And', 'Or']
CMP = ['Equal', 'NotEqual', 'LessOrEqual', 'GreaterOrEqual', 'Less', 'Greater']
UNA = ['UnaryMinus', 'exp', 'log', 'logzero', 'sin', 'cos', 'bioNormalCdf', 'MonteCarlo', 'PanelLikelihoodTrajectory']

for cls in BIN + CMP:
    contract(B + 'base_expressions.Expression.get_signature', 'C01', self_class=cls, label=f'{cls}.get_signature',
             requires={'children': 'len(self.children) == 2 and self.children[0] is self.left and self.children[1] is self.right'},
             modifies=[],
             ensures={**line_clauses(cls, {1: 'self.left.get_id()', 2: 'self.right.get_id()'}),
                      'count': f"engine_field({LAST}, 'count') == 2",
                      'postorder': 'seq_eq(result[:len(result) - 1], self.left.get_signature() + self.right.get_signature())'})
for cls in UNA:
    contract(B + 'base_expressions.Expression.get_signature', 'C01', self_class=cls, label=f'{cls}.get_signature',
             requires={'children': 'len(self.children) == 1 and self.children[0] is self.child'},
             modifies=[],
             ensures={**line_clauses(cls, {1: 'self.child.get_id()'}),
                      'count': f"engine_field({LAST}, 'count') == 1",
                      'postorder': 'seq_eq(result[:len(result) - 1], self.child.get_signature())'})

# ---- leaves -----------------------------------------------------------------------------
field_type('Elementary', 'name', 'str')
field_type('Elementary', 'elementaryIndex', 'int | None')
field_type('biogeme.expressions.beta_parameters.Beta', 'betaId', 'int | None')
field_type('biogeme.expressions.beta_parameters.Beta', 'status', 'int')
field_type('Variable', 'variableId', 'int | None')
field_type('bioDraws', 'drawId', 'int | None')
field_type('RandomVariable', 'rvId', 'int | None')

ONLY = 'result[0]'


def leaf(cls_path, cls, id_field, extra=None):
    ens = {'single_line': 'len(result) == 1',
           'type': f"engine_field({ONLY}, 'type') == '{cls}'",
           'id': f"same(engine_field({ONLY}, 'id'), self.get_id())",
           'name': f"same(engine_field({ONLY}, 'name'), self.name)",
           'item1_unique_index': f"same(engine_item({ONLY}, 1), self.elementaryIndex)",
           'item2_own_table_index': f"same(engine_item({ONLY}, 2), self.{id_field})",
           'nitems': f"engine_nitems({ONLY}) == 3"}
    if extra:
        ens.update(extra)
    contract(B + cls_path + '.get_signature', ['C01', 'C03'] if cls == 'Beta' else 'C01', modifies=[],
             raises={'BiogemeError': f'self.elementaryIndex is None or self.{id_field} is None'},
             ensures=ens)


leaf('beta_parameters.Beta', 'Beta', 'betaId', {'status': f"same(engine_field({ONLY}, 'status'), self.status)"})
leaf('elementary_expressions.Variable', 'Variable', 'variableId')
leaf('elementary_expressions.bioDraws', 'bioDraws', 'drawId')
leaf('elementary_expressions.RandomVariable', 'RandomVariable', 'rvId')

contract(B + 'numeric_expressions.Numeric.get_signature', 'C01', modifies=[],
         ensures={'single_line': 'len(result) == 1',
                  'type': f"engine_field({ONLY}, 'type') == 'Numeric'",
                  'id': f"same(engine_field({ONLY}, 'id'), self.get_id())",
                  'value': f"same(engine_item({ONLY}, 1), self.value)",
                  'nitems': f"engine_nitems({ONLY}) == 2"})

contract(B + 'unary_expressions.PowerConstant.get_signature', 'C01', modifies=[],
         ensures={'type': f"engine_field({LAST}, 'type') == 'PowerConstant'",
                  'id': f"same(engine_field({LAST}, 'id'), self.get_id())",
                  'child': f"same(engine_item({LAST}, 1), self.child.get_id())",
                  'exponent': f"same(engine_item({LAST}, 2), self.exponent)",
                  'nitems': f"engine_nitems({LAST}) == 3",
                  'postorder': 'seq_eq(result[:len(result) - 1], self.child.get_signature())'})

field_type('Derive', 'elementaryName', 'str')
field_type('Integrate', 'randomVariableName', 'str')
field_type('Expression', 'id_manager', 'IdManager | None')
for cls, table, key in (('Derive', 'elementary_expressions', 'elementaryName'), ('Integrate', 'random_variables', 'randomVariableName')):
    contract(B + f'unary_expressions.{cls}.get_signature', ['C01', 'C10'], modifies=[],
             requires={'ids': f'self.id_manager is not None and self.id_manager.{table} is not None and self.id_manager.{table}.indices is not None and '
                              f'self.{key} in self.id_manager.{table}.indices'},
             ensures={'type': f"engine_field({LAST}, 'type') == '{cls}'",
                      'id': f"same(engine_field({LAST}, 'id'), self.get_id())",
                      'child': f"same(engine_item({LAST}, 1), self.child.get_id())",
                      'index_of_named_element': f"same(engine_item({LAST}, 2), self.id_manager.{table}.indices[self.{key}])",
                      'nitems': f"engine_nitems({LAST}) == 3",
                      'postorder': 'seq_eq(result[:len(result) - 1], self.child.get_signature())'})

# The identifier of a node in the signature must be unique per live object (the engine memoises
# decoded nodes by id and ignores a line whose id it already knows): A-ID, id(obj) is injective.
contract(B + 'base_expressions.Expression.get_id', 'C01', self_class='Expression', label='Expression.get_id(body)', modifies=[],
         ensures={'object_identity': 'result == id(self)'},
         note='sufficient condition for uniqueness of node ids within a signature (sharing, copies)')
