"""C17: static obligations on the real AST and the runner of the bounded stand-ins (used by props/C17.extra).

Static obligations (python3-vt: ast + sympy + mpmath, biogeme is never imported):
  The straight-line tail of each builder (after its argument validation) is executed SYMBOLICALLY over the real AST:
  Expression operators are read as real arithmetic, comparisons as 0/1 indicators, exp/log as the real functions,
  `Elem(dict, key)` as selection, `bioMultSum(list)` as a sum (semantics of the expression nodes: property C01).
  Comparisons are decided region by region (a sample point per region fixes every indicator; inside a region the
  value is a closed term), and the term is compared with the textbook formula by sympy for ALL values of the region.
  Numeric constants must be within 1e-9 (relative) of sqrt(2 pi) and 1e-10 (absolute) of log(2 pi)/2.
"""
from __future__ import annotations

import ast
import json
import math
import os
import subprocess
import time
from concurrent.futures import ThreadPoolExecutor

from pyvc.driver import Extra, VENV_PY, VERIF


# ----------------------------------------------------------------------------------------------
# symbolic execution of a builder tail
# ----------------------------------------------------------------------------------------------
class Skip(Exception):
    pass


class SymTail:
    """(term, sample) evaluation of the assignments/return of a builder: `term` is a sympy expression over the
    parameter symbols, `sample` the float value at the region's sample point (only used to decide comparisons)."""

    def __init__(self, sym: dict, sample: dict):
        import sympy
        self.sp = sympy
        self.env = {k: (sym[k], float(sample[k])) for k in sym}
        self.result = None

    def run(self, fn: ast.FunctionDef):
        for st in fn.body:
            if isinstance(st, ast.Expr) and isinstance(st.value, ast.Constant):
                continue                      # docstring
            if isinstance(st, (ast.Try, ast.If)):
                continue                      # argument validation / warnings: no effect on the tree
            if isinstance(st, ast.Assign) and len(st.targets) == 1 and isinstance(st.targets[0], ast.Name):
                try:
                    self.env[st.targets[0].id] = self.ev(st.value)
                except Skip:
                    pass                      # a value that is not part of the tree (message strings ...)
                continue
            if isinstance(st, ast.Return):
                self.result = self.ev(st.value)
                return self.result
            raise ValueError(f'statement not understood at line {st.lineno}: {ast.unparse(st)[:80]}')
        raise ValueError('no return statement')

    def ev(self, n):
        sp = self.sp
        if isinstance(n, ast.Constant):
            if isinstance(n.value, (int, float)) and not isinstance(n.value, bool):
                return sp.Rational(repr(n.value)), float(n.value)      # the decimal literal as an exact rational
            raise Skip()
        if isinstance(n, ast.JoinedStr):
            raise Skip()
        if isinstance(n, ast.Name):
            if n.id not in self.env:
                raise ValueError(f'unknown name {n.id} at line {n.lineno}')
            return self.env[n.id]
        if isinstance(n, ast.UnaryOp) and isinstance(n.op, ast.USub):
            t, v = self.ev(n.operand)
            return -t, -v
        if isinstance(n, ast.BinOp):
            (a, x), (b, y) = self.ev(n.left), self.ev(n.right)
            op = type(n.op)
            try:
                if op is ast.Add:
                    return a + b, x + y
                if op is ast.Sub:
                    return a - b, x - y
                if op is ast.Mult:
                    return a * b, x * y
                if op is ast.Div:
                    return a / b, (x / y if y != 0 else math.nan)
                if op is ast.Pow:
                    return a ** b, (math.pow(x, y) if (x > 0 or float(y).is_integer()) and not (x == 0 and y < 0) else math.nan)
            except (OverflowError, ValueError):
                return {ast.Add: a + b, ast.Sub: a - b, ast.Mult: a * b, ast.Div: a / b, ast.Pow: a ** b}[op], math.nan
            raise ValueError(f'operator {op.__name__} at line {n.lineno}')
        if isinstance(n, ast.Compare) and len(n.ops) == 1:
            (_, x), (_, y) = self.ev(n.left), self.ev(n.comparators[0])
            op = type(n.ops[0])
            truth = {ast.Lt: x < y, ast.LtE: x <= y, ast.Gt: x > y, ast.GtE: x >= y, ast.Eq: x == y, ast.NotEq: x != y}[op]
            return sp.Integer(int(truth)), float(truth)
        if isinstance(n, ast.Call):
            f = ast.unparse(n.func)
            if f in ('Numeric', 'validate_and_convert') and len(n.args) == 1:
                return self.ev(n.args[0])
            if f == 'exp':
                t, v = self.ev(n.args[0])
                try:
                    return sp.exp(t), math.exp(v)
                except OverflowError:
                    return sp.exp(t), math.inf
            if f == 'log':
                t, v = self.ev(n.args[0])
                return sp.log(t), (math.log(v) if v > 0 else math.nan)
            if f == 'bioMultSum' and len(n.args) == 1 and isinstance(n.args[0], ast.List):
                parts = [self.ev(e) for e in n.args[0].elts]
                return sum((p[0] for p in parts), sp.Integer(0)), sum(p[1] for p in parts)
            if f == 'Elem' and len(n.args) == 2 and isinstance(n.args[0], ast.Dict):
                _, key = self.ev(n.args[1])
                for k, v in zip(n.args[0].keys, n.args[0].values):
                    if isinstance(k, ast.Constant) and float(k.value) == key:
                        return self.ev(v)
                raise ValueError(f'Elem key {key} not in the dictionary at line {n.lineno}')
            raise Skip()
        raise Skip()


def _symbols(names, positive=()):
    import sympy
    return {n: sympy.Symbol(n, positive=True) if n in positive else sympy.Symbol(n, real=True) for n in names}


def _is_zero(expr) -> bool:
    import sympy
    e = sympy.simplify(expr)
    if e == 0:
        return True
    e = sympy.simplify(sympy.expand(sympy.expand_log(e, force=True)))
    return e == 0


def _regions(spec):
    """spec: list of (label, sample dict, substitution dict (x -> a on a boundary), textbook builder)."""
    return spec


def _static_builder(name, qual, fn_of, params, positive, regions, mode='equal', tol=0.0):
    """regions: [(label, sample, subst, textbook(sym) -> sympy)];  mode 'equal' | 'ratio' | 'difference'."""
    import sympy
    t0 = time.time()
    oname = f'C17:static:{name}'
    fi = fn_of(qual)
    if fi is None:
        return Extra(oname, 'static', 'unknown', 'ast+sympy', time.time() - t0, f'function {qual} not found in the tree')
    sym = _symbols(params, positive)
    bad = []
    try:
        for label, sample, subst, textbook in regions:
            tail = SymTail(sym, sample)
            term, _ = tail.run(fi.node)
            sub = {sym[k]: (sym[v] if isinstance(v, str) else v) for k, v in subst.items()}
            term = sympy.sympify(term).subs(sub)
            want = sympy.sympify(textbook(sym)).subs(sub)
            if mode == 'equal':
                if not _is_zero(term - want):
                    bad.append({'region': label, 'tree': str(sympy.simplify(term))[:200], 'textbook': str(want)[:200]})
            elif mode == 'ratio':
                r = sympy.simplify(term / want)
                if r.free_symbols or not abs(float(r) - 1.0) <= tol:
                    bad.append({'region': label, 'tree/textbook': str(r)[:200], 'tolerance': tol})
            else:
                d = sympy.expand(sympy.expand_log(term - want, force=True))
                if d.free_symbols:
                    d = sympy.simplify(d)
                if d.free_symbols or not abs(float(d)) <= tol:
                    bad.append({'region': label, 'tree-textbook': str(d)[:200], 'tolerance': tol})
    except Exception as e:      # the tail is outside the symbolic subset: undecided, never green
        return Extra(oname, 'static', 'unknown', 'ast+sympy', time.time() - t0, f'{type(e).__name__}: {e}'[:300])
    if bad:
        return Extra(oname, 'static', 'failed', 'ast+sympy', time.time() - t0, json.dumps(bad)[:900], {'regions': bad, 'function': qual})
    return Extra(oname, 'static', 'discharged', 'ast+sympy', time.time() - t0,
                 f'{len(regions)} region(s) of {qual}: tree == textbook term for all values')


def static_obligations() -> list[Extra]:
    import sympy
    from pyvc.repo import get_repo
    repo = get_repo()
    fn_of = repo.function
    pi = sympy.pi
    out = []
    D = 'biogeme.distributions.'

    # ---- normal / lognormal / logistic / regression: no break point (lognormal: x > 0 | x <= 0)
    def normal(s):
        return sympy.exp(-(s['x'] - s['mu']) ** 2 / (2 * s['s'] ** 2)) / (s['s'] * sympy.sqrt(2 * pi))
    out.append(_static_builder('normalpdf:tree-is-textbook-density', D + 'normalpdf', fn_of, ['x', 'mu', 's'], ['s'],
                               [('all x', {'x': 0.3, 'mu': 0.1, 's': 1.7}, {}, normal)], 'ratio', 1e-9))

    def lognormal(s):
        return sympy.exp(-(sympy.log(s['x']) - s['mu']) ** 2 / (2 * s['s'] ** 2)) / (s['x'] * s['s'] * sympy.sqrt(2 * pi))
    out.append(_static_builder('lognormalpdf:tree-is-textbook-density', D + 'lognormalpdf', fn_of, ['x', 'mu', 's'], ['s', 'x'],
                               [('x > 0', {'x': 0.7, 'mu': 0.1, 's': 1.7}, {}, lognormal)], 'ratio', 1e-9))
    out.append(_static_builder('lognormalpdf:zero-outside-support', D + 'lognormalpdf', fn_of, ['x', 'mu', 's'], ['s'],
                               [('x < 0', {'x': -0.7, 'mu': 0.1, 's': 1.7}, {}, lambda s: sympy.Integer(0)),
                                ('x == 0', {'x': 0.0, 'mu': 0.1, 's': 1.7}, {}, lambda s: sympy.Integer(0))], 'equal'))
    out.append(_static_builder('logisticcdf:tree-is-textbook-cdf', D + 'logisticcdf', fn_of, ['x', 'mu', 's'], ['s'],
                               [('all x', {'x': 0.3, 'mu': 0.1, 's': 1.7}, {},
                                 lambda s: 1 / (1 + sympy.exp(-(s['x'] - s['mu']) / s['s'])))], 'equal'))
    out.append(_static_builder('loglikelihoodregression:tree-is-normal-log-density', 'biogeme.loglikelihood.loglikelihoodregression', fn_of,
                               ['meas', 'model', 'sigma'], ['sigma'],
                               [('all', {'meas': 0.3, 'model': 0.1, 'sigma': 1.7}, {},
                                 lambda s: -(s['meas'] - s['model']) ** 2 / (2 * s['sigma'] ** 2) - sympy.log(s['sigma']) - sympy.log(2 * pi) / 2)],
                               'difference', 1e-10))
    # ---- uniform on [a, b], a < b
    U = {'a': 0.0, 'b': 3.0}
    inside = lambda s: 1 / (s['b'] - s['a'])      # noqa: E731
    zero = lambda s: sympy.Integer(0)             # noqa: E731
    out.append(_static_builder('uniformpdf:tree-is-textbook-density', D + 'uniformpdf', fn_of, ['x', 'a', 'b'], [],
                               [('x < a', dict(U, x=-1.0), {}, zero), ('x == a', dict(U, x=0.0), {'x': 'a'}, inside),
                                ('a < x < b', dict(U, x=1.0), {}, inside), ('x == b', dict(U, x=3.0), {'x': 'b'}, inside),
                                ('x > b', dict(U, x=4.0), {}, zero)], 'equal'))
    # ---- triangular on [a, b] with mode c, a < c < b
    T = {'a': 0.0, 'c': 1.0, 'b': 3.0}
    up = lambda s: 2 * (s['x'] - s['a']) / ((s['b'] - s['a']) * (s['c'] - s['a']))       # noqa: E731
    down = lambda s: 2 * (s['b'] - s['x']) / ((s['b'] - s['a']) * (s['b'] - s['c']))     # noqa: E731
    out.append(_static_builder('triangularpdf:tree-is-textbook-density', D + 'triangularpdf', fn_of, ['x', 'a', 'b', 'c'], [],
                               [('x < a', dict(T, x=-1.0), {}, zero), ('x == a', dict(T, x=0.0), {'x': 'a'}, zero),
                                ('a < x < c', dict(T, x=0.5), {}, up), ('x == c', dict(T, x=1.0), {'x': 'c'}, lambda s: 2 / (s['b'] - s['a'])),
                                ('c < x < b', dict(T, x=2.0), {}, down), ('x == b', dict(T, x=3.0), {'x': 'b'}, zero),
                                ('x > b', dict(T, x=4.0), {}, zero)], 'equal'))
    # ---- Box-Cox
    B = 'biogeme.models.boxcox.boxcox'
    closed = lambda s: (s['x'] ** s['ell'] - 1) / s['ell']      # noqa: E731
    out.append(_static_builder('boxcox:regular-branch-is-closed-form', B, fn_of, ['x', 'ell'], ['x'],
                               # the regions are those of the sample points (all ell on the same side of the coded window as
                               # +-0.3); the extent of the window is decided numerically by C17:bounded:boxcox:closed-form
                               [('x > 0, ell above the series window (sample 0.3)', {'x': 2.0, 'ell': 0.3}, {}, closed),
                                ('x > 0, ell below the series window (sample -0.3)', {'x': 2.0, 'ell': -0.3}, {}, closed)], 'equal'))
    out.append(_static_builder('boxcox:zero-argument-gives-zero', B, fn_of, ['x', 'ell'], [],
                               [('x == 0, regular', {'x': 0.0, 'ell': 0.3}, {}, zero), ('x == 0, series', {'x': 0.0, 'ell': 1e-7}, {}, zero)], 'equal'))

    def series(s):      # Taylor polynomial of (exp(ell L) - 1)/ell in ell, order 3, L = log x
        ell, lx = s['ell'], sympy.log(s['x'])
        return sum(ell ** k * lx ** (k + 1) / sympy.factorial(k + 1) for k in range(4))
    out.append(_static_builder('boxcox:series-coefficients', B, fn_of, ['x', 'ell'], ['x'],
                               [('x > 0, small ell > 0 (sample 1e-7)', {'x': 2.0, 'ell': 1e-7}, {}, series),
                                ('x > 0, small ell < 0 (sample -1e-7)', {'x': 2.0, 'ell': -1e-7}, {}, series),
                                ('x > 0, ell == 0', {'x': 2.0, 'ell': 0.0}, {}, series)], 'equal'))
    out.append(_frame_piecewise_variables(repo))
    return out


def _frame_piecewise_variables(repo) -> Extra:
    """Frame of piecewise_variables (waived in its contract, see contracts/c17_builders.py): every in-place mutation in
    the body (augmented assignment, subscript/attribute store, mutating method call) targets a local name that is only
    ever bound to a fresh list display or comprehension; parameters are never re-bound to such a mutation target."""
    t0 = time.time()
    name = 'C17:static:piecewise_variables:mutates-only-own-list'
    fi = repo.function('biogeme.models.piecewise.piecewise_variables')
    if fi is None:
        return Extra(name, 'static', 'unknown', 'ast-static', time.time() - t0, 'function not found')
    params = {a.arg for a in fi.node.args.args + fi.node.args.kwonlyargs}
    fresh, other = set(), set()
    for n in ast.walk(fi.node):
        if isinstance(n, ast.Assign):
            for t in n.targets:
                if isinstance(t, ast.Name):
                    (fresh if isinstance(n.value, (ast.List, ast.ListComp)) else other).add(t.id)
    mutators = {'append', 'extend', 'insert', 'pop', 'remove', 'clear', 'sort', 'reverse', 'update', 'setdefault', 'popitem', 'add', 'discard'}
    bad = []
    for n in ast.walk(fi.node):
        tgt = None
        if isinstance(n, ast.AugAssign):
            tgt = n.target
        elif isinstance(n, (ast.Assign, ast.Delete)):
            for t in n.targets:
                if isinstance(t, (ast.Subscript, ast.Attribute)):
                    tgt = t
        elif isinstance(n, ast.Call) and isinstance(n.func, ast.Attribute) and n.func.attr in mutators:
            tgt = n.func.value
        if tgt is None:
            continue
        base = tgt
        while isinstance(base, (ast.Subscript, ast.Attribute)):
            base = base.value
        if not (isinstance(base, ast.Name) and base.id in fresh and base.id not in other and base.id not in params):
            bad.append(f'line {n.lineno}: {ast.unparse(n)[:80]}')
    if bad:
        return Extra(name, 'static', 'failed', 'ast-static', time.time() - t0, '; '.join(bad)[:600], {'sites': bad})
    return Extra(name, 'static', 'discharged', 'ast-static', time.time() - t0, f'mutated local lists: {sorted(fresh - other)}')


# ----------------------------------------------------------------------------------------------
# bounded stand-ins: one native run per script, one obligation per clause
# ----------------------------------------------------------------------------------------------
PATTERNS = ('threshold patterns K=2..6 x closed/open ends (K=2 both open excluded) x first finite threshold in {-2.5, 1, 0.0, int 0} '
            '(thorough: + {7.25, -0.5}), x on the grid of all thresholds, midpoints, 0 and points below/above all thresholds; engine evaluation')
BOX = ('x in {0.05,0.5,1,2,5,100} (thorough: + {1e-3,0.9,17.5,1e4}); python get_value() and compiled engine; '
       'oracle (exp(ell ln x)-1)/ell with 50 digits (decimal), tolerance 1e-9 relative')
DIST = '3-4 parameter sets (thorough 5-7), 41-point grids (thorough 201) + break points; engine and get_value(); oracle scipy.stats, rtol 1e-9'
QUAD = '3 parameter sets (thorough 5-6); scipy.integrate.quad of the engine-evaluated real tree over the support and tails, |I-1| <= 1e-7'
SEG = ('0..3 segmentation variables x 2..4 levels (quick: 8 level shapes x 3 reference choices; thorough: all 40 x 3), every combination '
       'of levels evaluated by the engine with distinct parameter values')
NEST = ('8 nest structures over choice sets of 2..5 unsorted identifiers, names in 5 orders, mu in {1, 1.3}, nest parameters '
        'number / Beta / old tuple syntax (quick: one third of the combinations + all reversed-name cases)')

SCRIPTS = {
    'c17_piecewise.py': {
        'piecewise_variables:count': PATTERNS + '; K-1 variables for K thresholds',
        'piecewise_variables:each-variable': PATTERNS + '; variable q == max(0, min(x - t_q, t_q+1 - t_q)) (open ends: min(x, t_1), max(0, x - t_K-1))',
        'piecewise_variables:sum-is-clipped-distance': PATTERNS + '; sum of the variables == clip(x - t_0, 0, t_last - t_0)',
        'piecewise_variables:malformed-refused': '7 malformed threshold lists (empty, all None, None inside) and 2 non-Variable arguments -> BiogemeError',
        'piecewise_formula:equals-function': PATTERNS + '; coefficients Numeric / Beta / Variable object; == closed form == real piecewise_function',
        'piecewise_formula:default-parameters': PATTERNS + '; default parameters beta_<var>_<lo>_<hi>, one per interval, multiply their own interval',
        'piecewise_formula:malformed-refused': '6 malformed threshold lists, wrong number of coefficients (+-1), non-variable argument, for formula and as_variable',
        'piecewise_as_variable:documented-formula': PATTERNS + '; == x_T1 + sum_{q>=2} beta_q x_Tq (K = 2 may be refused with BiogemeError)',
        'piecewise_as_variable:default-parameters': PATTERNS + ' (K >= 3); the parameter named after interval q multiplies the variable of interval q',
    },
    'c17_boxcox.py': {
        'boxcox:closed-form': BOX + '; |ell| in {1.01e-5,2e-5,1e-4,1e-3,5e-3,1e-2,0.05,0.1,0.5,1,2}, both signs',
        'boxcox:limit-is-log': BOX + '; ell = 0',
        'boxcox:continuity-at-zero': BOX + '; |ell| in {1e-12,1e-8,1e-6,5e-6,0.99e-5}, both signs (series branch)',
        'boxcox:no-jump-at-switching-point': BOX + '; |B(1.01e-5) - B(0.99e-5)| <= 1.5 x slope x 0.02e-5 + 1e-10, both signs',
        'boxcox:zero-argument': 'x = 0, ell in {0, +-1e-7, 0.3, -0.5, 2}: value 0 (python and engine)',
    },
    'c17_distributions.py': {
        'normalpdf:matches-textbook': DIST, 'normalpdf:integrates-to-one': QUAD,
        'normalpdf:bad-scale-refused': 's in {0, -1} -> ValueError',
        'lognormalpdf:matches-textbook': DIST + '; 0 for x <= 0', 'lognormalpdf:integrates-to-one': QUAD,
        'lognormalpdf:bad-arguments-refused': 'numeric x in {0, -1}, s in {0, -2} -> ValueError',
        'uniformpdf:matches-textbook': DIST, 'uniformpdf:integrates-to-one': QUAD,
        'uniformpdf:bad-bounds-refused': 'a = 2 > b = 1 -> ValueError',
        'triangularpdf:matches-textbook': DIST, 'triangularpdf:integrates-to-one': QUAD,
        'triangularpdf:bad-mode-refused': 'c in {a, b, > b, < a} -> ValueError',
        'logisticcdf:matches-textbook': DIST,
        'logisticcdf:is-a-distribution-function': '3 parameter sets (thorough 5): limits 0/1 at mu -+ 700 s, non-decreasing on the grid, central difference == logistic density',
        'logisticcdf:bad-scale-refused': 's in {0, -1} -> ValueError',
        'loglikelihoodregression:is-normal-log-density': '4 (model, sigma) pairs (thorough 6) x grid of measures: == scipy norm.logpdf == log(normalpdf), rtol 1e-9',
    },
    'c17_segmentation.py': {
        'segmented_beta:value-per-segment': SEG + '; value == reference value + sum of the shifts of the levels',
        'segmented_beta:parameters': SEG + '; parameters = reference (bounds, status kept) + one unbounded shift per non-reference level',
        'segmented_beta:function-form': SEG + '; module-level segmented_beta() == Segmentation.segmented_beta()',
        'segmented_code:exec-gives-same-formula': SEG + '; exec of segmented_code(): same values, parameters and text',
    },
    'c17_nests.py': {
        'nests.correlation:within-nest': NEST + '; 1 - mu^2/mu_m^2 (1 - 1/mu_m^2 for mu = 1), symmetric',
        'nests.correlation:across-nests-zero': NEST + '; 0 across nests and for alternatives alone',
        'nests.correlation:diagonal-one': NEST,
        'nests.correlation:labels-follow-choice-set': NEST + '; label k == name of choice_set[k]; entries read BY NAME are the correlations of the named pair',
        'nests.correlation:parameters-override': '7 nest structures with Beta nest parameters overridden through `parameters`',
    },
}


def _run_script(script, tier, seed):
    env = dict(os.environ)
    env.pop('PYTHONPATH', None)
    repo = os.environ.get('VERIF_REPO')
    if repo and repo != '/repo':
        env['PYTHONPATH'] = os.path.join(repo, 'src')
    t0 = time.time()
    try:
        r = subprocess.run([VENV_PY, os.path.join(VERIF, 'bounded', script), tier, str(seed)], capture_output=True, text=True,
                           timeout=900, cwd='/tmp', env=env)
    except subprocess.TimeoutExpired:
        return script, None, 'timeout', time.time() - t0
    line = (r.stdout.strip().splitlines() or [''])[-1]
    try:
        return script, json.loads(line), '', time.time() - t0
    except Exception:      # noqa
        return script, None, (r.stdout + r.stderr)[-1200:], time.time() - t0


def bounded_obligations(tier, seed) -> list[Extra]:
    out = []
    with ThreadPoolExecutor(max_workers=len(SCRIPTS)) as pool:
        runs = list(pool.map(lambda s: _run_script(s, tier, seed), SCRIPTS))
    for script, data, err, secs in runs:
        clauses = SCRIPTS[script]
        for clause, bound in clauses.items():
            name = f'C17:bounded:{clause}'
            if data is None:
                out.append(Extra(name, 'bounded', 'unknown' if err == 'timeout' else 'error', 'native', secs / len(clauses), err, bound=bound))
                continue
            rec = (data.get('clauses') or {}).get(clause)
            if rec is None or not rec.get('cases'):
                # vacuity guard: a clause that the script no longer exercises is never green
                out.append(Extra(name, 'bounded', 'error', 'native', 0.0, f'{script} ran no case for this clause', bound=bound))
            elif rec['failures']:
                fails = rec['failures']
                out.append(Extra(name, 'bounded', 'failed', 'native', secs / len(clauses), json.dumps(fails[:2], default=str)[:1500],
                                 witness={'failures': fails[:5], 'more_failures': rec.get('more_failures', 0)}, bound=bound, cases=rec['cases']))
            else:
                out.append(Extra(name, 'bounded', 'discharged', 'native', secs / len(clauses), '', bound=bound, cases=rec['cases']))
    return out


def _replay_code(script, clause):
    return f'''
# re-runs the bounded stand-in on the real code for this clause only (thorough grid)
import json, subprocess, sys
r = subprocess.run([sys.executable, '/verif/bounded/{script}', 'thorough', '0', '{clause}'], capture_output=True, text=True, cwd='/tmp')
d = json.loads(r.stdout.strip().splitlines()[-1])
rec = d['clauses']['{clause}']
violated = bool(rec['failures'])
detail = f"{{rec['cases']}} cases; first failures: {{json.dumps(rec['failures'][:2], default=str)[:1200]}}"
'''


_STATIC_REPLAY = {
    'C17:static:boxcox:series-coefficients': ('c17_boxcox.py', 'boxcox:continuity-at-zero'),
    'C17:static:boxcox:regular-branch-is-closed-form': ('c17_boxcox.py', 'boxcox:closed-form'),
    'C17:static:boxcox:zero-argument-gives-zero': ('c17_boxcox.py', 'boxcox:zero-argument'),
    'C17:static:normalpdf:tree-is-textbook-density': ('c17_distributions.py', 'normalpdf:matches-textbook'),
    'C17:static:lognormalpdf:tree-is-textbook-density': ('c17_distributions.py', 'lognormalpdf:matches-textbook'),
    'C17:static:lognormalpdf:zero-outside-support': ('c17_distributions.py', 'lognormalpdf:matches-textbook'),
    'C17:static:uniformpdf:tree-is-textbook-density': ('c17_distributions.py', 'uniformpdf:matches-textbook'),
    'C17:static:triangularpdf:tree-is-textbook-density': ('c17_distributions.py', 'triangularpdf:matches-textbook'),
    'C17:static:logisticcdf:tree-is-textbook-cdf': ('c17_distributions.py', 'logisticcdf:matches-textbook'),
    'C17:static:loglikelihoodregression:tree-is-normal-log-density': ('c17_distributions.py', 'loglikelihoodregression:is-normal-log-density'),
}

REPLAYS = {f'C17:bounded:{clause}': _replay_code(script, clause) for script, clauses in SCRIPTS.items() for clause in clauses}
REPLAYS.update({name: _replay_code(script, clause) for name, (script, clause) in _STATIC_REPLAY.items()})


def lemma_obligations() -> list[Extra]:
    """The TEXTBOOK densities integrate to one (symbolic, all parameters; sympy).  Together with the static
    tree == textbook obligations this gives "integrates to one" for all parameters; the bounded quadratures of the
    engine-evaluated trees check the same natively."""
    import sympy as sp
    x, mu, y = sp.symbols('x mu y', real=True)
    s = sp.Symbol('s', positive=True)
    a, b, c = sp.symbols('a b c', real=True)
    xp = sp.Symbol('xp', positive=True)
    normal = sp.exp(-(x - mu) ** 2 / (2 * s ** 2)) / (s * sp.sqrt(2 * sp.pi))
    lognormal = sp.exp(-(sp.log(xp) - mu) ** 2 / (2 * s ** 2)) / (xp * s * sp.sqrt(2 * sp.pi))
    up, down = 2 * (x - a) / ((b - a) * (c - a)), 2 * (b - x) / ((b - a) * (b - c))
    logistic = 1 / (1 + sp.exp(-(x - mu) / s))
    checks = {
        'normalpdf': lambda: sp.simplify(sp.integrate(normal, (x, -sp.oo, sp.oo)) - 1) == 0,
        # change of variable x = exp(y): lognormal(exp y) exp(y) dy is the normal density in y
        'lognormalpdf': lambda: sp.simplify((lognormal * xp).subs(xp, sp.exp(y)) - normal.subs(x, y)) == 0,
        'uniformpdf': lambda: sp.simplify(sp.integrate(1 / (b - a), (x, a, b)) - 1) == 0,
        'triangularpdf': lambda: sp.simplify(sp.integrate(up, (x, a, c)) + sp.integrate(down, (x, c, b)) - 1) == 0,
        # a cdf: limits 0 and 1, derivative exp(-z)/(s (1 + exp(-z))^2) >= 0
        'logisticcdf': lambda: (sp.limit(logistic, x, -sp.oo) == 0 and sp.limit(logistic, x, sp.oo) == 1
                                and sp.simplify(sp.diff(logistic, x)).is_nonnegative is True),
    }
    out = []
    for helper, thunk in checks.items():
        t0 = time.time()
        name = f'C17:lemma:{helper}:textbook-function-integrates-to-one'
        try:
            ok = bool(thunk())
            out.append(Extra(name, 'lemma', 'discharged' if ok else 'unknown', 'sympy', time.time() - t0,
                             'symbolic integral of the textbook density (all parameters)' if ok else 'sympy could not establish the integral'))
        except Exception as e:      # noqa
            out.append(Extra(name, 'lemma', 'unknown', 'sympy', time.time() - t0, f'{type(e).__name__}: {e}'[:300]))
    return out


def extras(tier, seed) -> list[Extra]:
    return static_obligations() + lemma_obligations() + bounded_obligations(tier, seed)
