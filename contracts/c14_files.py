"""Contracts for biogeme.filenames / biogeme.tools.files / biogeme.parameters (C14)."""
import ast

from pyvc.contract import contract
from pyvc.repo import get_repo

_NUMBERED = "f'{name}~{NUM:02d}.{ext}'"


def _loop_locals():
    """Names of the three loop variables of get_new_file_name, read from the current AST (so that renaming a
    local does not invalidate the sidecar invariant): the tested path object, the candidate name, the counter."""
    path_var, name_var, count_var = 'the_file', 'file_name', 'number'
    fi = get_repo().function('biogeme.filenames.get_new_file_name')
    if fi is None:
        return path_var, name_var, count_var
    loops = [n for n in ast.walk(fi.node) if isinstance(n, ast.While)]
    if len(loops) != 1:
        return path_var, name_var, count_var
    loop = loops[0]
    for n in ast.walk(loop.test):
        if isinstance(n, ast.Call) and isinstance(n.func, ast.Attribute) and isinstance(n.func.value, ast.Name):
            path_var = n.func.value.id
    for st in loop.body:
        if isinstance(st, ast.AugAssign) and isinstance(st.target, ast.Name):
            count_var = st.target.id
        elif isinstance(st, ast.Assign) and len(st.targets) == 1 and isinstance(st.targets[0], ast.Name):
            if st.targets[0].id != path_var and not isinstance(st.value, ast.BinOp):
                name_var = st.targets[0].id
            elif st.targets[0].id != path_var and isinstance(st.value, ast.BinOp):
                count_var = st.targets[0].id
    return path_var, name_var, count_var


_P, _F, _N = _loop_locals()

contract('biogeme.filenames.get_new_file_name', 'C14',
         types={'name': 'str', 'ext': 'str'},
         ensures={
             # the returned name does not exist (never overwrite)
             'fresh': "not fs_is_file(result)",
             # name.ext or name~NN.ext
             'shape': "result == name + '.' + ext or exists(lambda q: q >= 0 and result == " + _NUMBERED.replace('NUM', 'q') + ", ty='int')",
             # the plain name is used whenever it is free
             'plain_when_free': "implies(not fs_is_file(name + '.' + ext), result == name + '.' + ext)",
         },
         invariants={1: {'clauses': {
             'path': f"{_P} == {_F}",
             'count': f"{_N} >= 0",
             'name': f"({_N} == 0 and {_F} == name + '.' + ext) or "
                     f"({_N} >= 1 and fs_is_file(name + '.' + ext) and {_F} == " + _NUMBERED.replace('NUM', f'{_N} - 1') + ")",
         }}},
         replay="""
import os
from biogeme.filenames import get_new_file_name
violated = False
many = ['out.html'] + [f'out~{k:02d}.html' for k in range(120)]
for existing in ([], ['out.html'], ['out.html', 'out~00.html'], ['out.html', 'out~00.html', 'out~01.html'], ['out~00.html'],
                 many[:11], many[:101], many[:102], many):
    for f in os.listdir('.'):
        os.remove(f)
    for f in existing:
        with open(f, 'w') as h:
            h.write('old ' + f)
    r = get_new_file_name('out', 'html')
    ok_shape = r == 'out.html' or (r.startswith('out~') and r.endswith('.html') and r[4:-5].isdigit() and len(r[4:-5]) >= 2)
    if os.path.exists(r) or not ok_shape or ('out.html' not in existing and r != 'out.html'):
        violated = True
        detail = f'existing files {existing}: get_new_file_name("out", "html") returned {r!r}'
        break
""")

# ---------------------------------------------------------------------------------------------
# create_backup: the backup copy / renamed file never replaces anything
# ---------------------------------------------------------------------------------------------
def _backup_scheme():
    """Naming scheme of create_backup read from the current AST (so that re-writing the f-string as a concatenation,
    or renaming locals, does not invalidate the sidecar): returns (counter local, text of the candidate-name expression
    with the counter replaced by NUM, the same with base / extension replaced by os.path.splitext(filename)[0] / [1])."""
    base, ext, counter = 'original_base_name', 'original_extension', 'counter'
    expr = "f'{original_base_name}_{counter}{original_extension}'"
    fi = get_repo().function('biogeme.tools.files.create_backup')
    if fi is not None:
        for n in ast.walk(fi.node):
            if (isinstance(n, ast.Assign) and len(n.targets) == 1 and isinstance(n.targets[0], ast.Tuple)
                    and len(n.targets[0].elts) == 2 and all(isinstance(e, ast.Name) for e in n.targets[0].elts)
                    and isinstance(n.value, ast.Call) and ast.unparse(n.value.func).endswith('splitext')):
                base, ext = (e.id for e in n.targets[0].elts)
        loops = [n for n in ast.walk(fi.node) if isinstance(n, ast.While)]
        if len(loops) == 1:
            tested = None
            for m in ast.walk(loops[0]):
                if isinstance(m, ast.AugAssign) and isinstance(m.target, ast.Name):
                    counter = m.target.id
                if isinstance(m, ast.Call) and ast.unparse(m.func).endswith('exists') and m.args and isinstance(m.args[0], ast.Name):
                    tested = m.args[0].id
            for st in loops[0].body:
                if isinstance(st, ast.Assign) and len(st.targets) == 1 and isinstance(st.targets[0], ast.Name) and st.targets[0].id == tested:
                    expr = ast.unparse(st.value)

    def subst(text, mapping):
        tree = ast.parse(text, mode='eval')

        class T(ast.NodeTransformer):
            def visit_Name(self, node):
                if node.id in mapping:
                    return ast.parse(mapping[node.id], mode='eval').body
                return node
        return ast.unparse(T().visit(tree))

    in_loop = subst(expr, {counter: 'NUM'})
    at_exit = subst(expr, {counter: 'NUM', base: 'os.path.splitext(filename)[0]', ext: 'os.path.splitext(filename)[1]'})
    return counter, in_loop, at_exit


_BC, _BACKUP_LOOP, _BACKUP = _backup_scheme()

contract('biogeme.tools.files.create_backup', 'C14',
         types={'filename': 'str', 'rename': 'bool'},
         returns='str | None',
         ensures={
             'new_name_was_free': "implies(old(fs_exists(filename)), result is not None and not fs_existed(typed(result, 'str')))",
             'nothing_to_back_up': "implies(not old(fs_exists(filename)), result is None)",
             'backup_exists': "implies(old(fs_exists(filename)), fs_is_file(typed(result, 'str')))",
             # the code's own naming scheme (read from the AST: <base>_<n><ext>) with the SMALLEST n >= 1 whose name was free
             # (round 3: the counter was not pinned)
             'smallest_free_number': "implies(old(fs_exists(filename)), exists(lambda q: q >= 1 and typed(result, 'str') == "
                                     + _BACKUP.replace('NUM', 'q') + " and forall(lambda j: implies(1 <= j and j < q, fs_existed("
                                     + _BACKUP.replace('NUM', 'j') + ")), ty='int'), ty='int'))",
             # the original is gone iff it was renamed (a copy keeps it)
             'original_moved_iff_rename': "implies(old(fs_is_file(filename)), fs_is_file(filename) == (not rename))",
             # the backup holds what the original held (rename / copy carry the content)
             'backup_has_the_content': "implies(old(fs_is_file(filename)), fs_content(typed(result, 'str')) == old(fs_content(filename)))",
             'only_backup_changes': "forall(lambda p: implies(p != filename and not same(p, result), fs_is_file(p) == old(fs_is_file(p))), ty='str')",
         },
         invariants={1: {'clauses': {
             'counter_from_one': f"{_BC} >= 1",
             'smaller_taken': f"forall(lambda j: implies(1 <= j and j < {_BC}, fs_exists(" + _BACKUP_LOOP.replace('NUM', 'j') + ")), ty='int')",
         }}},
         replay="""
import os
from biogeme.tools.files import create_backup
violated = False
for rename in (True, False):
    for existing in (['a.toml'], ['a.toml', 'a_1.toml'], ['a.toml', 'a_1.toml', 'a_2.toml']):
        for f in os.listdir('.'):
            os.remove(f)
        for f in existing:
            with open(f, 'w') as h:
                h.write('content of ' + f)
        r = create_backup('a.toml', rename=rename)
        kept = all(os.path.exists(f) and open(f).read() == 'content of ' + f for f in existing if f != 'a.toml')
        moved = r is not None and r not in existing and open(r).read() == 'content of a.toml'
        if not (kept and moved):
            violated = True
            detail = f'rename={rename} existing={existing}: create_backup returned {r!r}; earlier backups intact: {kept}'
            break
    if violated:
        break
""")

# ---------------------------------------------------------------------------------------------
# boolean coding of the parameter file: generate_document writes 'True' / 'False', import_document
# reads them back with parse_boolean
# ---------------------------------------------------------------------------------------------
contract('biogeme.parameters.parse_boolean', 'C14',
         types={'value': 'str'},
         raises={'BiogemeError': "value not in ('True', 'true', 'Yes', 'yes') and value not in ('False', 'false', 'No', 'no')"},
         ensures={
             'round_trip_true': "implies(value == 'True', result == True)",
             'round_trip_false': "implies(value == 'False', result == False)",
             'decoding': "result == (value in ('True', 'true', 'Yes', 'yes'))",
         },
         replay="""
from biogeme.parameters import parse_boolean
violated = False
for b in (True, False):
    coded = 'True' if b else 'False'       # the coding used by Parameters.generate_document
    try:
        back = parse_boolean(coded)
    except Exception as e:
        back = repr(e)
    if back is not b:
        violated = True
        detail = f'parse_boolean({coded!r}) = {back!r}, expected {b!r}'
        break
""")
