"""C20 - deprecated aliases: AST inventory of the whole package and the static decision procedures.

Nothing of biogeme is imported.  Everything is recomputed from the current AST (pyvc.repo.get_repo())
on every run: the alias sites (`@deprecated(...)`, `@deprecated_parameters(...)`), the class table, the
real C3 linearisation, the shape of the two wrappers in deprecated.py.

No pyvc contract is registered here: the two wrappers take *args/**kwargs and are closures, which the
VC generator does not model (`Unsupported('**kwargs parameter')`); their semantics is covered by a few
alpha-insensitive structural obligations below plus the bounded stand-in bounded/c20_native.py.

Obligation families (all `kind='static'`, backend `ast-static`):
  C20:static:wrapper:<wrapper>:<clause>                          shape of the two wrappers
  C20:static:target:<Owner.>old->new                             replacement exists, is bound before, binding kind
  C20:static:name-match:<module>.<Owner.>old->new                snake_case(old) == new or reviewed pair; docstring
  C20:static:signature-compatible:<Owner.>old->new               every call accepted by the alias is accepted by new
  C20:static:dispatch:<Class>.old->new                           classes inheriting the alias without override
  C20:static:dispatch:<Class>.old->new@<Sub>                     one per (alias, class that overrides `new`)
  C20:static:keyword-exists:<func>:<old_kw>-><new_kw>            renamed keyword is a real parameter
  C20:static:keyword-inherited:<Class.func>:<old_kw>@<Sub>       overriding subclass keeps the old keyword
"""
from __future__ import annotations

import ast
import re
import time
from dataclasses import dataclass, field

from pyvc.repo import get_repo, Repo, ClassInfo, ModuleInfo

# reviewed pairs whose names do not coincide up to case/underscores (DESIGN section 3 / C20 (c))
REVIEWED_NAME_PAIRS = {
    ('cnl_avail', 'cnl'),            # "with availability": the availability argument became standard
    ('logcnl_avail', 'logcnl'),
    ('segment_parameter', 'segmented_beta'),
}

DEPRECATED_MODULE = 'biogeme.deprecated'


# ---------------------------------------------------------------------------------------------
@dataclass
class Alias:
    module: str
    owner: str | None            # class key or None
    owner_ci: ClassInfo | None
    old: str
    new: str | None              # name written in the decorator
    node: ast.FunctionDef
    line: int
    file: str
    target: ast.FunctionDef | None = None
    target_scope: str = ''       # class | module | import | ''
    target_module: str = ''
    target_note: str = ''
    other_decorators: list[str] = field(default_factory=list)

    @property
    def qual(self) -> str:
        return f'{self.owner}.{self.old}' if self.owner else self.old

    @property
    def label(self) -> str:
        return f'{self.qual}->{self.new}'


@dataclass
class KwSite:
    module: str
    owner: str | None
    owner_ci: ClassInfo | None
    func: str
    node: ast.FunctionDef
    mapping: dict | None         # old -> new | None ; None when the literal cannot be read
    line: int
    file: str
    other_decorators: list[str] = field(default_factory=list)

    @property
    def qual(self) -> str:
        return f'{self.owner}.{self.func}' if self.owner else f'{self.module.split(".", 1)[-1]}.{self.func}'


def _deco_kind(mi: ModuleInfo, d: ast.expr) -> str | None:
    """'deprecated' / 'deprecated_parameters' when the decorator is a call of the biogeme wrapper."""
    if not isinstance(d, ast.Call):
        return None
    f = d.func
    if isinstance(f, ast.Name):
        tgt = mi.imports.get(f.id, '')
        if tgt.startswith(DEPRECATED_MODULE + '.'):
            return tgt.rsplit('.', 1)[1]
        if mi.name == DEPRECATED_MODULE and f.id in ('deprecated', 'deprecated_parameters'):
            return f.id
        return None
    if isinstance(f, ast.Attribute) and f.attr in ('deprecated', 'deprecated_parameters'):
        base = ast.unparse(f.value)
        if mi.imports.get(base.split('.')[0], '').startswith('biogeme') and base.endswith('deprecated'):
            return f.attr
    return None


def _bodies(mi: ModuleInfo, R: Repo):
    """(owner ClassInfo | None, list of statements) for the module body and every class body (nested in if/try too)."""
    def rec(stmts, owner):
        yield owner, stmts
        for s in stmts:
            if isinstance(s, ast.ClassDef):
                ci = None
                for c in R.classes.get(s.name, []):
                    if c.node is s:
                        ci = c
                yield from rec(s.body, ci if ci is not None else ClassInfo(s.name, mi.name, s, [ast.unparse(b) for b in s.bases]))
            elif isinstance(s, (ast.If, ast.Try)):
                for blk in (s.body, getattr(s, 'orelse', []), getattr(s, 'finalbody', [])):
                    if blk:
                        yield from rec(blk, owner)
    yield from rec(mi.tree.body, None)


def inventory(R: Repo | None = None) -> tuple[list[Alias], list[KwSite]]:
    R = R or get_repo()
    aliases: list[Alias] = []
    kws: list[KwSite] = []
    for mname in sorted(R.modules):
        mi = R.modules[mname]
        for owner, stmts in _bodies(mi, R):
            for idx, s in enumerate(stmts):
                if not isinstance(s, (ast.FunctionDef, ast.AsyncFunctionDef)):
                    continue
                for d in s.decorator_list:
                    k = _deco_kind(mi, d)
                    if k is None:
                        continue
                    others = [ast.unparse(x) for x in s.decorator_list if x is not d]
                    okey = R.class_key(owner) if owner is not None else None
                    if k == 'deprecated':
                        arg = d.args[0] if d.args else next((kw.value for kw in d.keywords if kw.arg == 'new_func'), None)
                        a = Alias(mname, okey, owner, s.name, arg.id if isinstance(arg, ast.Name) else None, s, s.lineno,
                                  mi.file, other_decorators=others)
                        if not isinstance(arg, ast.Name):
                            a.target_note = f'decorator argument is not a plain name: {ast.unparse(arg) if arg is not None else None}'
                        else:
                            _resolve_target(R, mi, a, stmts, idx, owner)
                        aliases.append(a)
                    elif k == 'deprecated_parameters':
                        arg = d.args[0] if d.args else next((kw.value for kw in d.keywords if kw.arg == 'obsolete_params'), None)
                        mapping = None
                        if isinstance(arg, ast.Dict) and all(isinstance(kk, ast.Constant) and isinstance(kk.value, str) for kk in arg.keys) \
                                and all(isinstance(v, ast.Constant) and (v.value is None or isinstance(v.value, str)) for v in arg.values):
                            mapping = {}
                            for kk, v in zip(arg.keys, arg.values):
                                mapping.setdefault(kk.value, []).append(v.value)
                        kws.append(KwSite(mname, okey, owner, s.name, s, mapping, s.lineno, mi.file, others))
    return aliases, kws


def _resolve_target(R: Repo, mi: ModuleInfo, a: Alias, stmts, idx, owner):
    name = a.new
    if owner is not None:
        for s in reversed(stmts[:idx]):
            if isinstance(s, (ast.FunctionDef, ast.AsyncFunctionDef)) and s.name == name:
                a.target, a.target_scope, a.target_module = s, 'class', mi.name
                return
            if isinstance(s, ast.Assign) and any(isinstance(t, ast.Name) and t.id == name for t in s.targets):
                a.target_note = f'{name} is bound by an assignment in the class body (line {s.lineno}); not analysed'
                return
        for s in stmts[idx:]:
            if isinstance(s, (ast.FunctionDef, ast.AsyncFunctionDef)) and s.name == name and s is not a.node:
                a.target_note = (f'{name} is defined in the class only AFTER the alias (line {s.lineno}); the decorator '
                                 f'captures the module-level name instead')
                break
    # module level
    later = None
    for s in mi.tree.body:
        if isinstance(s, (ast.FunctionDef, ast.AsyncFunctionDef)) and s.name == name:
            if s.lineno < a.line:
                # the last definition before the alias is the object the decorator captures
                a.target, a.target_scope, a.target_module = s, 'module', mi.name
            else:
                later = s
    if a.target is not None:
        if later is not None:
            a.target_note = (f'{name} is redefined at line {later.lineno}, after the alias captured the definition of line '
                             f'{a.target.lineno}: the alias forwards to a stale function')
        return
    if later is not None and name not in mi.imports:
        a.target_note = f'{name} is defined only after the alias (line {later.lineno}): NameError at import'
        return
    if name in mi.imports:
        fi = R.function(mi.imports[name])
        if fi is not None and fi.cls is None:
            a.target, a.target_scope, a.target_module = fi.node, 'import', fi.module
            return
        a.target_note = a.target_note or f'{name} is imported from {mi.imports[name]}, which is not a function of the package'
        return
    a.target_note = a.target_note or f'no binding of {name} is visible at the decorator'


# ---------------------------------------------------------------------------------------------
# class table helpers: real C3 linearisation
def c3(R: Repo, ci: ClassInfo, _memo=None) -> list[ClassInfo]:
    _memo = {} if _memo is None else _memo
    if id(ci) in _memo:
        return _memo[id(ci)]
    bases = [b for b in (R.find_class(bn, ci.module) for bn in ci.bases) if b is not None and b is not ci]
    seqs = [list(c3(R, b, _memo)) for b in bases] + [list(bases)]
    out = [ci]
    while any(seqs):
        seqs = [s for s in seqs if s]
        for s in seqs:
            cand = s[0]
            if not any(cand in t[1:] for t in seqs):
                break
        else:   # inconsistent hierarchy: fall back to depth-first
            cand = seqs[0][0]
        out.append(cand)
        seqs = [[x for x in s if x is not cand] for s in seqs]
    _memo[id(ci)] = out
    return out


def all_classes(R: Repo) -> list[ClassInfo]:
    return [c for lst in R.classes.values() for c in lst]


def class_def_of(R: Repo, ci: ClassInfo, name: str, memo) -> tuple[ClassInfo, ast.AST] | None:
    """First class of the MRO whose body binds `name` (def or assignment); returns the LAST binding in that body."""
    for c in c3(R, ci, memo):
        found = None
        for s in c.node.body:
            if isinstance(s, (ast.FunctionDef, ast.AsyncFunctionDef)) and s.name == name:
                found = s
            elif isinstance(s, ast.Assign) and any(isinstance(t, ast.Name) and t.id == name for t in s.targets):
                found = s
            elif isinstance(s, ast.AnnAssign) and isinstance(s.target, ast.Name) and s.target.id == name and s.value is not None:
                found = s
        if found is not None:
            return c, found
    return None


# ---------------------------------------------------------------------------------------------
# shape of the two wrappers (alpha-insensitive: parameters and nested function names are read from the AST)
@dataclass
class WrapperShape:
    mode: str = 'unrecognised'     # captured | receiver | unrecognised
    note: str = ''
    clauses: dict = field(default_factory=dict)   # clause -> (ok: bool | None, detail)
    site_pred: object = None                      # receiver mode: (qualname, name) -> guard holds for that alias site


def _nested_defs(fn):
    return [s for s in fn.body if isinstance(s, ast.FunctionDef)]


def _own_nodes(fn):
    """nodes of fn's body, not descending into nested defs/lambdas"""
    out = []
    stack = list(fn.body)
    while stack:
        n = stack.pop()
        if isinstance(n, (ast.FunctionDef, ast.AsyncFunctionDef, ast.Lambda, ast.ClassDef)):
            continue
        out.append(n)
        for ch in ast.iter_child_nodes(n):
            if isinstance(ch, (ast.FunctionDef, ast.AsyncFunctionDef, ast.Lambda, ast.ClassDef)):
                continue
            stack.append(ch)
    return out


def _is_name(n, ident):
    return isinstance(n, ast.Name) and n.id == ident


def analyse_deprecated_wrapper(R: Repo) -> WrapperShape:
    ws = WrapperShape()
    mi = R.modules.get(DEPRECATED_MODULE)
    cl = ws.clauses
    if mi is None or 'deprecated' not in mi.functions:
        ws.note = 'biogeme.deprecated.deprecated not found'
        cl['structure'] = (False, ws.note)
        return ws
    outer = mi.functions['deprecated'].node
    try:
        p_new = outer.args.args[0].arg
        (deco,) = _nested_defs(outer)
        p_old = deco.args.args[0].arg
        (wrap,) = _nested_defs(deco)
        va, kw = wrap.args.vararg.arg, wrap.args.kwarg.arg
        assert not wrap.args.args and not wrap.args.kwonlyargs and not wrap.args.posonlyargs
    except Exception as e:   # noqa
        ws.note = f'unexpected nesting of deprecated/decorator/wrapper ({type(e).__name__})'
        cl['structure'] = (False, ws.note)
        return ws
    # returns chain: deprecated returns decorator, decorator returns wrapper
    r_outer = [n for n in _own_nodes(outer) if isinstance(n, ast.Return)]
    r_deco = [n for n in _own_nodes(deco) if isinstance(n, ast.Return)]
    cl['structure'] = (len(r_outer) == 1 and _is_name(r_outer[0].value, deco.name)
                       and len(r_deco) == 1 and _is_name(r_deco[0].value, wrap.name),
                       'deprecated returns the decorator, the decorator returns the wrapper (*args, **kwargs only)')
    nodes = _own_nodes(wrap)
    # the alias body is never executed: old_func never in call position, never passed on, in wrapper and decorator
    bad = []
    for scope in (wrap, deco):
        for n in _own_nodes(scope):
            if isinstance(n, ast.Call):
                if _is_name(n.func, p_old):
                    bad.append(f'line {n.lineno}: {p_old}(...) is called')
                fn = ast.unparse(n.func)
                if fn not in ('functools.wraps', 'wraps'):
                    for a_ in list(n.args) + [k.value for k in n.keywords]:
                        if any(_is_name(x, p_old) for x in ast.walk(a_)) and not all(
                                isinstance(par, ast.Attribute) for par in _parents_of_name(a_, p_old)):
                            bad.append(f'line {n.lineno}: {p_old} is passed to {fn}')
    cl['alias-body-never-run'] = (not bad, '; '.join(bad) or f'{p_old} only feeds functools.wraps and .__name__/.__qualname__ reads')
    # returns of the wrapper
    rets = [n for n in nodes if isinstance(n, ast.Return)]

    def fwd_all(c):      # f(*args, **kwargs)
        return (isinstance(c, ast.Call) and len(c.args) == 1 and isinstance(c.args[0], ast.Starred) and _is_name(c.args[0].value, va)
                and len(c.keywords) == 1 and c.keywords[0].arg is None and _is_name(c.keywords[0].value, kw))

    def fwd_tail(c):     # f(*args[1:], **kwargs)
        if not (isinstance(c, ast.Call) and len(c.args) == 1 and isinstance(c.args[0], ast.Starred)
                and len(c.keywords) == 1 and c.keywords[0].arg is None and _is_name(c.keywords[0].value, kw)):
            return False
        v = c.args[0].value
        return (isinstance(v, ast.Subscript) and _is_name(v.value, va) and isinstance(v.slice, ast.Slice)
                and isinstance(v.slice.lower, ast.Constant) and v.slice.lower.value == 1 and v.slice.upper is None and v.slice.step is None)

    def new_name_expr(e):   # new_func.__name__
        return isinstance(e, ast.Attribute) and e.attr == '__name__' and _is_name(e.value, p_new)

    def recv0(e):           # args[0]
        return (isinstance(e, ast.Subscript) and _is_name(e.value, va) and isinstance(e.slice, ast.Constant) and e.slice.value == 0)

    def receiver_lookup(f):  # getattr(args[0], new_func.__name__)
        return (isinstance(f, ast.Call) and _is_name(f.func, 'getattr') and len(f.args) == 2 and not f.keywords
                and recv0(f.args[0]) and new_name_expr(f.args[1]))

    captured = [r for r in rets if r.value is not None and fwd_all(r.value) and _is_name(r.value.func, p_new)]
    receiver = [r for r in rets if r.value is not None and fwd_tail(r.value) and receiver_lookup(r.value.func)]
    other = [r for r in rets if r not in captured and r not in receiver]
    falls_off = not (wrap.body and isinstance(wrap.body[-1], ast.Return))
    cl['forwards-args'] = (bool(rets) and not other and not falls_off,
                           ('every return forwards (*args, **kwargs) unchanged to the replacement' if not other and not falls_off else
                            'return(s) that do not forward the arguments unchanged: ' +
                            ', '.join(f'line {r.lineno}: {ast.unparse(r)[:80]}' for r in other) + (' ; wrapper can fall off its end' if falls_off else '')))
    # nothing but the warning: whitelist of statements and calls; one unconditional warnings.warn
    # helpers of the same module that do nothing but issue one DeprecationWarning (e.g. issue_deprecation_warning)
    warn_helpers = set()
    for fname, fi in mi.functions.items():
        body = [st for st in fi.node.body if not (isinstance(st, ast.Expr) and isinstance(st.value, ast.Constant))]
        if (len(body) == 1 and isinstance(body[0], ast.Expr) and isinstance(body[0].value, ast.Call)
                and ast.unparse(body[0].value.func) == 'warnings.warn' and len(body[0].value.args) >= 2
                and _is_name(body[0].value.args[1], 'DeprecationWarning')):
            warn_helpers.add(fname)
    warn_calls = {'warnings.warn'} | warn_helpers
    allowed_calls = {'getattr', 'hasattr', 'isinstance', 'type', 'len', 'BiogemeError', p_new} | warn_calls
    eff = []
    for n in nodes:
        if isinstance(n, ast.Call):
            fn = ast.unparse(n.func)
            if fn in allowed_calls or receiver_lookup(n.func):
                continue
            eff.append(f'line {n.lineno}: call of {fn[:40]}')
        elif isinstance(n, (ast.Global, ast.Nonlocal, ast.Delete, ast.While, ast.For, ast.With, ast.Try, ast.Import, ast.ImportFrom,
                            ast.Yield, ast.YieldFrom, ast.Await, ast.AugAssign)):
            eff.append(f'line {n.lineno}: {type(n).__name__}')
        elif isinstance(n, ast.Assign):
            for t in n.targets:
                if not isinstance(t, ast.Name):
                    eff.append(f'line {n.lineno}: assignment to {ast.unparse(t)[:40]}')
        elif isinstance(n, ast.Starred) and isinstance(n.ctx, ast.Load):
            pass
    # args / kwargs are never rebound or mutated
    for n in nodes:
        if isinstance(n, ast.Name) and isinstance(n.ctx, (ast.Store, ast.Del)) and n.id in (va, kw):
            eff.append(f'line {n.lineno}: {n.id} is rebound')
        if isinstance(n, ast.Call) and isinstance(n.func, ast.Attribute) and _is_name(n.func.value, kw):
            eff.append(f'line {n.lineno}: {kw}.{n.func.attr}(...)')
        if isinstance(n, ast.Subscript) and isinstance(n.ctx, (ast.Store, ast.Del)) and (_is_name(n.value, kw) or _is_name(n.value, va)):
            eff.append(f'line {n.lineno}: item of {ast.unparse(n.value)} is written')
    warns_top = [s for s in wrap.body if isinstance(s, ast.Expr) and isinstance(s.value, ast.Call)
                 and ast.unparse(s.value.func) in warn_calls]
    warns_all = [n for n in nodes if isinstance(n, ast.Call) and ast.unparse(n.func) in warn_calls]
    one_warning = len(warns_top) == 1 and len(warns_all) == 1
    first_ret = min((wrap.body.index(s) for s in wrap.body if any(isinstance(x, ast.Return) for x in ast.walk(s))), default=len(wrap.body))
    warn_before = one_warning and wrap.body.index(warns_top[0]) < first_ret
    cat_ok = one_warning and (ast.unparse(warns_all[0].func) in warn_helpers
                              or (len(warns_all[0].args) >= 2 and _is_name(warns_all[0].args[1], 'DeprecationWarning')))
    cl['only-warning-effect'] = (not eff and one_warning and warn_before and cat_ok,
                                 '; '.join(eff) or ('exactly one unconditional warnings.warn(..., DeprecationWarning) before any return; no other effect'
                                                    if one_warning and warn_before and cat_ok else
                                                    f'warnings.warn calls: {len(warns_all)} (top-level {len(warns_top)}), before return: {warn_before}, category ok: {cat_ok}'))
    # the message names the replacement
    msg_ok = False
    if one_warning and warns_all[0].args:
        m = warns_all[0].args[0]
        src = m
        if isinstance(m, ast.Name):
            for s in wrap.body:
                if isinstance(s, ast.Assign) and any(_is_name(t, m.id) for t in s.targets):
                    src = s.value
        parts = [x for x in ast.walk(src)]
        msg_ok = any(new_name_expr(x) for x in parts) and any(
            isinstance(x, ast.Attribute) and x.attr == '__name__' and _is_name(x.value, p_old) for x in parts)
    cl['warning-names-replacement'] = (msg_ok, 'the message contains old_func.__name__ and new_func.__name__')
    # RAISE_EXCEPTION is the constant False
    g = mi.globals_.get('RAISE_EXCEPTION')
    raises = [n for n in nodes if isinstance(n, ast.Raise)]
    guarded = all(any(isinstance(s, ast.If) and _is_name(s.test, 'RAISE_EXCEPTION') and n in list(ast.walk(s)) for s in wrap.body) for n in raises)
    flag_off = (not raises) or (guarded and isinstance(g, ast.Constant) and g.value is False)
    cl['raise-flag-off'] = (flag_off, 'no raise in the wrapper, or only under `if RAISE_EXCEPTION` with RAISE_EXCEPTION = False at module level')
    # ---- dispatch mode
    if other or not rets or falls_off:
        ws.mode, ws.note = 'unrecognised', 'the wrapper has a return that is neither new_func(*args, **kwargs) nor the receiver dispatch form'
    elif not receiver:
        ws.mode, ws.note = 'captured', f'every return of the wrapper is {p_new}(*{va}, **{kw}): the function object captured at decoration time'
    else:
        # receiver form must be guarded by a test that holds for every bound call of a method alias
        ok, why, ws.site_pred = _receiver_guard_ok(wrap, deco, receiver, va, p_old, p_new, recv0, new_name_expr)
        if ok:
            ws.mode, ws.note = 'receiver', ('method aliases look the replacement up by name on the receiver: '
                                            f'getattr({va}[0], {p_new}.__name__)(*{va}[1:], **{kw}); ' + why)
        else:
            ws.mode, ws.note = 'unrecognised', 'receiver dispatch present but its guard is not of a recognised form: ' + why
    return ws


def _parents_of_name(root, ident):
    out = []
    for n in ast.walk(root):
        for ch in ast.iter_child_nodes(n):
            if _is_name(ch, ident):
                out.append(n)
    if _is_name(root, ident):
        out.append(root)     # the bare name itself: its "parent" is not an attribute access
    return out


_SAFE_NODES = (ast.Expression, ast.BoolOp, ast.And, ast.Or, ast.UnaryOp, ast.Not, ast.Compare, ast.Eq, ast.NotEq, ast.In, ast.NotIn,
               ast.Is, ast.IsNot, ast.Attribute, ast.Name, ast.Constant, ast.Call, ast.Subscript, ast.Load, ast.Tuple, ast.Slice,
               ast.IfExp, ast.Gt, ast.GtE, ast.Lt, ast.LtE, ast.BinOp, ast.Add)
_SAFE_STR_METHODS = {'rpartition', 'partition', 'endswith', 'startswith', 'split', 'rsplit', 'count', 'find', 'rfind', 'strip'}


def _safe_pure(e: ast.expr, allowed_names: set) -> bool:
    """expression built from string operations over the allowed names only (evaluated below with no builtins)"""
    for n in ast.walk(e):
        if not isinstance(n, _SAFE_NODES):
            return False
        if isinstance(n, ast.Name) and n.id not in allowed_names:
            return False
        if isinstance(n, ast.Call):
            if not (isinstance(n.func, ast.Attribute) and n.func.attr in _SAFE_STR_METHODS) or n.keywords:
                return False
        if isinstance(n, ast.Attribute) and n.attr not in _SAFE_STR_METHODS | {'__qualname__', '__name__'}:
            return False
    return True


class _FnStub:
    def __init__(self, qualname, name):
        self.__qualname__, self.__name__ = qualname, name


def _receiver_guard_ok(wrap, deco, receiver, va, p_old, p_new, recv0, new_name_expr):
    """Each receiver-dispatch return sits directly in `if G:` at the top level of the wrapper, G a conjunction of
       * `args`                                    (non-empty positional arguments: true for a bound call)
       * `hasattr(args[0] | type(args[0]), new.__name__)`   (true when the owner class defines `new`)
       * pure string tests over old_func.__qualname__/__name__ (possibly through locals assigned in the decorator):
         these are EVALUATED per alias site with the qualname that site has (`Class.old`).
    Returns (ok, why, site_pred(qualname, name) -> bool)."""
    assigns = []      # straight-line assignments of the decorator body that are pure string computations
    known = {p_old}
    for s in deco.body:
        if isinstance(s, ast.Assign) and len(s.targets) == 1 and isinstance(s.targets[0], ast.Name) and _safe_pure(s.value, known):
            assigns.append((s.targets[0].id, s.value))
            known.add(s.targets[0].id)
    pure_conj = []
    for r in receiver:
        host = [s for s in wrap.body if isinstance(s, ast.If) and r in s.body]
        if not host:
            return False, f'line {r.lineno}: not directly inside a top-level if', None
        g = host[0].test
        conj = g.values if isinstance(g, ast.BoolOp) and isinstance(g.op, ast.And) else [g]
        has_args = False
        for c in conj:
            if _is_name(c, va):
                has_args = True
                continue
            if isinstance(c, ast.Call) and _is_name(c.func, 'hasattr') and len(c.args) == 2 and new_name_expr(c.args[1]):
                a0 = c.args[0]
                if recv0(a0) or (isinstance(a0, ast.Call) and _is_name(a0.func, 'type') and len(a0.args) == 1 and recv0(a0.args[0])):
                    continue
            if _safe_pure(c, known):
                pure_conj.append(c)
                continue
            return False, f'line {host[0].lineno}: conjunct `{ast.unparse(c)}` of the guard is not recognised', None
        if not has_args:
            return False, f'line {host[0].lineno}: guard does not test that a receiver was passed', None

    def site_pred(qualname, name):
        env = {'__builtins__': {}, p_old: _FnStub(qualname, name)}
        try:
            for tgt, val in assigns:
                env[tgt] = eval(compile(ast.Expression(val), '<c20>', 'eval'), env)     # noqa: S307 (whitelisted string ops only)
            return all(bool(eval(compile(ast.Expression(c), '<c20>', 'eval'), env)) for c in pure_conj)
        except Exception:   # noqa
            return False
    return True, ('guard = receiver passed, owner class has the replacement, and `'
                  + ' and '.join(ast.unparse(c) for c in pure_conj) + '` evaluated per alias site'), site_pred


def analyse_parameters_wrapper(R: Repo) -> dict:
    """Structural clauses for deprecated_parameters (alpha-insensitive, deliberately coarse: the exact renaming
    semantics is the job of the bounded stand-in)."""
    mi = R.modules.get(DEPRECATED_MODULE)
    cl = {}
    if mi is None or 'deprecated_parameters' not in mi.functions:
        return {'structure': (False, 'biogeme.deprecated.deprecated_parameters not found')}
    outer = mi.functions['deprecated_parameters'].node
    try:
        p_map = outer.args.args[0].arg
        (deco,) = _nested_defs(outer)
        p_fn = deco.args.args[0].arg
        (wrap,) = _nested_defs(deco)
        va, kw = wrap.args.vararg.arg, wrap.args.kwarg.arg
    except Exception as e:   # noqa
        return {'structure': (False, f'unexpected nesting ({type(e).__name__})')}
    r_outer = [n for n in _own_nodes(outer) if isinstance(n, ast.Return)]
    r_deco = [n for n in _own_nodes(deco) if isinstance(n, ast.Return)]
    cl['structure'] = (len(r_outer) == 1 and _is_name(r_outer[0].value, deco.name) and len(r_deco) == 1
                       and _is_name(r_deco[0].value, wrap.name), 'returns chain outer -> decorator -> wrapper')
    nodes = _own_nodes(wrap)
    rets = [n for n in nodes if isinstance(n, ast.Return)]
    good = []
    for r in rets:
        c = r.value
        if (isinstance(c, ast.Call) and _is_name(c.func, p_fn) and len(c.args) == 1 and isinstance(c.args[0], ast.Starred)
                and _is_name(c.args[0].value, va) and len(c.keywords) == 1 and c.keywords[0].arg is None
                and isinstance(c.keywords[0].value, ast.Name)):
            good.append(r)
    falls_off = not (wrap.body and isinstance(wrap.body[-1], ast.Return))
    cl['calls-decorated-function-once'] = (len(rets) == len(good) == 1 and not falls_off,
                                           f'single return {p_fn}(*{va}, **<processed keywords>); positional arguments untouched')
    calls_fn = [n for n in nodes if isinstance(n, ast.Call) and _is_name(n.func, p_fn)]
    cl['no-other-call-of-function'] = (len(calls_fn) == 1, f'{p_fn} is called exactly once')
    bad = []
    for n in nodes:
        if isinstance(n, ast.Name) and isinstance(n.ctx, (ast.Store, ast.Del)) and n.id in (va, p_map):
            bad.append(f'line {n.lineno}: {n.id} rebound')
        if isinstance(n, ast.Subscript) and isinstance(n.ctx, (ast.Store, ast.Del)) and (_is_name(n.value, p_map) or _is_name(n.value, va) or _is_name(n.value, kw)):
            bad.append(f'line {n.lineno}: {ast.unparse(n.value)}[...] written')
        if isinstance(n, ast.Call) and isinstance(n.func, ast.Attribute) and (_is_name(n.func.value, p_map) or _is_name(n.func.value, kw)) \
                and n.func.attr in ('pop', 'update', 'clear', 'setdefault', 'popitem'):
            bad.append(f'line {n.lineno}: {ast.unparse(n.func)}(...)')
        if isinstance(n, (ast.Global, ast.Nonlocal, ast.Raise)):
            bad.append(f'line {n.lineno}: {type(n).__name__}')
    cl['inputs-not-mutated'] = (not bad, '; '.join(bad) or 'the caller\'s keywords, the positional tuple and the renaming table are not written; no raise')
    return cl


# ---------------------------------------------------------------------------------------------
# per-alias decision procedures
def _norm(s: str) -> str:
    return s.replace('_', '').lower()


def check_target(a: Alias) -> tuple[bool | None, str]:
    if a.new is None:
        return None, a.target_note
    if a.target is None:
        return False, a.target_note or 'replacement not found'
    probs = []
    if a.target_note:
        probs.append(a.target_note)
    extra = [d for d in a.other_decorators if d not in ('staticmethod', 'classmethod')]
    if extra:
        return None, f'other decorators on the alias are not analysed: {extra}'
    if a.owner is not None and a.target_scope in ('module', 'import'):
        first = a.node.decorator_list[0] if a.node.decorator_list else None
        static = first is not None and ast.unparse(first) == 'staticmethod'
        npos = len(a.target.args.posonlyargs) + len(a.target.args.args)
        if not static and not a.target.args.vararg:
            probs.append(
                f'alias is a plain function in the body of class {a.owner} (no staticmethod) and forwards to the module-level '
                f'function {a.target_module}.{a.new}({ast.unparse(a.target.args)}): called on an INSTANCE the receiver is passed as '
                f'an extra positional argument ({npos} accepted) -> TypeError; only {a.owner}.{a.old}() on the class works')
    if a.owner is not None and a.target_scope == 'class':
        # both must be instance methods of the same kind
        tdec = [ast.unparse(d.func if isinstance(d, ast.Call) else d) for d in a.target.decorator_list]
        tk = 'static' if 'staticmethod' in tdec else 'class' if 'classmethod' in tdec else 'property' if 'property' in tdec else 'instance'
        ak = 'static' if 'staticmethod' in a.other_decorators else 'class' if 'classmethod' in a.other_decorators else 'instance'
        if tk != ak:
            probs.append(f'binding kind differs: alias is a {ak} method, replacement is a {tk} method')
    if probs:
        return False, '; '.join(probs)
    return True, f'{a.new} resolved in scope {a.target_scope} ({a.target_module} line {a.target.lineno})'


def check_name(a: Alias) -> tuple[bool | None, str]:
    if a.new is None:
        return None, a.target_note
    probs = []
    if _norm(a.old) != _norm(a.new) and (a.old, a.new) not in REVIEWED_NAME_PAIRS:
        cands = [f'{o}->{n}' for (o, n) in REVIEWED_NAME_PAIRS if o == a.old]
        probs.append(f'snake_case({a.old}) != {a.new} and the pair is not in the reviewed list'
                     + (f' (reviewed replacement: {cands[0]})' if cands else ''))
    doc = ast.get_docstring(a.node) or ''
    m = re.match(r'\s*[Ss]ame as (?::\w+:)?[`~.\w]*?(\w+)`?[\s.,]', doc + ' ')
    if m and m.group(1) != a.new:
        probs.append(f'docstring of {a.old} says "Same as {m.group(1)}" but the decorator forwards to {a.new}')
    if probs:
        return False, '; '.join(probs)
    return True, 'names coincide up to case/underscores' if _norm(a.old) == _norm(a.new) else 'reviewed pair'


def _params(fn: ast.FunctionDef):
    a = fn.args
    pos = a.posonlyargs + a.args
    nd = len(a.defaults)
    out = []
    for i, p in enumerate(pos):
        d = a.defaults[i - (len(pos) - nd)] if i >= len(pos) - nd else None
        out.append((p.arg, d))
    kwo = [(p.arg, d) for p, d in zip(a.kwonlyargs, a.kw_defaults)]
    return out, kwo, a.vararg is not None, a.kwarg is not None


def _renames_of(fn: ast.FunctionDef) -> dict:
    out = {}
    for d in fn.decorator_list:
        if isinstance(d, ast.Call) and ast.unparse(d.func).endswith('deprecated_parameters'):
            arg = d.args[0] if d.args else next((k.value for k in d.keywords), None)
            if isinstance(arg, ast.Dict):
                for k, v in zip(arg.keys, arg.values):
                    if isinstance(k, ast.Constant) and isinstance(v, ast.Constant):
                        out[k.value] = v.value
    return out


def check_signature(a: Alias) -> tuple[bool | None, str]:
    if a.target is None:
        return (None if a.new is None else False), a.target_note or 'replacement not found'
    opos, okwo, ova, okw = _params(a.node)
    npos, nkwo, nva, nkw = _params(a.target)
    ren = _renames_of(a.target)
    if a.owner is not None and a.target_scope != 'class':
        # instance binding is judged by the target obligation; compare the explicit parameters only
        pass
    probs = []
    for i, (name, dflt) in enumerate(opos):
        if i < len(npos):
            nname, ndflt = npos[i]
            if nname != name and ren.get(name) != nname:
                probs.append(f'parameter {i} is `{name}` in {a.old} but `{nname}` in {a.new}: a keyword call {name}=... accepted by '
                             f'the alias signature is rejected (or bound elsewhere) by the replacement')
            if dflt is not None and ndflt is None:
                probs.append(f'`{name}` is optional in {a.old} but required in {a.new}')
            if dflt is not None and ndflt is not None and ast.dump(dflt) != ast.dump(ndflt):
                probs.append(f'default of `{name}` is {ast.unparse(dflt)} in {a.old} but {ast.unparse(ndflt)} in {a.new} '
                             f'(the wrapper forwards only what was passed, so the documented default is not the one used)')
        elif not nva:
            probs.append(f'{a.old} accepts positional parameter {i} `{name}`, {a.new} takes only {len(npos)}')
    for j in range(len(opos), len(npos)):
        nname, ndflt = npos[j]
        if ndflt is None and not (ova and False):
            probs.append(f'{a.new} requires `{nname}`, which the signature of {a.old} does not have')
    nnames = {n for n, _ in npos} | {n for n, _ in nkwo}
    for name, dflt in okwo:
        if name not in nnames and ren.get(name) not in nnames and not nkw:
            probs.append(f'keyword-only `{name}` of {a.old} is not accepted by {a.new}')
    for name, dflt in nkwo:
        if dflt is None and name not in {n for n, _ in opos} | {n for n, _ in okwo}:
            probs.append(f'{a.new} requires keyword-only `{name}`, which {a.old} does not have')
    if ova and not nva:
        probs.append(f'{a.old} takes *args, {a.new} does not')
    if okw and not nkw:
        probs.append(f'{a.old} takes **kwargs, {a.new} does not')
    if probs:
        return False, '; '.join(probs)
    return True, f'({ast.unparse(a.node.args)})  accepted by  ({ast.unparse(a.target.args)})' + (f' with keyword renaming {ren}' if ren else '')


# ---------------------------------------------------------------------------------------------
@dataclass
class StaticOb:
    name: str
    status: str          # discharged | failed | unknown
    detail: str
    witness: dict | None = None
    seconds: float = 0.0


def _st(ok):
    return 'discharged' if ok is True else 'failed' if ok is False else 'unknown'


def static_obligations(R: Repo | None = None) -> tuple[list[StaticOb], dict]:
    """All static obligations of C20 and a summary (mode, counts, override pairs)."""
    t0 = time.time()
    R = R or get_repo()
    obs: list[StaticOb] = []
    aliases, kws = inventory(R)
    ws = analyse_deprecated_wrapper(R)
    for c, (ok, d) in ws.clauses.items():
        obs.append(StaticOb(f'C20:static:wrapper:deprecated:{c}', _st(ok), d, {'file': 'src/biogeme/deprecated.py'}))
    for c, (ok, d) in analyse_parameters_wrapper(R).items():
        obs.append(StaticOb(f'C20:static:wrapper:deprecated_parameters:{c}', _st(ok), d, {'file': 'src/biogeme/deprecated.py'}))
    memo: dict = {}
    classes = all_classes(R)
    pairs = []
    # two aliases with the same label (same class/function name in two modules, e.g. version.getHtml / bioResults.getHtml
    # differ by owner; tools.derivatives.checkDerivatives / BIOGEME.checkDerivatives too): qualify by module when equal
    from collections import Counter
    lab_count = Counter(a.label for a in aliases)
    for a in aliases:
        lab = a.label if lab_count[a.label] == 1 else f'{a.module.split(".", 1)[-1]}.{a.label}'
        wit = {'module': a.module, 'owner': a.owner, 'old': a.old, 'new': a.new, 'file': a.file.split('/src/')[-1], 'line': a.line}
        ok, d = check_target(a)
        obs.append(StaticOb(f'C20:static:target:{lab}', _st(ok), d, dict(wit)))
        ok, d = check_name(a)
        obs.append(StaticOb(f'C20:static:name-match:{a.module.split(".", 1)[-1]}.{a.label}', _st(ok), d, dict(wit)))
        ok, d = check_signature(a)
        obs.append(StaticOb(f'C20:static:signature-compatible:{lab}', _st(ok), d, dict(wit)))
        # ---- dynamic dispatch
        if a.owner_ci is None or a.target is None or a.target_scope != 'class':
            continue
        plain, n_inherit = [], 0
        for D in classes:
            mro = c3(R, D, memo)
            if a.owner_ci not in mro:
                continue
            r_old = class_def_of(R, D, a.old, memo)
            if r_old is None or r_old[1] is not a.node:
                continue          # the alias is redefined for D (another site covers it) or hidden
            n_inherit += 1
            r_new = class_def_of(R, D, a.new, memo)
            if r_new is not None and r_new[1] is a.target:
                plain.append(R.class_key(D))
                continue
            dk = R.class_key(D)
            definer = R.class_key(r_new[0]) if r_new else '?'
            pw = dict(wit)
            pw.update({'receiver_class': dk, 'receiver_module': D.module, 'override_in': definer,
                       'override_module': r_new[0].module if r_new else '', 'override_line': getattr(r_new[1], 'lineno', 0) if r_new else 0,
                       'wrapper_mode': ws.mode})
            where = (f'{dk} inherits {a.qual} (line {a.line}) but `{a.new}` resolves to {definer}.{a.new} '
                     f'({(r_new[0].module if r_new else "?")} line {pw["override_line"]}), not to the captured {a.owner}.{a.new}')
            if ws.mode == 'captured':
                st, det = 'failed', where + f'; the wrapper calls the captured function: {ws.note}'
            elif ws.mode == 'receiver':
                qn = f'{a.owner_ci.name}.{a.old}'
                if ws.site_pred(qn, a.old):
                    st, det = 'discharged', where + f'; {ws.note}'
                else:
                    st, det = 'failed', where + f'; the receiver-dispatch guard is false for __qualname__ = {qn!r}, so the captured function is called'
            else:
                st, det = 'unknown', where + f'; wrapper form not recognised ({ws.note}): decided by the native replay'
            pairs.append((a, dk))
            obs.append(StaticOb(f'C20:static:dispatch:{a.label}@{dk}', st, det, pw))
        obs.append(StaticOb(f'C20:static:dispatch:{a.label}', 'discharged',
                            f'{len(plain)} of {n_inherit} classes inheriting the alias resolve `{a.new}` to the captured function '
                            f'(the others have their own @<Sub> obligation)', dict(wit, classes=len(plain))))
    # ---- renamed keywords
    for k in kws:
        q = k.qual
        wit = {'module': k.module, 'owner': k.owner, 'func': k.func, 'file': k.file.split('/src/')[-1], 'line': k.line}
        if k.mapping is None:
            obs.append(StaticOb(f'C20:static:keyword-exists:{q}:<table>', 'unknown', 'renaming table is not a literal dict of strings', wit))
            continue
        extra = [d for d in k.other_decorators if d not in ('staticmethod', 'classmethod')]
        pos, kwo, va, kwflag = _params(k.node)
        names = {n for n, _ in pos} | {n for n, _ in kwo}
        consumed = _kwargs_consumed(R, k) if kwflag else set()
        for old_kw, news in k.mapping.items():
            new_kw = news[-1]
            name = f'C20:static:keyword-exists:{q}:{old_kw}->{new_kw if new_kw is not None else "<ignored>"}'
            probs = []
            if len(news) > 1:
                probs.append(f'`{old_kw}` appears {len(news)} times in the table')
            if extra:
                probs.append(f'other decorators not analysed: {extra}')
            if old_kw in names:
                probs.append(f'`{old_kw}` is still a parameter of {k.func}: the wrapper would rename/drop a current keyword')
            if new_kw is not None:
                if new_kw == old_kw:
                    probs.append('old and new keyword are the same')
                if new_kw in k.mapping:
                    probs.append(f'new keyword `{new_kw}` is itself listed as obsolete')
                if new_kw not in names:
                    if kwflag and new_kw in consumed:
                        pass
                    elif kwflag:
                        probs.append(f'`{new_kw}` is not a named parameter of {k.func}; it lands in **{k.node.args.kwarg.arg} and is '
                                     f'not among the names consumed there ({len(consumed)} known)')
                    else:
                        probs.append(f'`{new_kw}` is not a parameter of {k.func}({ast.unparse(k.node.args)}): TypeError for every caller '
                                     f'that still uses `{old_kw}`')
            obs.append(StaticOb(name, 'failed' if probs else 'discharged', '; '.join(probs) or
                                (f'`{new_kw}` is a parameter of {k.func}' if new_kw in names else
                                 f'`{old_kw}` is dropped' if new_kw is None else f'`{new_kw}` is consumed from **kwargs'), dict(wit, old_kw=old_kw, new_kw=new_kw)))
        # overriding subclasses must keep the old keywords
        if k.owner_ci is not None:
            for D in classes:
                if D is k.owner_ci or k.owner_ci not in c3(R, D, memo):
                    continue
                r = class_def_of(R, D, k.func, memo)
                if r is None or r[1] is k.node or r[0] is not D or not isinstance(r[1], ast.FunctionDef):
                    continue
                ren = _renames_of(r[1])
                for old_kw, news in k.mapping.items():
                    ok = old_kw in ren and ren[old_kw] == news[-1]
                    obs.append(StaticOb(
                        f'C20:static:keyword-inherited:{q}:{old_kw}@{R.class_key(D)}', 'discharged' if ok else 'failed',
                        (f'{R.class_key(D)}.{k.func} (line {r[1].lineno}) re-declares the renaming' if ok else
                         f'{R.class_key(D)} overrides {k.func} ({D.module} line {r[1].lineno}) without @deprecated_parameters: '
                         f'{k.func}({old_kw}=...) works on {k.owner} but raises TypeError on {R.class_key(D)}'),
                        dict(wit, old_kw=old_kw, new_kw=news[-1], receiver_class=R.class_key(D), receiver_module=D.module)))
    # ---- inventory sanity (vacuity): the scan must see what a textual scan sees
    n_text = 0
    for mname, mi in R.modules.items():
        with open(mi.file, encoding='utf-8') as f:
            for line in f:
                if re.match(r'\s*@(biogeme\.deprecated\.)?deprecated(_parameters)?\(', line):
                    n_text += 1
    obs.append(StaticOb('C20:static:inventory-complete', 'discharged' if n_text == len(aliases) + len(kws) else 'failed',
                        f'{len(aliases)} @deprecated + {len(kws)} @deprecated_parameters sites found in the AST; '
                        f'{n_text} decorator lines in the text', {'aliases': len(aliases), 'keyword_sites': len(kws)}))
    summary = {'mode': ws.mode, 'mode_note': ws.note, 'aliases': len(aliases), 'keyword_sites': len(kws),
               'override_pairs': len(pairs), 'classes': len(classes), 'seconds': time.time() - t0,
               'failed': [o.name for o in obs if o.status == 'failed']}
    return obs, summary


def _kwargs_consumed(R: Repo, k: KwSite) -> set:
    """Names that the body can consume from **kwargs.  Recognised: kwargs.get('x') / kwargs['x'] / 'x' in kwargs, and the
    BIOGEME idiom `for name, value in kwargs.items(): if name in self.biogeme_parameters.parameter_names: ...`, for which the
    names are the `name=` fields of the default parameter table (biogeme.default_parameters)."""
    kwname = k.node.args.kwarg.arg
    out = set()
    for n in ast.walk(k.node):
        if isinstance(n, ast.Call) and isinstance(n.func, ast.Attribute) and n.func.attr in ('get', 'pop') and _is_name(n.func.value, kwname) \
                and n.args and isinstance(n.args[0], ast.Constant):
            out.add(n.args[0].value)
        if isinstance(n, ast.Subscript) and _is_name(n.value, kwname) and isinstance(n.slice, ast.Constant):
            out.add(n.slice.value)
        if isinstance(n, ast.Compare) and len(n.ops) == 1 and isinstance(n.ops[0], ast.In) and isinstance(n.left, ast.Name) \
                and 'parameter_names' in ast.unparse(n.comparators[0]):
            dp = R.modules.get('biogeme.default_parameters')
            if dp is not None:
                for c in ast.walk(dp.tree):
                    if isinstance(c, ast.Call) and ast.unparse(c.func).endswith('ParameterTuple'):
                        for kw_ in c.keywords:
                            if kw_.arg == 'name' and isinstance(kw_.value, ast.Constant):
                                out.add(kw_.value.value)
    return out
