"""C09: sample size = number of individuals for panel data."""
from pyvc.contract import contract, field_type

D = 'biogeme.database.Database.'
field_type('Database', 'panelColumn', 'str | None')
field_type('Database', 'individualMap', 'DataFrame')
field_type('Database', 'data', 'DataFrame')

contract(D + 'is_panel', 'C09', modifies=[], ensures={'def': 'result == (self.panelColumn is not None)'})
contract(D + 'get_sample_size', ['C09'], modifies=[],
         ensures={'individuals_if_panel': "result == ite(self.panelColumn is not None, app('df_nrows', self.individualMap), app('df_nrows', self.data))"},
         replay="""
import warnings; warnings.simplefilter('ignore')
import pandas as pd
from biogeme.database import Database
db = Database('d', pd.DataFrame({'id': [7, 7, 9, 11, 11, 11], 'x': [1.0, 2, 3, 4, 5, 6]}))
n0 = db.get_sample_size(); db.panel('id'); n1 = db.get_sample_size()
violated = not (n0 == 6 and n1 == 3)
detail = f'cross-sectional {n0} (6 rows), panel {n1} (3 individuals)'
""")
