"""C12 (round 2, agent c12c): the names a formula hands to the numbering (dict_of_elementary_expression), wherever they sit.

Same induction scheme as the audit (contracts/c12_audit.py): the ASSUMED abstract contract of the virtual method says that the
dictionary returned on a sub-formula has exactly the keys names_of_type(sub-formula, the_type) (the set c12b's contracts of
set_of_elementary_expression / IdManager.__init__ already use); the VERIFIED contracts are the induction steps:

    base body (every family of node classes)   keys = union over the children of names_of_type(child, the_type)
    Variable / bioDraws / RandomVariable        keys = {own name} if the_type is the leaf's kind, else none
    Beta                                        keys = {own name} iff the_type is BETA, or FREE_BETA and status == 0, or FIXED_BETA and status != 0
    catalogs                                    keys of the selected member

so a name of a given kind anywhere in the tree reaches IdManager.prepare (whose duplicate-name rule is the static obligation
C12:static:IdManager.prepare-duplicate-rule + the bounded harness).  bioLinearUtility.dict_of_elementary_expression (filtered
dictionary comprehensions of unknown length) is outside the subset: bounded harness.
"""
from pyvc.contract import contract, field_type
from contracts.c12_audit import FAMILIES, SEL, B

BASE = B + 'base_expressions.Expression.'
E = B + 'elementary_expressions.'
M = B + 'multiple_expressions.MultipleExpression.'
DOE = 'dict_of_elementary_expression'
TY = {'the_type': 'Any'}
RET = 'dict[str, Any]'
T = 'TypeOfElementaryExpression.'
field_type('Beta', 'status', 'int')

REPLAY_NAMES = '''
import warnings; warnings.simplefilter('ignore')
from biogeme.expressions import *
from biogeme.expressions.elementary_types import TypeOfElementaryExpression as TT
from biogeme.catalog import Catalog
free, fixed = Beta('b_free', 0, None, None, 0), Beta('b_fixed', 1, None, None, 1)
x, d, rv = Variable('x'), bioDraws('d', 'NORMAL'), RandomVariable('omega')
LEAVES = {'b_free': (free, {TT.BETA, TT.FREE_BETA}), 'b_fixed': (fixed, {TT.BETA, TT.FIXED_BETA}), 'x': (x, {TT.VARIABLE}),
          'd': (d, {TT.DRAWS}), 'omega': (rv, {TT.RANDOM_VARIABLE})}
hosts = {'Plus': lambda a, b: a + b, 'Power': lambda a, b: a ** b, 'Less': lambda a, b: a < b, 'exp': lambda a, b: exp(a) + log(b),
         'bioMultSum': lambda a, b: bioMultSum([Numeric(1), a, Numeric(2), b]), 'Elem': lambda a, b: Elem({0: a, 1: b}, Numeric(0)),
         'logit': lambda a, b: LogLogit({1: a, 2: b}, None, Numeric(1)), 'MonteCarlo': lambda a, b: MonteCarlo(a * b),
         'Integrate': lambda a, b: Integrate(a * b, 'omega'), 'Derive': lambda a, b: Derive(a * b, 'x'),
         'BelongsTo': lambda a, b: BelongsTo(a, {1}) * b, 'catalog': lambda a, b: Catalog.from_dict('c', {'one': a * b, 'two': Numeric(0)}),
         'ConditionalSum': lambda a, b: ConditionalSum([ConditionalTermTuple(condition=a, term=b)]),
         'PanelLikelihoodTrajectory': lambda a, b: PanelLikelihoodTrajectory(a - b)}
def want(names, t):
    return {n for n in names if t in LEAVES[n][1]}
wrong = []
for t in TT:
    for n, (leaf, kinds) in LEAVES.items():
        if set(leaf.dict_of_elementary_expression(t)) != want([n], t):
            wrong.append(('leaf', n, t.name))
    for hn, mk in hosts.items():
        for n1 in LEAVES:
            for n2 in LEAVES:
                e = mk(exp(LEAVES[n1][0]), -LEAVES[n2][0])
                got = e.dict_of_elementary_expression(t)
                if set(got) != want([n1, n2], t) or any(got[k] is not LEAVES[k][0] for k in got):
                    wrong.append((hn, n1, n2, t.name, sorted(got)))
violated = bool(wrong)
detail = f'(host, names below the operands, type, names returned): {wrong[:5]}'
'''

contract(BASE + DOE, 'C12', verify=False, pure=True, types=TY, returns=RET,
         ensures={'keys': 'c12c_keys_are(result, names_of_type(self, the_type))'},
         label=f'Expression.{DOE}(abstract)',
         note='induction hypothesis: the names dict_of_elementary_expression returns on a sub-formula (deterministic, no side effect)')
for fam in FAMILIES:
    contract(BASE + DOE, 'C12', self_class=fam, exact_self=False, label=f'Expression.{DOE}@{fam}', types=TY, returns=RET,
             modifies=[], ensures={'names_of_every_child_and_no_other': 'c12c_keys_are(result, c12c_union_names(self.children, the_type))'},
             replay=REPLAY_NAMES)


def leaf(cls, mod, cond):
    contract(mod + f'{cls}.{DOE}', 'C12', types=TY, returns=RET, modifies=[],
             ensures={'own_name_if_its_kind': f'implies({cond}, c12c_keys_are(result, c12_single(self.name)))',
                      'nothing_otherwise': f'implies(not ({cond}), c12c_keys_are(result, c12_empty()))',
                      'maps_to_itself': f'implies({cond}, c12c_maps_to(result, self.name, self))'},
             replay=REPLAY_NAMES)


leaf('Variable', E, f'the_type == {T}VARIABLE')
leaf('bioDraws', E, f'the_type == {T}DRAWS')
leaf('RandomVariable', E, f'the_type == {T}RANDOM_VARIABLE')
leaf('Beta', B + 'beta_parameters.',
     f'the_type == {T}BETA or (the_type == {T}FREE_BETA and self.status == 0) or (the_type == {T}FIXED_BETA and self.status != 0)')
contract(M + DOE, 'C12', exact_self=False, types=TY, returns=RET, modifies=[],
         ensures={'selected_member': f'c12c_keys_are(result, names_of_type({SEL}, the_type))'}, replay=REPLAY_NAMES)
