"""C03 (round 2, tag c03c): K5 - the dictionary of values given to an evaluation is applied BY NAME with the initial value as
fallback (Expression.get_value_and_derivatives).  The function is already under contract for C12 (its refusals); the callees'
contracts of C12 are reused and the by-name clauses are verified as a variant for the same body."""
from pyvc.contract import contract, field_type
from contracts import c03c_replays as RP
import contracts.c03_idmanager   # noqa: F401
import contracts.c03_byname      # noqa: F401

BASE = BASE0 = 'biogeme.expressions.base_expressions.Expression.'

# The C12 modules cannot be loaded next to contracts/c03_idmanager.py (both register IdManager.prepare), so the callees of
# get_value_and_derivatives get minimal ASSUMED contracts of their own here: none of them writes the list of values.
_A = dict(verify=False, modifies=[])
contract(BASE0 + 'audit', 'C03', returns='tuple[list[str], list[str]]', types={'database': 'Database | None'}, may_raise=['BiogemeError'],
         ensures={'new_lists': 'c03c_allocated(result[0]) and c03c_allocated(result[1]) and result[0] is not self.id_manager.free_betas_values'},
         label='Expression.audit(assumed)', note='assumed: returns two lists of messages, no side effect (proved under C12)', **_A)
for _m, _r in (('check_draws', 'set[str]'), ('check_rv', 'set[str]'), ('check_panel_trajectory', 'set[str]'), ('embed_expression', 'bool'),
               ('set_of_elementary_expression', 'set[str]')):
    contract(BASE0 + _m, 'C03', pure=True, returns=_r, ensures={'t': 'True'}, label=f'Expression.{_m}(assumed)',
             note='assumed: placement collector, no side effect (proved under C12)', **_A)
contract(BASE0 + 'set_id_manager', 'C03', verify=False, types={'id_manager': 'IdManager | None'},
         modifies=['*.id_manager', '*.elementaryIndex', '*.betaId', '*.variableId', '*.rvId', '*.drawId'], ensures={'t': 'True'},
         label='Expression.set_id_manager(abstract)', note='abstract contract of the virtual propagation: writes only the identifiers of the nodes')
contract(BASE0 + 'prepare', 'C03', verify=False, types={'database': 'Database | None', 'number_of_draws': 'int'},
         modifies=['*.id_manager', '*.elementaryIndex', '*.betaId', '*.variableId', '*.rvId', '*.drawId'], ensures={'t': 'True'}, may_raise=['BiogemeError'],
         label='Expression.prepare(assumed)', note='assumed: builds a new id manager and propagates it (not used on the path under contract: prepare_ids is False)')
contract('biogeme.database.Database.is_panel', 'C03', pure=True, returns='bool', ensures={'t': 'True'}, note='assumed: pure', **_A)
contract('biogeme.expressions.calculator.calculate_function_and_derivatives', 'C03', returns='Any', ensures={'t': 'True'},
         may_raise=['BiogemeError'], note='assumed: the engine call reads the id manager, writes nothing in it', **_A)
for _c in ('NamedBiogemeFunctionOutput', 'NamedBiogemeDisaggregateFunctionOutput'):
    contract(f'biogeme.function_output.{_c}.__init__', 'C03', ensures={'t': 'True'}, note='assumed: wraps the engine output with names (C02)', **_A)

field_type('IdManager', 'free_betas_values', 'list[float]')
_N = 'self.id_manager.free_betas.names'
_E = "typed(self.id_manager.free_betas.expressions[%s[q]], 'biogeme.expressions.beta_parameters.Beta').initValue" % _N
_D = "typed(betas, 'dict[str, float]')"

contract(BASE + 'get_value_and_derivatives', 'C03', self_class='Expression', exact_self=False,
         label='Expression.get_value_and_derivatives[values-by-name]', replay=RP.VALUES,
         types={'betas': 'dict[str, float] | None', 'database': 'Database | None', 'number_of_draws': 'int', 'gradient': 'bool',
                'hessian': 'bool', 'bhhh': 'bool', 'aggregation': 'bool', 'prepare_ids': 'bool', 'named_results': 'bool'},
         requires={'own_numbering': 'not prepare_ids and self.id_manager is not None',
                   'names_are_keys': f'forall(lambda q: {_N}[q] in self.id_manager.free_betas.expressions, 0, len({_N}))',
                   # round 3 (m4): check_safe=False removed; the implicit-exception obligations of the two comprehensions are now PROVED
                   # from what IdManager.prepare establishes (postconditions *_names_are_keys of contracts/c03c_prepare.py; the
                   # dictionaries of expressions_names_indices are never None)
                   'tables_exist': 'self.id_manager.free_betas.expressions is not None and self.id_manager.fixed_betas.expressions is not None',
                   'fixed_names_are_keys': 'forall(lambda q: self.id_manager.fixed_betas.names[q] in self.id_manager.fixed_betas.expressions, '
                                           '0, len(self.id_manager.fixed_betas.names))'},
         returns='Any', check_frame=False, may_raise=['BiogemeError'],
         ensures={
             'one_value_per_name': f'implies(betas is not None, len(self.id_manager.free_betas_values) == len({_N}))',
             'named_parameter_gets_the_value_of_its_name':
                 f'implies(betas is not None, forall(lambda q: implies({_N}[q] in {_D}, self.id_manager.free_betas_values[q] == {_D}[{_N}[q]]), 0, len({_N})))',
             'unnamed_parameter_gets_its_initial_value':
                 f'implies(betas is not None, forall(lambda q: implies({_N}[q] not in {_D}, self.id_manager.free_betas_values[q] == {_E}), 0, len({_N})))',
             'no_dictionary_no_change': 'implies(betas is None, self.id_manager.free_betas_values is old(self.id_manager.free_betas_values))',
         })
