"""C16 static obligations: decided by an analysis of the real AST (pyvc.repo; biogeme is never imported).

Each function returns a list of (name, ok, detail, witness).  The syntactic class each check is sound for is
stated in its docstring; names are stable (class.method:clause).
"""
from __future__ import annotations

import ast

ME = 'biogeme.expressions.multiple_expressions'
BE = 'biogeme.expressions.base_expressions'

# methods of MultipleExpression that are its own interface (not overrides of a tree operation)
OWN_INTERFACE = {'__init__', 'selected', 'get_iterator', 'catalog_size', 'selected_name', 'selected_expression', '__str__'}
# tree walks of Expression that deliberately see ALL members of a catalog (catalog management: they must reach the
# controllers / catalogs of unselected members too) ...
WALKS_ALL_MEMBERS = {'dict_of_catalogs', 'set_central_controller', 'get_all_controllers', 'reset_expression_selection'}
# ... or bookkeeping that takes no part in evaluating / preparing the selected formula
BOOKKEEPING = {'set_of_multiple_expressions'}
# owned by another property: C12 / F-10 (the selected member's own audit rules are skipped)
OWNED_ELSEWHERE = {'audit': 'C12 (F-10): MultipleExpression inherits Expression.audit, which audits only the children of '
                            'the selected member, never the member itself'}


def _body(fn: ast.FunctionDef) -> list[ast.stmt]:
    b = fn.body
    if b and isinstance(b[0], ast.Expr) and isinstance(b[0].value, ast.Constant) and isinstance(b[0].value.value, str):
        b = b[1:]
    return [s for s in b if not isinstance(s, ast.Pass)]


def _is_self_call(node, meth: str) -> bool:
    return (isinstance(node, ast.Call) and isinstance(node.func, ast.Attribute) and node.func.attr == meth
            and isinstance(node.func.value, ast.Name) and node.func.value.id == 'self' and not node.args and not node.keywords)


def _selected_expr_source(node) -> bool:
    """Expressions that denote the selected member: self.selected()[1], self.selected().expression,
    self.selected_expression()."""
    if _is_self_call(node, 'selected_expression'):
        return True
    if isinstance(node, ast.Subscript) and _is_self_call(node.value, 'selected'):
        return isinstance(node.slice, ast.Constant) and node.slice.value == 1
    if isinstance(node, ast.Attribute) and node.attr == 'expression' and _is_self_call(node.value, 'selected'):
        return True
    return False


def delegation(repo) -> list[tuple]:
    """One obligation per method that MultipleExpression overrides: the body (docstring aside) only binds the
    selected member (`_, e = self.selected()` or an equivalent form), possibly records a parameter on the catalog
    node itself (`self.attr = parameter`), and then calls the SAME method on the selected member with the
    method's own parameters, in order, returning the result (or as its last statement).  Sound for exactly this
    syntactic shape; any other shape is reported as failed (not as unknown)."""
    mi = repo.modules[ME]
    cls = mi.classes['MultipleExpression'].node
    base = repo.modules[BE].classes['Expression'].node
    base_methods = {n.name for n in base.body if isinstance(n, ast.FunctionDef)}
    out = []
    for fn in cls.body:
        if not isinstance(fn, ast.FunctionDef) or fn.name in OWN_INTERFACE:
            continue
        deco = [ast.unparse(d) for d in fn.decorator_list]
        if any('deprecated' in d for d in deco):
            continue            # alias wrappers are C20's subject
        name = f'MultipleExpression.{fn.name}:delegates-to-selected-member'
        if fn.name not in base_methods:
            out.append((name, False, f'{fn.name} is not a method of Expression (line {fn.lineno})', {'line': fn.lineno}))
            continue
        params = [a.arg for a in fn.args.args[1:]] + [a.arg for a in fn.args.kwonlyargs]
        stmts = _body(fn)
        sel_vars: set[str] = set()
        problem = None
        for s in stmts[:-1]:
            ok = False
            if isinstance(s, (ast.Assign, ast.AnnAssign)):
                tgt = s.targets[0] if isinstance(s, ast.Assign) else s.target
                val = s.value
                if isinstance(tgt, ast.Tuple) and len(tgt.elts) == 2 and _is_self_call(val, 'selected') \
                        and isinstance(tgt.elts[1], ast.Name):
                    sel_vars.add(tgt.elts[1].id)
                    ok = True
                elif isinstance(tgt, ast.Name) and _selected_expr_source(val):
                    sel_vars.add(tgt.id)
                    ok = True
                elif isinstance(tgt, ast.Attribute) and isinstance(tgt.value, ast.Name) and tgt.value.id == 'self' \
                        and isinstance(val, ast.Name) and val.id in params:
                    ok = True       # the catalog node records a parameter on itself (as Expression.set_id_manager does)
            if not ok:
                problem = f'statement at line {s.lineno} is not a binding of the selected member'
                break
        if problem is None:
            if not stmts:
                problem = 'empty body'
            else:
                last = stmts[-1]
                call = last.value if isinstance(last, (ast.Return, ast.Expr)) else None
                if not isinstance(call, ast.Call) or not isinstance(call.func, ast.Attribute):
                    problem = f'last statement (line {last.lineno}) is not a call on the selected member'
                else:
                    recv = call.func.value
                    on_sel = (isinstance(recv, ast.Name) and recv.id in sel_vars) or _selected_expr_source(recv)
                    if not on_sel:
                        problem = f'line {last.lineno}: receiver {ast.unparse(recv)} is not the selected member'
                    elif call.func.attr != fn.name:
                        problem = f'line {last.lineno}: calls {call.func.attr}, not {fn.name}'
                    else:
                        got = []
                        bad_arg = None
                        for a in call.args:
                            if isinstance(a, ast.Name):
                                got.append(a.id)
                            else:
                                bad_arg = ast.unparse(a)
                        kw = {}
                        for k in call.keywords:
                            if k.arg is None or not isinstance(k.value, ast.Name):
                                bad_arg = ast.unparse(k.value)
                            else:
                                kw[k.arg] = k.value.id
                        if bad_arg is not None:
                            problem = f'line {last.lineno}: argument {bad_arg} is not a parameter passed through'
                        elif got != params[:len(got)] or any(kw.get(p) != p for p in params[len(got):]) \
                                or set(kw) - set(params[len(got):]):
                            problem = (f'line {last.lineno}: arguments ({", ".join(got + [f"{k}={v}" for k, v in kw.items()])}) '
                                       f'are not the parameters ({", ".join(params)}) in order')
        out.append((name, problem is None, problem or f'line {fn.lineno}: {fn.name}({", ".join(params)}) forwarded unchanged',
                    {'line': fn.lineno, 'method': fn.name}))
    return out


def _walks_children(fn: ast.FunctionDef) -> bool:
    """The method calls a method of the same name on something drawn from self.children / self.get_children()."""
    mentions = False
    for n in ast.walk(fn):
        if isinstance(n, ast.Attribute) and n.attr == 'children' and isinstance(n.value, ast.Name) and n.value.id == 'self':
            mentions = True
        if _is_self_call(n, 'get_children'):
            mentions = True
    if not mentions:
        return False
    for n in ast.walk(fn):
        if isinstance(n, ast.Call) and isinstance(n.func, ast.Attribute) and n.func.attr == fn.name \
                and not (isinstance(n.func.value, ast.Name) and n.func.value.id == 'self'):
            return True
    return False


def coverage(repo) -> list[tuple]:
    """Every recursive tree operation of Expression (a method that calls its own name on members of
    self.children / self.get_children()) is overridden by MultipleExpression -- otherwise the walk would use the
    node's own children instead of the selected member -- unless it is a catalog-management walk over all members
    (fixed lists WALKS_ALL_MEMBERS, BOOKKEEPING) or is owned by another property (OWNED_ELSEWHERE, reported in the detail)."""
    base = repo.modules[BE].classes['Expression'].node
    cls = repo.modules[ME].classes['MultipleExpression'].node
    over = {n.name for n in cls.body if isinstance(n, ast.FunctionDef)}
    cat = repo.modules['biogeme.catalog'].classes['Catalog'].node
    over_cat = {n.name for n in cat.body if isinstance(n, ast.FunctionDef)}
    out = []
    for fn in base.body:
        if not isinstance(fn, ast.FunctionDef) or not _walks_children(fn):
            continue
        name = f'Expression.{fn.name}:tree-walk-overridden-by-MultipleExpression'
        if fn.name in over:
            out.append((name, True, 'overridden (delegation obligation of the same method)', {'line': fn.lineno}))
        elif fn.name in WALKS_ALL_MEMBERS:
            where = 'overridden by Catalog' if fn.name in over_cat else 'inherited'
            out.append((name, True, f'catalog-management walk over all members ({where})', {'line': fn.lineno}))
        elif fn.name in BOOKKEEPING:
            out.append((name, True, 'bookkeeping walk, not part of evaluating the selected formula (inherited)', {'line': fn.lineno}))
        elif fn.name in OWNED_ELSEWHERE:
            out.append((name, True, 'NOT overridden -- left to ' + OWNED_ELSEWHERE[fn.name], {'line': fn.lineno}))
        else:
            out.append((name, False, f'Expression.{fn.name} (line {fn.lineno}) walks the children but MultipleExpression does not '
                        f'override it: the selected member would be bypassed', {'line': fn.lineno, 'method': fn.name}))
    # get_children / get_id / get_value are the non-recursive accessors every walk relies on
    for must in ('get_children', 'get_id', 'get_value', 'get_signature'):
        out.append((f'Expression.{must}:accessor-overridden-by-MultipleExpression', must in over,
                    'overridden' if must in over else f'MultipleExpression does not override {must}', {'method': must}))
    return out


def controlled_catalogs_never_filled(repo) -> list[tuple]:
    """No statement of the package stores to, or calls a mutating method on, an attribute named
    `controlled_catalogs`, except the initialisation `self.controlled_catalogs = []` in Controller.__init__.
    (Sound for direct attribute syntax; aliasing through getattr/setattr/vars is searched for by name.)"""
    hits = []
    inits = 0
    for mname, mi in repo.modules.items():
        for n in ast.walk(mi.tree):
            if isinstance(n, ast.Attribute) and n.attr == 'controlled_catalogs':
                if isinstance(n.ctx, (ast.Store, ast.Del)):
                    hits.append((mname, n.lineno, 'store'))
            if isinstance(n, ast.Call) and isinstance(n.func, ast.Attribute) and isinstance(n.func.value, ast.Attribute) \
                    and n.func.value.attr == 'controlled_catalogs' and n.func.attr in (
                        'append', 'extend', 'insert', '__iadd__', 'add', 'update', '__setitem__'):
                hits.append((mname, n.lineno, n.func.attr))
            if isinstance(n, ast.AugAssign) and isinstance(n.target, ast.Attribute) and n.target.attr == 'controlled_catalogs':
                hits.append((mname, n.lineno, 'augmented assignment'))
            if isinstance(n, ast.Constant) and n.value == 'controlled_catalogs':
                hits.append((mname, n.lineno, 'name used as a string (getattr/setattr?)'))
    ok_hits = []
    for h in hits:
        if h[0] == 'biogeme.controller' and h[2] == 'store':
            fi = repo.function('biogeme.controller.Controller.__init__')
            if fi is not None and fi.node.lineno <= h[1] <= fi.node.end_lineno:
                inits += 1
                ok_hits.append(h)
    rest = [h for h in hits if h not in ok_hits]
    # the one store must be an empty list
    empty_init = False
    fi = repo.function('biogeme.controller.Controller.__init__')
    if fi is not None:
        for s in ast.walk(fi.node):
            if isinstance(s, (ast.Assign, ast.AnnAssign)):
                tgt = s.targets[0] if isinstance(s, ast.Assign) else s.target
                if isinstance(tgt, ast.Attribute) and tgt.attr == 'controlled_catalogs':
                    empty_init = isinstance(s.value, ast.List) and not s.value.elts
    ok = not rest and inits == 1 and empty_init
    detail = ('only Controller.__init__ writes it, with []' if ok else
              f'writers: {rest[:4]}; initialisations in Controller.__init__: {inits}; empty list: {empty_init}')
    return [('Controller.controlled_catalogs:never-filled', ok, detail, {'writers': rest[:6]})]


def configuration_writers(repo) -> list[tuple]:
    """Class invariant of Configuration assumed where `.selections` is read: the private list `__selections` is
    written only (a) in __init__ with None and (b) in the property setter, as `sorted(<argument>)`, immediately
    followed by `self.__check_list_validity()` and `self.string_id = self.get_string_id()`; `string_id` is
    written nowhere else; __eq__ / __hash__ use `string_id` only."""
    mi = repo.modules['biogeme.configuration']
    cls = mi.classes['Configuration'].node
    problems = []
    setter = None
    for fn in cls.body:
        if not isinstance(fn, ast.FunctionDef):
            continue
        is_setter = any(ast.unparse(d) == 'selections.setter' for d in fn.decorator_list)
        if is_setter:
            setter = fn
        for n in ast.walk(fn):
            if isinstance(n, ast.Attribute) and isinstance(n.ctx, ast.Store):
                if n.attr in ('__selections', '_Configuration__selections'):
                    if fn.name == '__init__':
                        par = [s for s in ast.walk(fn) if isinstance(s, (ast.Assign, ast.AnnAssign))
                               and (s.targets[0] if isinstance(s, ast.Assign) else s.target) is n]
                        if not par or not (isinstance(par[0].value, ast.Constant) and par[0].value.value is None):
                            problems.append(f'__init__ line {n.lineno}: __selections assigned something else than None')
                    elif not is_setter:
                        problems.append(f'{fn.name} line {n.lineno}: writes __selections')
                if n.attr == 'string_id' and not is_setter:
                    problems.append(f'{fn.name} line {n.lineno}: writes string_id')
    if setter is None:
        problems.append('property setter `selections` not found')
    else:
        b = _body(setter)
        arg = setter.args.args[1].arg if len(setter.args.args) > 1 else None
        shape = (len(b) == 3
                 and isinstance(b[0], ast.Assign) and ast.unparse(b[0].targets[0]) == 'self.__selections'
                 and isinstance(b[0].value, ast.Call) and ast.unparse(b[0].value.func) == 'sorted'
                 and len(b[0].value.args) == 1 and not b[0].value.keywords and ast.unparse(b[0].value.args[0]) == arg
                 and isinstance(b[1], ast.Expr) and ast.unparse(b[1].value) == 'self.__check_list_validity()'
                 and isinstance(b[2], ast.Assign) and ast.unparse(b[2].targets[0]) == 'self.string_id'
                 and ast.unparse(b[2].value) == 'self.get_string_id()')
        if not shape:
            problems.append(f'setter (line {setter.lineno}) is not: sorted(argument); __check_list_validity(); string_id = get_string_id()')
    for fn in cls.body:
        if isinstance(fn, ast.FunctionDef) and fn.name in ('__eq__', '__hash__'):
            names = {n.attr for n in ast.walk(fn) if isinstance(n, ast.Attribute)}
            if names - {'string_id'}:
                problems.append(f'{fn.name} uses {sorted(names - {"string_id"})}')
    # get_string_id joins "controller:selection" terms of self.selections with ';' in list order
    gs = next((f for f in cls.body if isinstance(f, ast.FunctionDef) and f.name == 'get_string_id'), None)
    if gs is None:
        problems.append('get_string_id not found')
    else:
        src = ast.unparse(gs)
        if 'self.selections' not in src or 'SEPARATOR.join' not in src or 'SELECTION_SEPARATOR' not in src:
            problems.append('get_string_id does not join the terms of self.selections with the separators')
    return [('Configuration.selections:only-written-by-validating-sorting-setter', not problems,
             '; '.join(problems) or 'setter sorts, validates, then stores the identifier; no other writer', {'problems': problems})]


def operators_return_current_configuration(repo) -> list[tuple]:
    """Each neighbourhood operator returns, as first component, the value of `self.get_configuration()` computed
    AFTER its last call that can move a controller (modify_controller / set_*), so the closure proved on the
    controller indices is the closure of the returned configuration."""
    out = []
    for meth in ('increased_controller', 'decreased_controller', 'two_controllers', 'modify_random_controllers'):
        fi = repo.function(f'biogeme.controller.CentralController.{meth}')
        name = f'CentralController.{meth}:returns-configuration-read-after-last-move'
        if fi is None:
            out.append((name, False, 'method not found', {}))
            continue
        movers = [n.lineno for n in ast.walk(fi.node) if isinstance(n, ast.Call) and isinstance(n.func, ast.Attribute)
                  and n.func.attr in ('modify_controller', 'set_configuration', 'set_controller', 'set_index', 'set_name',
                                      'set_configuration_from_id', 'reset_selection')]
        reads = {}
        for n in ast.walk(fi.node):
            if isinstance(n, ast.Assign) and len(n.targets) == 1 and isinstance(n.targets[0], ast.Name) \
                    and _is_self_call(n.value, 'get_configuration'):
                reads[n.targets[0].id] = n.lineno
        rets = [n for n in ast.walk(fi.node) if isinstance(n, ast.Return)]
        problem = None
        if not rets:
            problem = 'no return'
        for r in rets:
            v = r.value
            first = v.elts[0] if isinstance(v, ast.Tuple) and v.elts else None
            if isinstance(first, ast.Name) and first.id in reads:
                line = reads[first.id]
            elif first is not None and _is_self_call(first, 'get_configuration'):
                line = r.lineno
            else:
                problem = f'line {r.lineno}: first returned component is not self.get_configuration()'
                break
            late = [m for m in movers if m > line]
            if late:
                problem = f'a controller is moved at line {late[0]}, after the configuration was read at line {line}'
                break
        if not movers:
            problem = problem or 'no controller is moved at all'
        out.append((name, problem is None, problem or f'configuration read after the last move (line {max(movers)})',
                    {'line': fi.node.lineno}))
    return out


def all_static(repo) -> list[tuple]:
    return (delegation(repo) + coverage(repo) + controlled_catalogs_never_filled(repo) + configuration_writers(repo)
            + operators_return_current_configuration(repo))
