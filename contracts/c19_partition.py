"""Contracts for biogeme.partition (C19)."""
from pyvc.contract import contract, field_type

P = 'biogeme.partition.'
field_type('Partition', 'segments', 'list[set[int]]')
field_type('Partition', 'full_set', 'set[int]')

_REPLAY = """
from biogeme.partition import Partition
cands = [([{1, 2}, {3}], None, True), ([{1, 2}, {2, 3}], None, False), ([{1, 2}, {3}], {1, 2, 3}, True),
         ([{1, 2}, {3}], {1, 2, 3, 4}, False), ([{1, 2}, {3, 4}], {1, 2, 3}, False), ([{1}, set()], None, False),
         ([{1, 2, 3}], {1, 2, 3}, True), ([{5}, {7}, {5}], None, False)]
violated = False
for segs, full, valid in cands:
    try:
        p = Partition([set(s) for s in segs], full_set=None if full is None else set(full))
        ok = True
    except ValueError:
        ok = False
    if ok != valid:
        violated, detail = True, f'Partition({segs}, full_set={full}): accepted={ok}, is a partition={valid}'
        break
    if ok:
        u = set().union(*p.segments)
        if u != p.full_set or sum(len(s) for s in p.segments) != len(u):
            violated, detail = True, f'Partition({segs}, full_set={full}) accepted but segments/full_set = {p.segments}/{p.full_set}'
            break
"""

_OVERLAP = ('exists(lambda a: exists(lambda b: a != b and exists(lambda x: x in self.segments[a] and x in self.segments[b]), '
            '0, len(self.segments)), 0, len(self.segments))')
_COVER = ('forall(lambda x: iff(x in self.full_set, exists(lambda a: x in self.segments[a], 0, len(self.segments))))')

contract(P + 'Partition.validate_partition', 'C19',
         raises={'ValueError': f'{_OVERLAP} or not {_COVER}'},
         modifies=[], replay=_REPLAY,
         invariants={
             1: {'clauses': {'disjoint_so_far': 'forall(lambda a: forall(lambda b: implies(a != b, '
                                                'not exists(lambda x: x in self.segments[a] and x in self.segments[b])), '
                                                '0, len(self.segments)), 0, _k)'}},
             2: {'clauses': {'disjoint_from_s1': 'forall(lambda b: implies(s1 != b, '
                                                 'not exists(lambda x: x in segment1 and x in self.segments[b])), 0, _k)'}},
         })

contract(P + 'Partition.validate_segments', 'C19',
         raises={'ValueError': 'exists(lambda a: not self.segments[a], 0, len(self.segments))'},
         modifies=[], replay=_REPLAY,
         invariants={1: {'clauses': {'nonempty_so_far': 'forall(lambda a: bool(self.segments[a]), 0, _k)'}}})

contract(P + 'Partition.__init__', 'C19',
         types={'segments': 'list[set[int]]', 'full_set': 'set[int] | None'},
         may_raise=['ValueError'], replay=_REPLAY,
         modifies=['self.segments', 'self.full_set'],
         ensures={
             'segments_kept': 'self.segments is segments',
             'full_set': 'implies(full_set is not None and bool(full_set), self.full_set is full_set)',
             'default_full_set': 'implies(full_set is None or not full_set, forall(lambda x: iff(x in self.full_set, '
                                 'exists(lambda a: x in segments[a], 0, len(segments)))))',
             'pairwise_disjoint': 'forall(lambda a: forall(lambda b: implies(a != b, '
                                  'not exists(lambda x: x in self.segments[a] and x in self.segments[b])), '
                                  '0, len(self.segments)), 0, len(self.segments))',
             'covers_full_set': _COVER,
             'no_empty_segment': 'forall(lambda a: bool(self.segments[a]), 0, len(self.segments))',
         })
