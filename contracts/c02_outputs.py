"""C02 / C04: packaging and naming of function outputs, scaling by the sample size."""
from pyvc.contract import contract, field_type

F = 'biogeme.function_output.'

contract(F + 'convert_to_dict', 'C02',
         types={'the_sequence': 'list[Any]', 'the_map': 'dict[str, int]'},
         raises={'IndexError': "exists(lambda x: x in the_map and (the_map[x] >= len(the_sequence) or the_map[x] < 0), ty='str')"},
         returns='dict[str, Any]',
         ensures={'same_names': "forall(lambda x: (x in result) == (x in the_map), ty='str')",
                  'entry_of_its_name': "forall(lambda x: implies(x in the_map, same(result[x], the_sequence[the_map[x]])), ty='str')"},
         replay="""
from biogeme.function_output import convert_to_dict
seq = [10.0, 20.0, 30.0]
mp = {'zeta': 2, 'alpha': 0, 'mid': 1}
got = convert_to_dict(seq, mp)
violated = got != {'zeta': 30.0, 'alpha': 10.0, 'mid': 20.0}
detail = str(got)
try:
    convert_to_dict(seq, {'a': 3}); violated = True; detail = 'index 3 accepted for a sequence of 3'
except IndexError:
    pass
""")

field_type('BiogemeDisaggregateFunctionOutput', 'functions', 'vec')
field_type('BiogemeDisaggregateFunctionOutput', 'gradients', 'mat | None')
field_type('BiogemeDisaggregateFunctionOutput', 'hessians', 'mat | None')
field_type('BiogemeDisaggregateFunctionOutput', 'bhhhs', 'mat | None')
contract(F + 'BiogemeDisaggregateFunctionOutput.unique_entry', 'C02', modifies=[],
         ensures={'none_unless_single': 'iff(result is None, len(self.functions) != 1)',
                  'function': "implies(result is not None, result.function == self.functions[0])",
                  'gradient_kept': 'implies(result is not None, iff(result.gradient is None, self.gradients is None))',
                  'gradient_is_first': "implies(result is not None and self.gradients is not None, same(result.gradient, typed(self.gradients, 'mat')[0]))",
                  'hessian_kept': 'implies(result is not None, iff(result.hessian is None, self.hessians is None))',
                  'hessian_is_first': "implies(result is not None and self.hessians is not None, same(result.hessian, typed(self.hessians, 'mat')[0]))",
                  'bhhh_kept': 'implies(result is not None, iff(result.bhhh is None, self.bhhhs is None))',
                  'bhhh_is_first': "implies(result is not None and self.bhhhs is not None, same(result.bhhh, typed(self.bhhhs, 'mat')[0]))"},
         replay="""
import numpy as np
from biogeme.function_output import BiogemeDisaggregateFunctionOutput as D
violated = False
for g in (np.array([[1.0, 2.0]]), np.array([[0.0]]), np.array([[0.0, 0.0, 0.0]])):
    k = g.shape[1]
    try:
        r = D(functions=np.array([1.5]), gradients=g, hessians=np.zeros((1, k, k)), bhhhs=np.ones((1, k, k))).unique_entry()
        ok = r is not None and r.gradient is not None and np.array_equal(r.gradient, g[0]) and r.hessian is not None and r.bhhh is not None
    except Exception as e:
        ok = False; r = repr(e)
    if not ok:
        violated = True; detail = f'gradients={g.tolist()}: unique_entry -> {r}'
        break
""")

B = 'biogeme.biogeme.BIOGEME.'
field_type('BIOGEME', 'database', 'Database')
field_type('BIOGEME', 'id_manager', 'IdManager')
field_type('BIOGEME', 'theC', 'CythonEngine')
field_type('IdManager', 'free_betas_values', 'list[float]')
field_type('IdManager', 'fixed_betas_values', 'list[float]')
contract('biogeme.database.Database.get_sample_size', ['C04', 'C02', 'C15'], verify=False, pure=True,
         returns='int', ensures={'t': 'True'}, note='assumed here (contract under C09): a function of the database object (individuals for panel data, rows otherwise)')
# round 3 (m1): no longer assumed - proved from its one-line body, and it says what `panel` means for the clause on the panel map
contract('biogeme.database.Database.is_panel', ['C04', 'C02', 'C15'], pure=True, reads=['panelColumn'], returns='bool', modifies=[],
         ensures={'panel_iff_a_panel_column_is_declared': 'result == (self.panelColumn is not None)'})
# round 3 (m1): the assumed contract says WHAT is rebuilt (the map is the one of the - sorted - data the database now holds), so that
# the callers' clause `panel_map_is_the_map_of_the_data` notices a missing rebuild (mutant: `self._prepare_database_for_formula()` deleted)
PANEL_MAP = "app('panel.map_of', {db}.data, {db}.panelColumn)"
contract('biogeme.database.Database.build_panel_map', ['C04', 'C02', 'C15'], verify=False, modifies=['*.individualMap', '*.data', '*.fullIndividualMap'],
         ensures={'map_of_the_data': "implies(self.panelColumn is not None, same(self.individualMap, %s))" % PANEL_MAP.format(db='self')},
         note='assumed here: sorts the rows by individual and rebuilds the individual -> rows map from them (C09 decides what the map is; '
              'here it is the uninterpreted function panel.map_of(data, panel column))')
PANEL_CLAUSE = "implies(self.database.is_panel(), same(self.database.individualMap, %s))" % PANEL_MAP.format(db='self.database')

contract(B + 'calculate_likelihood', ['C04', 'C02'],
         types={'x': 'list[float]', 'scaled': 'bool', 'batch': 'float | None'},
         # round 3 (m1): `check_safe=False` (implicit exceptions ASSUMED away) removed.  The division by the sample size is then an
         # obligation (safe:div), and the refusal of an empty sample is part of the contract, as in calculate_likelihood_and_derivatives
         raises={'BiogemeError': 'batch is not None or (batch is None and len(x) == len(self.id_manager.free_betas_values) and scaled '
                                 'and float(self.database.get_sample_size()) == 0)',
                 'ValueError': 'batch is None and len(x) != len(self.id_manager.free_betas_values)'},
         modifies=['*.individualMap', '*.data', '*.fullIndividualMap'],
         ensures={'value': "result == ite(scaled, app('engine.calculateLikelihood', self.theC, x, self.id_manager.fixed_betas_values) / float(self.database.get_sample_size()), "
                           "app('engine.calculateLikelihood', self.theC, x, self.id_manager.fixed_betas_values))",
                  # panel data: the map individual -> rows was rebuilt from the data the database holds now (a stale map gives a wrong sample size)
                  'panel_map_is_the_map_of_the_data': PANEL_CLAUSE},
         replay="""
import warnings; warnings.simplefilter('ignore')
import pandas as pd, numpy as np
from biogeme.expressions import Beta, Variable
from biogeme.database import Database
from biogeme.biogeme import BIOGEME
from biogeme.parameters import Parameters
from biogeme.exceptions import BiogemeError
db = Database('d', pd.DataFrame({'x': [1.0, 2.0, 4.0], 'y': [0.5, 0.1, 0.2]}))
f = -(Beta('b', 0.3, None, None, 0) * Variable('x') - Variable('y')) ** 2
b = BIOGEME(db, f, parameters=Parameters())
u, s = b.calculate_likelihood([0.3], scaled=False), b.calculate_likelihood([0.3], scaled=True)
want = -sum((0.3 * x - y) ** 2 for x, y in [(1.0, 0.5), (2.0, 0.1), (4.0, 0.2)])
violated = not (abs(u - want) < 1e-9 and abs(s - want / 3) < 1e-9)
detail = f'unscaled {u} (sum of rows {want}), scaled {s} (expected {want / 3})'
if not violated:
    # the sample emptied after the object was built: the scaled value is undefined; refused with BiogemeError (as the sibling
    # calculate_likelihood_and_derivatives does), never an implicit ZeroDivisionError
    db.remove(Variable('x') > 0)
    try:
        r = b.calculate_likelihood([0.3], scaled=True)
        violated, detail = True, f'sample size {db.get_sample_size()}: scaled likelihood returned {r}'
    except BiogemeError:
        pass
    except Exception as e:
        violated, detail = True, f'sample size {db.get_sample_size()}: calculate_likelihood(scaled=True) raises {type(e).__name__}: {e} (expected BiogemeError)'
""")
