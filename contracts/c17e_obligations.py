"""C17 (round 3, agent c17e): lemmas and static obligations of the segmentation contracts (used by props/C17.extra only;
not a contract module).

LEMMAS (z3, all integers / reals, arbitrary term function t and lengths n): contracts/c17e_segmentation.py proves
    value(segmented_beta()) == sum over the positions p of the term list of  ite(p == 0, reference, t(seg(p-1), cat(p-1)))
(one position per (segmentation, category) pair, numbering c17e_off / c17e_seg / c17e_cat of specs/c17e_specs.py).  The lemmas
turn this into the documented double sum
    reference + sum_{s < m} sum_{q < n(s)} t(s, q)
by three inductions whose base cases and steps are the obligations below (the induction principle itself is the trusted
step, as for LEMMA sum-zero-tail / sum-congruence).

STATIC (AST of the real source, biogeme never imported): Segmentation.segmented_code / OneSegmentation.list_of_code
enumerate the same (segmentation, category) positions as segmented_beta / list_of_expressions and render the same
formula; Segmentation.__init__ builds one OneSegmentation per tuple, in order.
"""
from __future__ import annotations

import ast
import time

import z3

from pyvc.driver import Extra
from contracts.c17_obligations import _replay_code

Z3 = f'z3-{z3.get_version_string()}'
PRE = 'C17:lemma:segmented_beta:'


def _prove(hyps, goal, timeout=10000):
    s = z3.Solver()
    s.set('timeout', timeout)
    s.add(*hyps)
    s.add(z3.Not(goal))
    r = str(s.check())
    return r, (str(s.model())[:500] if r == 'sat' else '')


def lemma_extras() -> list[Extra]:
    I, R = z3.IntSort(), z3.RealSort()
    n, off, seg, cat = (z3.Function(x, I, I) for x in ('n', 'off', 'seg', 'cat'))
    t = z3.Function('t', I, I, R)
    FS, DS, SG = z3.Function('FS', I, R), z3.Function('DS', I, R), z3.Function('SG', I, R)
    IN = z3.Function('IN', I, I, R)
    m, k, q, p = z3.Ints('m k q p')
    r = z3.Real('r')
    s_, q_, p_ = z3.Ints('s_ q_ p_')
    # definitions (recursions) and the numbering axioms of specs/c17e_specs.py
    lengths = z3.ForAll([s_], z3.Implies(z3.And(s_ >= 0, s_ < m), n(s_) >= 0))
    off_rec = z3.And(off(0) == 0, z3.ForAll([s_], z3.Implies(z3.And(s_ >= 0, s_ < m), off(s_ + 1) == off(s_) + n(s_))))
    encode = z3.ForAll([s_, q_], z3.Implies(z3.And(s_ >= 0, s_ < m, q_ >= 0, q_ < n(s_)),
                                            z3.And(seg(off(s_) + q_) == s_, cat(off(s_) + q_) == q_)))
    fs_def = z3.And(FS(0) == 0, z3.ForAll([p_], z3.Implies(p_ >= 0, FS(p_ + 1) == FS(p_) + t(seg(p_), cat(p_)))))
    in_def = z3.ForAll([s_], z3.And(IN(s_, 0) == 0, z3.ForAll([q_], z3.Implies(q_ >= 0, IN(s_, q_ + 1) == IN(s_, q_) + t(s_, q_)))))
    ds_def = z3.And(DS(0) == 0, z3.ForAll([s_], z3.Implies(s_ >= 0, DS(s_ + 1) == DS(s_) + IN(s_, n(s_)))))
    G = lambda x: z3.If(x == 0, r, t(seg(x - 1), cat(x - 1)))      # noqa: E731
    sg_def = z3.And(SG(0) == 0, z3.ForAll([p_], z3.Implies(p_ >= 0, SG(p_ + 1) == SG(p_) + G(p_))))
    base = [m >= 0, lengths, off_rec, encode, fs_def, in_def, ds_def, sg_def]
    in_k = z3.And(k >= 0, k < m)
    Q = lambda x: FS(off(k) + x) == FS(off(k)) + IN(k, x)          # noqa: E731
    P = lambda x: FS(off(x)) == DS(x)                              # noqa: E731
    Rr = lambda x: SG(1 + x) == r + FS(x)                          # noqa: E731
    steps = {
        'offsets-are-non-negative:base': ([], off(0) >= 0),
        'offsets-are-non-negative:step': ([in_k, off(k) >= 0], off(k + 1) >= 0),
        # inner induction (categories of segmentation k): the flat prefix sum advances by the inner prefix sum
        'within-a-segmentation:base': ([in_k], Q(0)),
        'within-a-segmentation:step': ([in_k, off(k) >= 0, q >= 0, q < n(k), Q(q)], Q(q + 1)),
        # outer induction (segmentations): flat sum up to the offset of k == double sum over the first k segmentations
        'over-the-segmentations:base': ([], P(0)),
        'over-the-segmentations:step': ([in_k, P(k), Q(n(k))], P(k + 1)),
        # the reference term in front: sum over the term list == reference + flat sum
        'reference-in-front:base': ([], Rr(0)),
        'reference-in-front:step': ([p >= 0, Rr(p)], Rr(p + 1)),
        # conclusion from the three induction results at their end points
        'position-sum-is-reference-plus-double-sum': ([P(m), Rr(off(m)), off(m) >= 0], SG(1 + off(m)) == r + DS(m)),
    }
    # ground instances of the definitions that each step uses (an instance of a universally quantified definition is a
    # consequence of it: the solver is given exactly the needed ones first, the quantified definitions only as a fallback)
    def i_fs(x):
        return z3.Implies(x >= 0, FS(x + 1) == FS(x) + t(seg(x), cat(x)))

    def i_in(a, b):
        return z3.And(IN(a, 0) == 0, z3.Implies(b >= 0, IN(a, b + 1) == IN(a, b) + t(a, b)))

    def i_ds(a):
        return z3.Implies(a >= 0, DS(a + 1) == DS(a) + IN(a, n(a)))

    def i_sg(x):
        return z3.Implies(x >= 0, SG(x + 1) == SG(x) + G(x))

    def i_off(a):
        return z3.Implies(z3.And(a >= 0, a < m), z3.And(off(a + 1) == off(a) + n(a), n(a) >= 0))

    def i_enc(a, b):
        return z3.Implies(z3.And(a >= 0, a < m, b >= 0, b < n(a)), z3.And(seg(off(a) + b) == a, cat(off(a) + b) == b))
    zero = z3.IntVal(0)
    ground = {
        'offsets-are-non-negative:base': [off(0) == 0],
        'offsets-are-non-negative:step': [i_off(k)],
        'within-a-segmentation:base': [IN(k, 0) == 0],
        'within-a-segmentation:step': [i_fs(off(k) + q), i_in(k, q), i_enc(k, q), i_off(k)],
        'over-the-segmentations:base': [off(0) == 0, FS(0) == 0, DS(0) == 0],
        'over-the-segmentations:step': [i_off(k), i_ds(k)],
        'reference-in-front:base': [SG(0) == 0, i_sg(zero), FS(0) == 0],
        'reference-in-front:step': [i_sg(1 + p), i_fs(p)],
        'position-sum-is-reference-plus-double-sum': [],
    }
    out = []
    for label, (hyps, goal) in steps.items():
        t0 = time.time()
        res, model = _prove([m >= 0] + ground[label] + hyps, goal, 5000)
        how = 'ground instances of the definitions'
        if res != 'unsat':
            res, model = _prove(base + hyps, goal)
            how = 'quantified definitions'
        st = {'unsat': 'discharged', 'sat': 'failed'}.get(res, 'unknown')
        out.append(Extra(PRE + label, 'lemma', st, Z3, time.time() - t0,
                         f'sum over the (segmentation, category) positions == reference + sum_s sum_q t(s, q): induction base / step '
                         f'(arbitrary t, lengths n(s) >= 0; {how})' if st == 'discharged' else f'{res} {model}', {'model': model} if model else None))
    return out


# ------------------------------------------------------------------------------------------------------ static obligations
SPRE = 'C17:static:'
_BOUNDED_REPLAY = _replay_code('c17_segmentation.py', 'segmented_code:exec-gives-same-formula')
STATIC_NAMES = ['segmented_code:terms-enumerate-the-positions-of-segmented_beta',
                'list_of_code:one-term-per-entry-rendering-parameter-times-indicator',
                'segmented_code:declares-the-parameter-of-every-position',
                'segmented_code:result-is-a-bioMultSum-of-the-joined-terms',
                'Segmentation.__init__:one-OneSegmentation-per-tuple-in-order',
                'segmented_beta(function):is-Segmentation(...).segmented_beta()']
REPLAYS = {SPRE + nme: (_replay_code('c17_segmentation.py', 'segmented_beta:function-form') if '(function)' in nme else
                        _replay_code('c17_segmentation.py', 'segmented_beta:value-per-segment') if 'Segmentation.__init__' in nme else _BOUNDED_REPLAY)
           for nme in STATIC_NAMES}


class _Unrecognised(Exception):
    pass


def _u(n) -> str:
    return ast.unparse(n)


def _method(repo, cls, name) -> ast.FunctionDef:
    fi = repo.function(f'biogeme.segmentation.{cls}.{name}')
    if fi is None:
        raise _Unrecognised(f'{cls}.{name} not found')
    return fi.node


def _comps(fn, n_generators):
    return [c for c in ast.walk(fn) if isinstance(c, (ast.ListComp, ast.GeneratorExp)) and len(c.generators) == n_generators]


def _gen_sig(c):
    """(targets, iterables, number of filters) of a comprehension"""
    return [(_u(g.target), _u(g.iter), len(g.ifs)) for g in c.generators]


def _fstring_parts(js: ast.JoinedStr):
    out = []
    for v in js.values:
        if isinstance(v, ast.Constant):
            out.append(('text', v.value))
        else:
            out.append(('hole', _u(v.value)))
    # adjacent literal pieces are one text
    merged = []
    for kind, val in out:
        if merged and kind == 'text' and merged[-1][0] == 'text':
            merged[-1] = ('text', merged[-1][1] + val)
        else:
            merged.append((kind, val))
    return merged


def _check_terms(repo):
    code, expr = _method(repo, 'Segmentation', 'segmented_code'), _method(repo, 'Segmentation', 'segmented_beta')
    flat_e = [c for c in _comps(expr, 2) if 'list_of_expressions' in _u(c)]
    flat_c = [c for c in _comps(code, 2) if 'list_of_code' in _u(c)]
    if len(flat_e) != 1 or len(flat_c) != 1:
        raise _Unrecognised('the flattening comprehensions over list_of_expressions() / list_of_code() were not found')
    ge, gc = _gen_sig(flat_e[0]), _gen_sig(flat_c[0])
    want = [(ge[0][0], ge[0][1], 0), (ge[1][0], ge[1][1].replace('list_of_expressions', 'list_of_code'), 0)]
    if any(g[2] for g in ge):
        return 'failed', f'segmented_beta filters its positions: {ge}'
    if gc != want or _u(flat_c[0].elt) != gc[1][0] or _u(flat_e[0].elt) != ge[1][0]:
        return 'failed', f'segmented_code enumerates {gc} -> {_u(flat_c[0].elt)}, segmented_beta {ge} -> {_u(flat_e[0].elt)}'
    # both lists start with the reference parameter and are extended by the flattened terms (any local names; `+=` or `+`)
    def first_and_extend(fn, flat, first_pred):
        holders = {_u(s.targets[0]) for s in ast.walk(fn) if isinstance(s, ast.Assign) and len(s.targets) == 1 and s.value is flat}

        def is_flat(e):
            return e is flat or (isinstance(e, ast.Name) and e.id in holders)

        def is_first(e):
            return isinstance(e, ast.List) and len(e.elts) == 1 and first_pred(e.elts[0])
        for s in ast.walk(fn):
            if isinstance(s, ast.AugAssign) and isinstance(s.op, ast.Add) and is_flat(s.value):
                tgt = _u(s.target)
                firsts = [a for a in ast.walk(fn) if isinstance(a, ast.Assign) and len(a.targets) == 1 and _u(a.targets[0]) == tgt and is_first(a.value)]
                if len(firsts) == 1:
                    return True
            if isinstance(s, ast.BinOp) and isinstance(s.op, ast.Add) and is_first(s.left) and is_flat(s.right):
                return True
        return False
    if not first_and_extend(code, flat_c[0], lambda e: _u(e) == 'self.beta_code()'):
        raise _Unrecognised('segmented_code: `terms = [self.beta_code()]; terms += [...]` not found')
    if not first_and_extend(expr, flat_e[0], lambda e: isinstance(e, ast.Name)):
        raise _Unrecognised('segmented_beta: `terms = [ref_beta]; terms += [...]` not found')
    return 'discharged', f'both enumerate {ge}, first term the reference parameter'


def _check_list_of_code(repo):
    lc, le = _method(repo, 'OneSegmentation', 'list_of_code'), _method(repo, 'OneSegmentation', 'list_of_expressions')
    cc, ce = _comps(lc, 1), _comps(le, 1)
    if len(cc) != 1 or len(ce) != 1:
        raise _Unrecognised('one comprehension per function expected')
    if _gen_sig(cc[0]) != _gen_sig(ce[0]) or _gen_sig(ce[0])[0][2] != 0:
        return 'failed', f'list_of_code iterates {_gen_sig(cc[0])}, list_of_expressions {_gen_sig(ce[0])}'
    tgt = cc[0].generators[0].target
    if not (isinstance(tgt, ast.Tuple) and len(tgt.elts) == 2 and _u(cc[0].generators[0].iter) == 'self.mapping.items()'):
        raise _Unrecognised('generator `for value, category in self.mapping.items()` expected')
    code_v, cat_v = _u(tgt.elts[0]), _u(tgt.elts[1])
    elt = ce[0].elt
    want_e = f'self.beta_expression({cat_v}) * (self.variable == Numeric({code_v}))'
    if _u(elt) != want_e:
        raise _Unrecognised(f'list_of_expressions element is {_u(elt)}')
    if not isinstance(cc[0].elt, ast.JoinedStr):
        raise _Unrecognised('list_of_code element is not an f-string')
    parts = _fstring_parts(cc[0].elt)
    want = [('hole', f'self.beta_name({cat_v})'), ('text', " * (Variable('"), ('hole', 'self.variable.name'), ('text', "') == "),
            ('hole', code_v), ('text', ')')]
    if parts != want:
        return 'failed', f'rendered term {parts}, expected {want}'
    return 'discharged', f'term text = <name of the parameter of the category> * (Variable(<name>) == <code>) for every entry of self.mapping'


def _check_declarations(repo):
    code = _method(repo, 'Segmentation', 'segmented_code')
    decl = [c for c in _comps(code, 2) if 'beta_code' in _u(c.elt)]
    if len(decl) != 1:
        raise _Unrecognised('the comprehension of the parameter declarations was not found')
    g = _gen_sig(decl[0])
    s_v, c_v = g[0][0], g[1][0]
    if g != [(s_v, 'self.segmentations', 0), (c_v, f'{s_v}.mapping.values()', 0)]:
        return 'failed', f'declarations enumerate {g}'
    if _u(decl[0].elt) != f'{s_v}.beta_code({c_v}, assignment=True)':
        return 'failed', f'declaration text {_u(decl[0].elt)}'
    bc = _method(repo, 'OneSegmentation', 'beta_code')
    rets = [r for r in ast.walk(bc) if isinstance(r, ast.Return) and isinstance(r.value, ast.JoinedStr)]
    if len(rets) != 2:
        raise _Unrecognised('OneSegmentation.beta_code: two f-string returns expected')
    want = [('hole', 'name'), ('text', " = Beta('"), ('hole', 'name'), ('text', "', "), ('hole', 'self.beta.initValue'), ('text', ', '),
            ('hole', 'lower_bound'), ('text', ', '), ('hole', 'upper_bound'), ('text', ', '), ('hole', 'self.beta.status'), ('text', ')')]
    decls = [r for r in rets if any(k == 'text' and ' = Beta(' in v for k, v in _fstring_parts(r.value))]
    if len(decls) != 1:
        raise _Unrecognised('beta_code: the return with the assignment text was not found')
    if _fstring_parts(decls[0].value) != want:
        return 'failed', f'declaration rendered as {_fstring_parts(decls[0].value)}'
    names = [s for s in ast.walk(bc) if isinstance(s, ast.Assign) and _u(s.targets[0]) == 'name']
    if len(names) != 1 or _u(names[0].value) != 'self.beta_name(category)':
        raise _Unrecognised('beta_code: name = self.beta_name(category) expected')
    return 'discharged', 'one declaration `<name> = Beta(<name>, init, lb, ub, status)` per (segmentation, category) position, name from beta_name'


def _check_join(repo):
    code = _method(repo, 'Segmentation', 'segmented_code')
    joins = [s for s in ast.walk(code) if isinstance(s, ast.Assign) and _u(s.targets[0]) == 'joined_terms']
    if len(joins) != 1:
        raise _Unrecognised('joined_terms assignment not found')
    if _u(joins[0].value) != "', '.join(terms)":
        return 'failed', f'terms joined by {_u(joins[0].value)}'
    outs = [s for s in ast.walk(code) if isinstance(s, ast.AugAssign) and _u(s.target) == 'result' and isinstance(s.value, ast.JoinedStr)
            and 'joined_terms' in _u(s.value)]
    if len(outs) != 1:
        raise _Unrecognised('the bioMultSum line was not found')
    parts = _fstring_parts(outs[0].value)
    want = [('hole', 'self.prefix'), ('text', '_'), ('hole', 'self.beta.name'), ('text', ' = bioMultSum(['), ('hole', 'joined_terms'), ('text', '])')]
    if parts != want:
        return 'failed', f'result line {parts}'
    ifs = [s for s in ast.walk(code) if isinstance(s, ast.If) and _u(s.test) == 'len(terms) == 1']
    if len(ifs) != 1 or _u(ifs[0].body[0]) != 'result += terms[0]':
        raise _Unrecognised('single-term case `if len(terms) == 1: result += terms[0]` not found')
    return 'discharged', 'result = <prefix>_<name> = bioMultSum([t_0, t_1, ...]) (the single reference term alone when there is no position)'


def _check_init(repo):
    init = _method(repo, 'Segmentation', '__init__')
    asg = {}
    for s in ast.walk(init):
        if isinstance(s, ast.Assign) and len(s.targets) == 1:
            asg[_u(s.targets[0])] = s.value
        elif isinstance(s, ast.AnnAssign) and s.value is not None:
            asg[_u(s.target)] = s.value
    if 'self.segmentations' not in asg or 'self.beta' not in asg:
        raise _Unrecognised('assignments of self.segmentations / self.beta not found')
    if _u(asg['self.beta']) != 'beta':
        return 'failed', f"self.beta = {_u(asg['self.beta'])}"
    v = asg['self.segmentations']
    if not (isinstance(v, ast.Call) and _u(v.func) in ('tuple', 'list') and len(v.args) == 1 and isinstance(v.args[0], (ast.GeneratorExp, ast.ListComp))
            and len(v.args[0].generators) == 1):
        raise _Unrecognised(f'self.segmentations = {_u(v)}')
    g = v.args[0].generators[0]
    if g.ifs:
        return 'failed', f'segmentations built from {_u(g.iter)} with {len(g.ifs)} filter(s)'
    if _u(g.iter) != 'segmentation_tuples':
        raise _Unrecognised(f'segmentations built from {_u(g.iter)}')
    if _u(v.args[0].elt) != f'OneSegmentation(beta, {_u(g.target)})':
        return 'failed', f'element {_u(v.args[0].elt)}'
    return 'discharged', 'self.segmentations[s] = OneSegmentation(beta, tuple_s) for every tuple, in order; self.beta = beta'


def _check_function_form(repo):
    fi = repo.function('biogeme.segmentation.segmented_beta')
    if fi is None:
        raise _Unrecognised('module-level segmented_beta not found')
    fn = fi.node
    params = [a.arg for a in fn.args.args]
    rets = [r for r in ast.walk(fn) if isinstance(r, ast.Return)]
    if len(rets) != 1 or params != ['beta', 'segmentation_tuples', 'prefix']:
        raise _Unrecognised('one return and the parameters (beta, segmentation_tuples, prefix) expected')
    v = rets[0].value
    if not (isinstance(v, ast.Call) and isinstance(v.func, ast.Attribute) and not v.args and not v.keywords):
        raise _Unrecognised(f'return {_u(v)}')
    recv = v.func.value
    if isinstance(recv, ast.Name):
        binds = [s for s in ast.walk(fn) if isinstance(s, ast.Assign) and len(s.targets) == 1 and _u(s.targets[0]) == recv.id]
        if len(binds) != 1:
            raise _Unrecognised(f'{recv.id} bound {len(binds)} times')
        recv = binds[0].value
    if not (isinstance(recv, ast.Call) and _u(recv.func) == 'Segmentation'):
        raise _Unrecognised(f'receiver {_u(recv)}')
    given = dict(zip(['beta', 'segmentation_tuples', 'prefix'], [_u(a) for a in recv.args]))
    given.update({k.arg: _u(k.value) for k in recv.keywords})
    if v.func.attr != 'segmented_beta':
        return 'failed', f'returns Segmentation(...).{v.func.attr}()'
    if given != {'beta': 'beta', 'segmentation_tuples': 'segmentation_tuples', 'prefix': 'prefix'}:
        return 'failed', f'Segmentation built with {given}'
    return 'discharged', 'segmented_beta(beta, tuples, prefix) == Segmentation(beta, tuples, prefix).segmented_beta()'


def static_extras() -> list[Extra]:
    from pyvc.repo import get_repo
    repo = get_repo()
    out = []
    for nme, fn in zip(STATIC_NAMES, (_check_terms, _check_list_of_code, _check_declarations, _check_join, _check_init, _check_function_form)):
        t0 = time.time()
        try:
            st, detail = fn(repo)
        except _Unrecognised as e:
            st, detail = 'unknown', f'shape of the code not recognised ({e}): decided by the replay (bounded stand-in on the real code)'
        out.append(Extra(SPRE + nme, 'static', st, 'ast-static', time.time() - t0, detail, {'detail': detail} if st != 'discharged' else None))
    return out
