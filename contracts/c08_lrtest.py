"""C08 (extension): the likelihood-ratio test  (biogeme.tools.likelihood_ratio, bioResults.likelihood_ratio_test).

What is demanded, for ALL pairs of models (L1, K1), (L2, K2) and all significance levels:

  * a test is reported only when one model can play the unrestricted role: it has strictly more
    parameters and a log likelihood that is not lower (`_OK`); otherwise BiogemeError -- in BOTH
    argument orders (the documentation and tests/functions/test_tools.py say the two models may be
    given in either order);
  * the unrestricted model is the one with the higher likelihood / more parameters, so that
        statistic = -2 (L_restricted - L_unrestricted) = 2 (max L - min L)
        degrees of freedom = K_unrestricted - K_restricted = max K - min K >= 1
        threshold = chi2.ppf(1 - significance_level, degrees of freedom)
    (`scipy.stats.chi2.ppf` is a LIBSPEC uninterpreted function: what is proved is which arguments it gets);
  * the verdict compares exactly these two figures.

Ties are where the code (as of the snapshot) depends on the argument order, and only the two `raises:*` obligations
see them (the figure clauses are stated for acceptable orderings only):
    likelihood_ratio_test((-100, 3), (-110, 3)) returns ('H0 can be rejected ...', 20.0, nan)   [0 degrees of freedom]
    likelihood_ratio_test((-110, 3), (-100, 3)) raises BiogemeError
    likelihood_ratio_test((-100, 5), (-100, 3)) raises BiogemeError ("... has a lower log likelihood": it is equal)
    likelihood_ratio_test((-100, 3), (-100, 5)) returns ('H0 cannot be rejected ...', 0.0, 5.99)
"""
from pyvc.contract import contract

T = 'biogeme.tools.likelihood_ratio.'

# model1 can be the unrestricted model of a test against model2 (and the other way round)
_UR1 = '(model1[1] > model2[1] and model1[0] >= model2[0])'
_UR2 = '(model2[1] > model1[1] and model2[0] >= model1[0])'
_OK = f'({_UR1} or {_UR2})'

_LMAX = 'ite(model1[0] >= model2[0], model1[0], model2[0])'
_LMIN = 'ite(model1[0] >= model2[0], model2[0], model1[0])'
_KMAX = 'ite(model1[1] >= model2[1], model1[1], model2[1])'
_KMIN = 'ite(model1[1] >= model2[1], model2[1], model1[1])'

_REPLAY = """
# the solver's model first, then a fixed list of orderings (strict, ties in K, ties in L), both argument orders
from scipy.stats import chi2
from biogeme.exceptions import BiogemeError
from biogeme.tools.likelihood_ratio import likelihood_ratio_test
def get(k, d):
    v = m.get(k)
    return v if isinstance(v, (int, float)) and not isinstance(v, bool) else d
cands = []
t1, t2 = m.get('model1'), m.get('model2')
if isinstance(t1, (list, tuple)) and isinstance(t2, (list, tuple)) and len(t1) == 2 and len(t2) == 2:
    try:
        cands.append(((float(t1[0]), int(t1[1])), (float(t2[0]), int(t2[1])), num(m.get('significance_level'), 0.05) or 0.05))
    except Exception:
        pass
base = [((-110.0, 3), (-100.0, 5)), ((-100.0, 3), (-110.0, 5)), ((-100.0, 3), (-110.0, 3)), ((-100.0, 3), (-100.0, 5)),
        ((-100.0, 4), (-100.0, 4)), ((-1340.8, 5), (-1338.49, 7))]
for a, b in base:
    for s in (0.05, 0.1):
        cands += [(a, b, s), (b, a, s)]
found = {}
for a, b, s in cands:
    if not (0 < s < 1):
        continue
    ok = (a[1] > b[1] and a[0] >= b[0]) or (b[1] > a[1] and b[0] >= a[0])
    try:
        r = likelihood_ratio_test(a, b, s)
    except BiogemeError as e:
        if ok:
            found.setdefault('raised', f'likelihood_ratio_test({a}, {b}, {s}) raised BiogemeError ({e}) although model {a if a[1] > b[1] else b} has more '
                                       f'parameters and no lower likelihood; the other argument order returns a test')
        continue
    stat = 2 * (max(a[0], b[0]) - min(a[0], b[0]))
    dof = max(a[1], b[1]) - min(a[1], b[1])
    thr = chi2.ppf(1 - s, dof) if dof > 0 else float('nan')
    if not ok:
        found.setdefault('returned', f'likelihood_ratio_test({a}, {b}, {s}) = {tuple(r)}: no BiogemeError although neither model can be the '
                                     f'unrestricted one (degrees of freedom {dof}); the other argument order raises')
    elif not (abs(r.statistic - stat) <= 1e-9 * max(1, abs(stat)) and abs(r.threshold - thr) <= 1e-9 * max(1, abs(thr))
              and r.message.startswith('H0 cannot') == (r.statistic <= r.threshold)):
        found.setdefault('figures', f'likelihood_ratio_test({a}, {b}, {s}) = {tuple(r)}, expected statistic {stat}, threshold chi2.ppf({1 - s}, {dof}) = {thr}')
# the failure this obligation is about first
ob = payload.get('obligation', '')
order = ['raised', 'returned', 'figures'] if 'only-if-cond' in ob else (['returned', 'raised', 'figures'] if 'means-not-cond' in ob else ['figures', 'returned', 'raised'])
violated = bool(found)
detail = next((found[k] for k in order if k in found), '')
"""

contract(T + 'likelihood_ratio_test', 'C08',
         types={'model1': 'tuple[float, int]', 'model2': 'tuple[float, int]', 'significance_level': 'float'},
         raises={'BiogemeError': f'not {_OK}'},
         ensures={
             # on return the ordering was acceptable (raises clause); the figures of an acceptable test:
             'statistic': f'implies({_OK}, result.statistic == -2 * ({_LMIN} - {_LMAX}))',
             'degrees_of_freedom': f"implies({_OK}, result.threshold == app('scipy.stats.chi2.ppf', 1 - significance_level, {_KMAX} - {_KMIN}) "
                                   f"and {_KMAX} - {_KMIN} >= 1)",
             'unrestricted_is_the_larger_model': f'implies({_OK}, result.statistic >= 0)',
             'verdict': "result.message == ite(result.statistic <= result.threshold, "
                        "f'H0 cannot be rejected at level {100*significance_level:.1f}%', "
                        "f'H0 can be rejected at level {100*significance_level:.1f}%')",
         },
         replay=_REPLAY)

_METHOD_REPLAY = """
import sys
sys.path.insert(0, '/verif/bounded')
import c08_tables
n, bad = c08_tables.run_lrtest(cases=6, seed=0)
violated = bool(bad)
detail = f'{n} comparisons; first mismatch: {bad[0] if bad else None}'
"""

# the method of a results object: its own (logLike, nparam) against the other model's, each pair from ONE model
contract('biogeme.results.bioResults.likelihood_ratio_test', 'C08',
         types={'other_model': 'bioResults', 'significance_level': 'float'},
         requires={'data': 'self.data is not None and other_model.data is not None'},
         raises={'BiogemeError': 'not ((self.data.nparam > other_model.data.nparam and self.data.logLike >= other_model.data.logLike) or '
                                 '(other_model.data.nparam > self.data.nparam and other_model.data.logLike >= self.data.logLike))'},
         ensures={
             'statistic': 'result.statistic == -2 * (ite(self.data.logLike >= other_model.data.logLike, other_model.data.logLike, self.data.logLike) - '
                          'ite(self.data.logLike >= other_model.data.logLike, self.data.logLike, other_model.data.logLike))',
             'threshold': "result.threshold == app('scipy.stats.chi2.ppf', 1 - significance_level, "
                          "ite(self.data.nparam >= other_model.data.nparam, self.data.nparam - other_model.data.nparam, "
                          "other_model.data.nparam - self.data.nparam))",
         },
         replay=_METHOD_REPLAY)
