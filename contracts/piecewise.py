"""Contracts for biogeme.models.piecewise (C17)."""
from pyvc.contract import contract

Q = 'biogeme.models.piecewise.'

# value of the q-th piecewise-linear variable at x (documentation of piecewise_variables):
#   first threshold None:  min(x, t1);  last threshold None: max(0, x - t_q);
#   otherwise max(0, min(x - t_q, t_{q+1} - t_q))
PWV = ("(ite(thresholds[q] is None, ite(x < typed(thresholds[q + 1], 'float'), x, typed(thresholds[q + 1], 'float')), "
       "ite(thresholds[q + 1] is None, ite(x - typed(thresholds[q], 'float') > 0, x - typed(thresholds[q], 'float'), 0.0), "
       "ite(x - typed(thresholds[q], 'float') < 0, 0.0, "
       "ite(x - typed(thresholds[q], 'float') < typed(thresholds[q + 1], 'float') - typed(thresholds[q], 'float'), "
       "x - typed(thresholds[q], 'float'), typed(thresholds[q + 1], 'float') - typed(thresholds[q], 'float'))))))")

SUM = f"sum_range(lambda q: betas[q] * {PWV}, 0, LIM)"

_WELL_FORMED = ("len(thresholds) >= 2 and not (thresholds[0] is None and thresholds[len(thresholds) - 1] is None and len(thresholds) == 2) "
                "and forall(lambda q: thresholds[q] is not None, 1, len(thresholds) - 1) "
                "and len(betas) == len(thresholds) - 1")

_MALFORMED = ("forall(lambda q: thresholds[q] is None, 0, len(thresholds)) "
              "or exists(lambda q: thresholds[q] is None, 1, len(thresholds) - 1) "
              "or len(betas) != len(thresholds) - 1")

contract(Q + 'piecewise_function', 'C17', nla_uf=True,
         types={'x': 'float', 'thresholds': 'list[float | None]', 'betas': 'list[float]'},
         requires={
             # thresholds increase (the documented use: consecutive intervals)
             'increasing': "forall(lambda a: forall(lambda b: implies(a < b and thresholds[a] is not None and thresholds[b] is not None, "
                           "typed(thresholds[a], 'float') < typed(thresholds[b], 'float')), 0, len(thresholds)), 0, len(thresholds))",
         },
         # malformed input is refused, and nothing else is (no precondition on the shape of the lists)
         raises={'BiogemeError': _MALFORMED},
         ensures={'closed_form': f"result == {SUM.replace('LIM', 'len(betas)')}"},
         hints=[SUM.replace('LIM', 'i + 1')],
         invariants={1: {'clauses': {
             'total': f"total == {SUM.replace('LIM', '_k')}",
             'rest': "rest == ite(_k == 0, ite(thresholds[0] is None, x, x - typed(thresholds[0], 'float')), x - typed(thresholds[_k], 'float'))",
             'beyond': "implies(_k > 0, x >= typed(thresholds[_k], 'float'))",
             'first': "implies(_k == 0 and thresholds[0] is not None, x >= typed(thresholds[0], 'float'))",
         }}},
         replay="""
from biogeme.models.piecewise import piecewise_function
def ref(x, t, b):
    tot = 0.0
    for q in range(len(b)):
        if t[q] is None:
            v = min(x, t[q + 1])
        elif t[q + 1] is None:
            v = max(0.0, x - t[q])
        else:
            v = max(0.0, min(x - t[q], t[q + 1] - t[q]))
        tot += b[q] * v
    return tot
cands = []
mt, mb, mx = m.get('thresholds[]'), m.get('betas[]'), m.get('x')
if isinstance(mt, list) and isinstance(mb, list) and len(mb) == len(mt) - 1 and isinstance(mx, (int, float)):
    cands.append((float(mx), [None if v is None else float(v) for v in mt], [float(v) for v in mb]))
cands += [(1.5, [1.0, 2.0, 3.0], [10.0, 100.0]), (0.0, [-0.5, 1.0], [2.0]), (2.5, [None, 1.0, 2.0, None], [1.0, 10.0, 100.0])]
violated = False
for x, t, b in cands:
    try:
        got, want = piecewise_function(x, t, b), ref(x, t, b)
    except Exception as e:
        continue
    if abs(got - want) > 1e-9 * max(1.0, abs(want)):
        violated = True
        detail = f'piecewise_function({x}, {t}, {b}) = {got}, closed form = {want}'
        break
""")
