"""C05 (round 3, agent c05d): ln G_i of the CROSS-NESTED logit model for every number of nests and alternatives.

models.cnl.get_mev_for_cross_nested on the real node constructors / operator overloads (contracts/c05c_nodes.py,
contracts/c05d_nodes.py).  Nest parameters and allocation parameters are Expression objects (OneNestForCrossNestedLogit
converts the allocation dictionary with get_dict_expressions), nest parameters of value != 0, allocation parameters of
value > 0.  Products / powers / quotients of symbolic reals are uninterpreted (nla_uf): the obligations are equalities of TERMS.
"""
from pyvc.contract import contract, field_type

import contracts.c05c_builders as Bd   # noqa: F401
import contracts.c05c_nested as Ne     # noqa: F401
import contracts.c05c_nodes as N       # noqa: F401
import contracts.c05d_nodes as Nd      # noqa: F401

P = 'C05'
M = 'biogeme.models.cnl.'

field_type('NestsForCrossNestedLogit', 'tuple_of_nests', 'list[OneNestForCrossNestedLogit]')
field_type('OneNestForCrossNestedLogit', 'nest_param', 'Expression')
field_type('OneNestForCrossNestedLogit', 'dict_of_alpha', 'dict[int, Expression]')
field_type('OneNestForCrossNestedLogit', 'list_of_alternatives', 'list[int]')

# ASSUMED (pure, not verified: dict / set comprehensions over the nests are outside the engine): the validity check is a
# function of the nests object; nothing is assumed about WHEN it accepts - the facts the builder needs about the nests are
# `requires` clauses of the builder, proved at its call sites
contract('biogeme.nests.NestsForCrossNestedLogit.check_validity', P, verify=False, pure=True, returns='tuple[bool, str]',
         ensures={}, note='assumed: check_validity is a pure function of the nests object (no fact about its result is assumed)')

T = 'nests.tuple_of_nests'
AV = 'availability'
DA = lambda q: f'{T}[{q}].dict_of_alpha'                    # noqa: E731
KEY = lambda q, p: f'keys_of({DA(q)})[{p}]'                 # noqa: E731
IN_ALONE = lambda x: f"(nests.alone is not None and {x} in typed(nests.alone, 'set[int]'))"     # noqa: E731
ALL_QP = lambda body, hi=f'len({T})': f"forall(lambda q: forall(lambda p: {body}, 0, len({DA('q')})), 0, {hi})"   # noqa: E731

_REQ = {
    'python_dict': f'c05c_dict_wf({AV})',
    'nest_parameters_nonzero': f"forall(lambda q: c05c_val({T}[q].nest_param) != 0, 0, len({T}))",
    'allocation_parameters_positive': ALL_QP(f"c05c_val({DA('q')}[{KEY('q', 'p')}]) > 0"),
    'nest_alternatives_have_utilities': ALL_QP(f"{KEY('q', 'p')} in util"),
    'nest_alternatives_are_not_alone': ALL_QP(f"not {IN_ALONE(KEY('q', 'p'))}"),
    'nest_alternatives_have_availabilities': f"implies({AV} is not None, " + ALL_QP(f"{KEY('q', 'p')} in {AV}") + ")",
    'every_alternative_alone_or_in_a_nest':
        f"forall(lambda r: {IN_ALONE('keys_of(util)[r]')} or exists(lambda a: keys_of(util)[r] in {DA('a')}, 0, len({T})), 0, len(util))",
}

_X_GT = f"(x in util and not {IN_ALONE('x')})"
GT_DOM = f"forall(lambda x: (x in gi_terms) == {_X_GT}, ty='int')"
LG_DOM = f"forall(lambda x: (x in log_gi) == {IN_ALONE('x')}, ty='int')"
LG_ZERO = f"forall(lambda x: implies({IN_ALONE('x')}, c05c_num(log_gi[x]) == 0), ty='int')"
GT_NEW = "forall(lambda x: implies(x in gi_terms, c05d_new(gi_terms[x])), ty='int')"
GT_DISTINCT = ("forall(lambda x: forall(lambda y: implies(x in gi_terms and y in gi_terms and x != y, "
               "gi_terms[x] is not gi_terms[y]), ty='int'), ty='int')")
GT_OTHER = ("forall(lambda x: implies(x in gi_terms, c05d_other(gi_terms[x], gi_terms) and c05d_other(gi_terms[x], log_gi)), ty='int')")
NONEMPTY = lambda hi: ALL_QP(f"len(gi_terms[{KEY('q', 'p')}]) > 0", hi)       # noqa: E731

# ---- loops that create the (empty) term lists ------------------------------------------------------------------------
_FILL_COMMON = {
    'lists_only_for_alternatives': f"forall(lambda x: implies(x in gi_terms, {_X_GT}), ty='int')",
    'lists_empty': "forall(lambda x: implies(x in gi_terms, len(gi_terms[x]) == 0), ty='int')",
    'lists_new': GT_NEW, 'lists_are_not_the_dictionaries': GT_OTHER, 'lists_distinct': GT_DISTINCT, 'alone_domain': LG_DOM, 'alone_zero': LG_ZERO,
}
FILL_A = dict(_FILL_COMMON, lists_so_far="forall(lambda p: keys_of(util)[p] in gi_terms, 0, _k)")
FILL_B = dict(_FILL_COMMON, lists_so_far="forall(lambda p: c05d_iter_elem(p) in gi_terms, 0, _k)")

# ---- loop over the nests, _k nests done --------------------------------------------------------------------------------
OUTER = {'lists_domain': GT_DOM, 'alone_domain': LG_DOM, 'alone_zero': LG_ZERO, 'lists_new': GT_NEW, 'lists_are_not_the_dictionaries': GT_OTHER, 'lists_distinct': GT_DISTINCT,
         'lists_nonempty': NONEMPTY('_k')}

# ---- loop over the allocation dictionary of the current nest m = nests[K], _k entries done ----------------------------------
K = 'c05c_pos(m)'
INNER = {'current_nest': f"0 <= {K} and {K} < len({T}) and m is {T}[{K}]",
         'inner_sum': f"c05c_val(biosum) == c05d_cnsum(m, util, {AV})",
         'lists_domain': GT_DOM, 'alone_domain': LG_DOM, 'alone_zero': LG_ZERO, 'lists_new': GT_NEW, 'lists_are_not_the_dictionaries': GT_OTHER, 'lists_distinct': GT_DISTINCT,
         'lists_nonempty': NONEMPTY(K),
         'lists_nonempty_current_nest': "forall(lambda p: len(gi_terms[keys_of(m.dict_of_alpha)[p]]) > 0, 0, _k)"}

# ---- final loop over the term lists, _k lists done ---------------------------------------------------------------------------
_GK = 'keys_of(gi_terms)[p]'
FINAL = {'lists_domain': GT_DOM, 'lists_new': GT_NEW, 'lists_are_not_the_dictionaries': GT_OTHER, 'lists_distinct': GT_DISTINCT, 'lists_nonempty': NONEMPTY(f'len({T})'),
         'alone_zero': LG_ZERO,
         'alone_kept': f"forall(lambda x: implies({IN_ALONE('x')}, x in log_gi), ty='int')",
         'done_so_far': f"forall(lambda p: {_GK} in log_gi, 0, _k)",
         'nothing_else': f"forall(lambda x: implies(x in log_gi, {IN_ALONE('x')} or x in gi_terms), ty='int')"}

_NOT_OK = 'not nests.check_validity()[0]'
contract(M + 'get_mev_for_cross_nested', P, nla_uf=True,
         types={'util': 'dict[int, Expression]', AV: 'dict[int, Expression] | None', 'nests': 'NestsForCrossNestedLogit'},
         requires=_REQ, modifies=[],
         raises={'BiogemeError': _NOT_OK},
         ensures={'domain': f"forall(lambda x: (x in result) == ({IN_ALONE('x')} or x in util), ty='int')",
                  'alone_zero': LG_ZERO.replace('log_gi', 'result')},
         # the two ways of starting (alone None / a set) are kept apart; statements are executed state by state: loops 1 / 2
         # create the lists, 3 / 6 run over the nests (inner loop per availability branch: 4, 5 / 7, 8), 9 / 10 build the result
         invariants={1: {'clauses': FILL_A}, 2: {'clauses': FILL_B},
                     3: {'clauses': OUTER}, 4: {'clauses': INNER}, 5: {'clauses': INNER},
                     6: {'clauses': OUTER}, 7: {'clauses': INNER}, 8: {'clauses': INNER},
                     9: {'clauses': FINAL}, 10: {'clauses': FINAL}})
