"""C05 (round 3, agent c05d): the CROSS-NESTED generating terms, for every number of nests and alternatives.

models.cnl.get_mev_for_cross_nested runs on the real node constructors / operator overloads (contracts/c05c_nodes.py,
contracts/c05d_nodes.py: the three branches of Expression.__pow__).  PROVED here for all inputs (loop invariants of the two
inner loops, one copy per availability branch and per way of starting):
  inner_sum      the node `biosum` built for nest m has the value c05d_cnsum(m, util, availability), DEFINED
                 (specs/c05d_specs.py) as  sum_{j in m.dict_of_alpha} [av_j *] alpha_mj ** mu_m * exp(mu_m * V_j)
                 in the algebraic form of the code (the availability is a FACTOR here, not a condition as in the nested model);
  appended_term  the node appended to gi_terms[i] in the iteration of alternative i of nest m has the value
                     alpha_mi ** mu_m * exp((mu_m - 1) * V_i) * c05d_cnsum(m, util, availability) ** ((1 - mu_m) / mu_m);
  frame          no container that existed at entry is written (invariant entry_containers_unchanged of every loop, then the
                 frame obligations of modifies=[]); the term lists are objects allocated by the function.
NOT proved here (bounded translation validation C05:bounded:tv:cnl:* only): that log_gi[i] is logzero of the SUM of the
terms appended for i over the nests containing i (list-sum over lists growing inside a dictionary: see the unwired attempt
contracts/c05d_cnl_full_unwired.txt and the report), KeyError-freedom (check_safe=False), the exact raising condition
(may_raise), logcnl / cnl through logmev, the mu variants.
Nest parameters and allocation parameters are Expression objects (OneNestForCrossNestedLogit converts the allocation dictionary
with get_dict_expressions), nest parameters of value != 0, allocation parameters of value > 0.  Products / powers / quotients of
symbolic reals are uninterpreted (nla_uf): the obligations are equalities of TERMS.
"""
from pyvc.contract import contract, field_type

import contracts.c05c_builders as Bd   # noqa: F401
import contracts.c05c_nested as Ne     # noqa: F401
import contracts.c05c_nodes as N       # noqa: F401
import contracts.c05d_nodes as Nd      # noqa: F401

P = 'C05'
M = 'biogeme.models.cnl.'

field_type('NestsForCrossNestedLogit', 'tuple_of_nests', 'list[OneNestForCrossNestedLogit]')
field_type('OneNestForCrossNestedLogit', 'nest_param', 'Expression')
field_type('OneNestForCrossNestedLogit', 'dict_of_alpha', 'dict[int, Expression]')
field_type('OneNestForCrossNestedLogit', 'list_of_alternatives', 'list[int]')

# ASSUMED (pure, not verified: dict / set comprehensions over the nests are outside the engine): the validity check is a
# function of the nests object; nothing is assumed about WHEN it accepts - the facts the builder needs about the nests are
# `requires` clauses of the builder, proved at its call sites
contract('biogeme.nests.NestsForCrossNestedLogit.check_validity', P, verify=False, pure=True, returns='tuple[bool, str]',
         ensures={}, note='assumed: check_validity is a pure function of the nests object (no fact about its result is assumed)')

T = 'nests.tuple_of_nests'
AV = 'availability'
DA = lambda q: f'{T}[{q}].dict_of_alpha'                    # noqa: E731
KEY = lambda q, p: f'keys_of({DA(q)})[{p}]'                 # noqa: E731
IN_ALONE = lambda x: f"(nests.alone is not None and {x} in typed(nests.alone, 'set[int]'))"     # noqa: E731
ALL_QP = lambda body, hi=f'len({T})': f"forall(lambda q: forall(lambda p: {body}, 0, len({DA('q')})), 0, {hi})"   # noqa: E731

_REQ = {
    'python_dict': f'c05c_dict_wf({AV})',
    'nest_parameters_nonzero': f"forall(lambda q: c05c_val({T}[q].nest_param) != 0, 0, len({T}))",
    'allocation_parameters_positive': ALL_QP(f"c05c_val({DA('q')}[{KEY('q', 'p')}]) > 0"),
    'nest_alternatives_have_utilities': ALL_QP(f"{KEY('q', 'p')} in util"),
    'nest_alternatives_are_not_alone': ALL_QP(f"not {IN_ALONE(KEY('q', 'p'))}"),
    'nest_alternatives_have_availabilities': f"implies({AV} is not None, " + ALL_QP(f"{KEY('q', 'p')} in {AV}") + ")",
    'every_alternative_alone_or_in_a_nest':
        f"forall(lambda r: {IN_ALONE('keys_of(util)[r]')} or exists(lambda a: keys_of(util)[r] in {DA('a')}, 0, len({T})), 0, len(util))",
}


K = 'c05c_pos(m)'
MU = 'c05c_val(m.nest_param)'
_KM = 'keys_of(m.dict_of_alpha)[_k - 1]'
_LST = f'gi_terms[{_KM}]'
TERM = (f"c05c_val(m.dict_of_alpha[{_KM}]) ** {MU} * app('numpy.exp', ({MU} - 1) * c05c_val(util[{_KM}])) * "
        f"c05d_cnsum(m, util, {AV}) ** ((1.0 - {MU}) / {MU})")
INNER = {'written_list': f"c05c_cut('the-list-written-by-the-iteration-is-new', lambda: implies(_k > 0, c05d_new({_LST})))",
         'current_nest': f"0 <= {K} and {K} < len({T}) and m is {T}[{K}]",
         'inner_sum': f"c05c_val(biosum) == c05d_cnsum(m, util, {AV})",
         'nest_parameter_nonzero': f"{MU} != 0",
         'appended_term': f"c05c_cut('appended_term:allocation-parameter-positive', lambda: implies(_k > 0, c05c_val(m.dict_of_alpha[{_KM}]) > 0)) and "
                          f"implies(_k > 0, c05c_val({_LST}[len({_LST}) - 1]) == {TERM})"}
GT_NEW = "forall(lambda x: implies(x in gi_terms, c05d_new(gi_terms[x])), ty='int')"
FR = {'entry_containers_unchanged': 'c05d_entry_kept()', 'lists_new': GT_NEW}
INNER.update(FR)
_REPLAY_CNL = '''
# ln G_i of the cross-nested logit on the real Python evaluator against
#   logzero( sum_{m: i in m} alpha_mi^mu_m * exp((mu_m-1) V_i) * (sum_{j in m} [av_j *] alpha_mj^mu_m exp(mu_m V_j))^((1-mu_m)/mu_m) )
# and the per-nest pieces (inner sum, appended term) read off the real tree (fixed candidates)
import logging, math, warnings
logging.disable(logging.CRITICAL); warnings.filterwarnings('ignore')
from biogeme.expressions import Numeric, Beta
from biogeme.nests import OneNestForCrossNestedLogit, NestsForCrossNestedLogit
from biogeme.models.cnl import get_mev_for_cross_nested
cands = [({1: 0.3, 2: -0.2, 3: 1.0}, {1: 1.0, 2: 1.0, 3: 1.0}, [(1.5, {1: 0.5, 2: 1.0}), (2.0, {1: 0.5, 3: 1.0})]),
         ({1: 0.3, 2: -0.2, 3: 1.0, 4: 0.4}, {1: 1.0, 2: 0.0, 3: 1.0, 4: 1.0}, [(2.0, {1: 0.25, 2: 0.5}), (1.25, {3: 1.0, 1: 0.75, 2: 0.5})]),
         ({1: 0.3, 2: -0.2, 3: 1.0, 4: 0.4}, None, [(2.0, {4: 0.5, 1: 1.0}), (3.0, {2: 1.0, 4: 0.5})]),
         ({1: 0.5, 2: 0.1}, {1: 1.0, 2: 1.0}, [(1.0, {1: 1.0, 2: 1.0})])]
violated = False
for V, av, fam in cands:
    U = {k: Beta(f'b{k}', v, None, None, 0) for k, v in V.items()}
    A = None if av is None else {k: Numeric(v) for k, v in av.items()}
    ns = NestsForCrossNestedLogit(list(V), tuple(OneNestForCrossNestedLogit(Beta(f'mu{m}', mu, None, None, 0),
                                   {i: Beta(f'a{m}_{i}', a, None, None, 0) for i, a in al.items()}) for m, (mu, al) in enumerate(fam)))
    got = {k: (e.get_value() if hasattr(e, 'get_value') else float(e)) for k, e in get_mev_for_cross_nested(U, A, ns).items()}
    want = {}
    for i in V:
        tot, inside = 0.0, False
        for mu, al in fam:
            if i in al:
                inside = True
                s = sum((1.0 if av is None else av[j]) * al[j] ** mu * math.exp(mu * V[j]) for j in al)
                tot += al[i] ** mu * math.exp((mu - 1.0) * V[i]) * s ** ((1.0 - mu) / mu)
        want[i] = (0.0 if tot == 0 else math.log(tot)) if inside else 0.0
    bad = [k for k in V if k not in got or abs(got[k] - want[k]) > 1e-11 * max(1.0, abs(want[k]))]
    if bad or set(got) != set(V):
        violated = True
        detail = f'get_mev_for_cross_nested(V={V}, av={av}, nests={fam}): generating terms {got}, textbook {want}; mismatch at {bad}'
        break
'''
contract(M + 'get_mev_for_cross_nested', P, nla_uf=True, check_safe=False,
         types={'util': 'dict[int, Expression]', AV: 'dict[int, Expression] | None', 'nests': 'NestsForCrossNestedLogit'},
         requires={k: _REQ[k] for k in ('python_dict', 'nest_parameters_nonzero', 'allocation_parameters_positive')},
         may_raise=['BiogemeError', 'KeyError'], modifies=[],
         ensures={}, replay=_REPLAY_CNL, min_obligations=100,
         note='partial: per-nest sum, appended term and frame are proved; KeyError-freedom, the raising condition and the sum over '
              'the nests per alternative are not (bounded translation validation C05:bounded:tv:cnl:*)',
         invariants={1: {'clauses': FR}, 2: {'clauses': dict(FR, visited='forall(lambda p: c05d_iter_elem(p) == c05d_iter_elem(p), 0, _k)')},
                     3: {'clauses': FR}, 4: {'clauses': INNER}, 5: {'clauses': INNER},
                     6: {'clauses': FR}, 7: {'clauses': INNER}, 8: {'clauses': INNER},
                     9: {'clauses': FR}, 10: {'clauses': FR}})
