"""C16 (round 2, tag c16c) static obligations: decided on the real AST (pyvc.repo; biogeme is never imported).

all_static(repo) -> list of (name, ok, detail, witness).  Each check states the syntactic class it is sound for;
any other shape is reported as FAILED (never as unknown).
"""
from __future__ import annotations

import ast

CAT = 'biogeme.catalog'
CTRL = 'biogeme.controller'


def _fn(repo, module: str, name: str, cls: str | None = None):
    mi = repo.modules[module]
    if cls is None:
        fi = mi.functions.get(name)
    else:
        fi = mi.classes[cls].methods.get(name)
    return fi.node if fi is not None else None


def _calls(node, name: str) -> list[ast.Call]:
    """Calls `name(...)` / `X.name(...)` below node, in source order."""
    out = []
    for n in ast.walk(node):
        if isinstance(n, ast.Call):
            f = n.func
            if (isinstance(f, ast.Name) and f.id == name) or (isinstance(f, ast.Attribute) and f.attr == name):
                out.append(n)
    return sorted(out, key=lambda c: (c.lineno, c.col_offset))


def _kw(call: ast.Call, name: str):
    for k in call.keywords:
        if k.arg == name:
            return k.value
    return None


def _inside_loop(root, target) -> bool:
    """Is `target` below a for/while/comprehension of `root` (nested function bodies excluded from `root` itself)?"""
    def rec(n, in_loop):
        if n is target:
            return in_loop
        for c in ast.iter_child_nodes(n):
            r = rec(c, in_loop or isinstance(n, (ast.For, ast.While, ast.ListComp, ast.SetComp, ast.DictComp, ast.GeneratorExp)))
            if r is not None:
                return r
        return None
    return bool(rec(root, False))


# ---------------------------------------------------------------------------------------------------------------------
def controller_identity(repo) -> list[tuple]:
    """A-SET-IDENTITY.  The engine models a Python set / dict key as a mathematical set of OBJECTS.  For a class that
    defines __eq__/__hash__ this is only right when both are identity-based.  `get_all_controllers` collects the
    controllers of a formula in a set: if Controller compares by NAME, two different controllers with one name collapse
    into one element (one catalog is then never configured and the product of sizes is wrong).  Obligation: Controller
    defines no __eq__/__hash__, or `__eq__` is `return self is other` and `__hash__` is `return id(self)` /
    `object.__hash__(self)`.  Sound for exactly these shapes."""
    cls = repo.modules[CTRL].classes['Controller']
    eq, hs = cls.methods.get('__eq__'), cls.methods.get('__hash__')

    def ret(fi):
        body = [s for s in fi.node.body if not (isinstance(s, ast.Expr) and isinstance(s.value, ast.Constant))]
        return ast.unparse(body[0].value) if len(body) == 1 and isinstance(body[0], ast.Return) and body[0].value is not None else None
    ok_eq = eq is None or ret(eq) in ('self is other', 'other is self')
    ok_hs = hs is None or ret(hs) in ('id(self)', 'object.__hash__(self)', 'super().__hash__()')
    ok = ok_eq and ok_hs and ((eq is None) == (hs is None))
    wit = None if ok else {'__eq__': ret(eq) if eq else None, '__hash__': ret(hs) if hs else None,
                           'consequence': 'set union in get_all_controllers merges different controllers that share a name'}
    return [('Controller.__eq__/__hash__:sets-of-controllers-hold-objects-not-names', ok,
             'Controller.__eq__/__hash__ are identity-based (or absent), so the set built by get_all_controllers holds every '
             'controller object of the formula; CentralController.__init__ can then see two controllers with one name', wit)]


def catalog_has_no_subclass(repo) -> list[tuple]:
    """A-CLS (pyvc/libext/c16c_ext.py): in the classmethod Catalog.from_dict, `cls` is taken to be Catalog itself."""
    subs = [c.name for c in repo.subclasses('Catalog') if c.name != 'Catalog']
    return [('Catalog:no-subclass-in-the-package(cls-is-Catalog-in-from_dict)', not subs,
             'no class of the package derives from Catalog, so `cls(...)` in from_dict constructs a Catalog', {'subclasses': subs} if subs else None)]


def ghost_field_is_ghost(repo) -> list[tuple]:
    """The iterator contracts use the ghost field `ghost_configured` (written only by the ASSUMED contract of
    configure_catalogs).  No real code may mention an attribute of that name."""
    hits = []
    for mi in repo.modules.values():
        for n in ast.walk(mi.tree if hasattr(mi, 'tree') else ast.Module(body=[], type_ignores=[])):
            if isinstance(n, ast.Attribute) and n.attr == 'ghost_configured':
                hits.append(f'{mi.name}:{n.lineno}')
    return [('ghost_configured:not-an-attribute-of-the-real-code', not hits, 'the ghost field of the iterator contracts does not exist in the package',
             {'mentions': hits} if hits else None)]


def configure_catalogs_not_overridden(repo) -> list[tuple]:
    """The ASSUMED contract of Expression.configure_catalogs governs every receiver only if no subclass overrides it; the
    body must hand the configuration to the central controller (`self.central_controller.set_configuration(configuration)`
    as last statement), whose contract (proved) applies every selection."""
    over = [c.name for c in repo.subclasses('Expression') if c.name != 'Expression' and 'configure_catalogs' in c.methods]
    fn = _fn(repo, 'biogeme.expressions.base_expressions', 'configure_catalogs', 'Expression')
    last = fn.body[-1] if fn is not None else None
    ok_last = (isinstance(last, ast.Expr) and ast.unparse(last.value) == 'self.central_controller.set_configuration(configuration)')
    return [('Expression.configure_catalogs:not-overridden-and-delegates-to-set_configuration', (not over) and ok_last,
             'configure_catalogs is defined once (Expression) and ends with self.central_controller.set_configuration(configuration)',
             None if (not over and ok_last) else {'overridden_in': over, 'last_statement': ast.unparse(last) if last is not None else None})]


# ---------------------------------------------------------------------------------------------------------------------
def _pure_closure(fn: ast.FunctionDef) -> list[str]:
    """Reasons why a nested function is NOT a pure function of its arguments and of the (unchanging) enclosing variables."""
    bad = []
    for n in ast.walk(fn):
        if isinstance(n, (ast.Global, ast.Nonlocal, ast.Yield, ast.YieldFrom, ast.Await, ast.Delete, ast.AugAssign)):
            bad.append(f'{type(n).__name__} at line {n.lineno}')
        if isinstance(n, (ast.Attribute, ast.Subscript)) and isinstance(n.ctx, ast.Store):
            bad.append(f'store to {ast.unparse(n)} at line {n.lineno}')
        if isinstance(n, ast.Call) and isinstance(n.func, ast.Attribute) and n.func.attr in (
                'append', 'extend', 'add', 'update', 'pop', 'remove', 'clear', 'insert', 'sort', 'setdefault'):
            bad.append(f'mutating call {ast.unparse(n.func)} at line {n.lineno}')
    return bad


def segmentation_catalogs_shape(repo) -> list[tuple]:
    """segmentation_catalogs: ONE controller for all the catalogs, and the controller's specification names and every
    catalog's member names are the SAME function of the SAME list, position by position.  Syntactic class (anything else
    fails): (1) exactly one `Controller(...)` call, outside every loop, assigned to a name C that is never re-assigned;
    its specification_names argument is a name N assigned once from `[F(x) for x in L]` (no filter); (2) exactly one
    `Catalog(...)` call; it passes controlled_by=C and named_expressions=M where M is assigned from
    `[NamedExpression(name=F(x), expression=...) for x in L]` (same F, same L, no filter); (3) F is a nested function
    without stores / mutating calls; (4) L and C are not assigned between the two comprehensions.  With the proved
    contract of Catalog.__init__ (BiogemeError unless the names agree position by position) the catalogs share C and
    follow it by name."""
    fn = _fn(repo, CAT, 'segmentation_catalogs')
    name = 'segmentation_catalogs:one-controller-names-from-the-same-function-of-the-same-list'
    if fn is None:
        return [(name, False, 'function not found', {})]
    why = []
    ctrl_calls = _calls(fn, 'Controller')
    cat_calls = _calls(fn, 'Catalog')
    assigns: dict[str, list[ast.AST]] = {}
    for n in ast.walk(fn):
        if isinstance(n, ast.Assign):
            for t in n.targets:
                if isinstance(t, ast.Name):
                    assigns.setdefault(t.id, []).append(n)
        elif isinstance(n, (ast.For, ast.comprehension)):
            for t in ast.walk(n.target):
                if isinstance(t, ast.Name):
                    assigns.setdefault(t.id, []).append(n)
    if len(ctrl_calls) != 1 or len(cat_calls) != 1:
        why.append(f'{len(ctrl_calls)} Controller(...) calls and {len(cat_calls)} Catalog(...) calls (expected 1 and 1)')
    else:
        cc, kc = ctrl_calls[0], cat_calls[0]
        if _inside_loop(fn, cc):
            why.append('the controller is created inside a loop')
        cvar = [k for k, v in assigns.items() if any(isinstance(a, ast.Assign) and a.value is cc for a in v)]
        if len(cvar) != 1 or len(assigns[cvar[0]]) != 1:
            why.append('the controller is not bound to exactly one never re-assigned name')
        else:
            cb = _kw(kc, 'controlled_by')
            if not (isinstance(cb, ast.Name) and cb.id == cvar[0]):
                why.append(f'Catalog(...) is not controlled_by={cvar[0]}')

        def comp_of(expr):
            if isinstance(expr, ast.Name) and len(assigns.get(expr.id, [])) == 1 and isinstance(assigns[expr.id][0], ast.Assign):
                expr = assigns[expr.id][0].value
            return expr if isinstance(expr, ast.ListComp) and len(expr.generators) == 1 and not expr.generators[0].ifs else None
        nc, mc = comp_of(_kw(cc, 'specification_names')), comp_of(_kw(kc, 'named_expressions'))
        if nc is None or mc is None:
            why.append('names / members are not single unfiltered list comprehensions assigned once')
        else:
            def name_fun(elt, var):
                if isinstance(elt, ast.Call) and isinstance(elt.func, ast.Name) and len(elt.args) == 1 and not elt.keywords \
                        and isinstance(elt.args[0], ast.Name) and elt.args[0].id == var:
                    return elt.func.id
                return None
            v1 = nc.generators[0].target.id if isinstance(nc.generators[0].target, ast.Name) else None
            v2 = mc.generators[0].target.id if isinstance(mc.generators[0].target, ast.Name) else None
            f1 = name_fun(nc.elt, v1)
            melt = mc.elt
            f2 = None
            if isinstance(melt, ast.Call) and isinstance(melt.func, ast.Name) and melt.func.id == 'NamedExpression':
                f2 = name_fun(_kw(melt, 'name'), v2)
            l1, l2 = ast.unparse(nc.generators[0].iter), ast.unparse(mc.generators[0].iter)
            if f1 is None or f1 != f2:
                why.append(f'controller names come from {f1}, member names from {f2}')
            if l1 != l2 or not isinstance(nc.generators[0].iter, ast.Name):
                why.append(f'controller names iterate over {l1}, member names over {l2}')
            elif len(assigns.get(l1, [])) != 1:
                why.append(f'{l1} is assigned more than once')
            if f1 is not None:
                nested = [n for n in fn.body if isinstance(n, ast.FunctionDef) and n.name == f1]
                if len(nested) != 1:
                    why.append(f'{f1} is not a nested function of segmentation_catalogs')
                else:
                    why += [f'{f1}: {b}' for b in _pure_closure(nested[0])]
    ok = not why
    return [(name, ok, 'one Controller(...) outside loops; names = [F(x) for x in L] for the controller and for every catalog '
                       '(same pure nested F, same list L); Catalog(..., controlled_by=that controller)', None if ok else {'reasons': why})]


def generic_alt_specific_shape(repo) -> list[tuple]:
    """generic_alt_specific_catalogs: ONE controller `Controller(specification_names=(lit_1, .., lit_n))` outside every
    loop, bound once to a name C; every `Catalog.from_dict(...)` passes controlled_by=C and a dict DISPLAY whose keys are
    the same string literals in the same order.  With the proved contracts of Catalog.from_dict (members in the order of
    the dict) and Catalog.__init__ the catalogs share C and follow it by name."""
    fn = _fn(repo, CAT, 'generic_alt_specific_catalogs')
    name = 'generic_alt_specific_catalogs:one-controller-literal-names-in-the-same-order'
    if fn is None:
        return [(name, False, 'function not found', {})]
    why = []
    # the controller that governs the from_dict catalogs (segmentation_catalogs(...) builds its own, separately checked)
    ctrl_calls = _calls(fn, 'Controller')
    fd_calls = _calls(fn, 'from_dict')
    if len(ctrl_calls) != 1 or not fd_calls:
        why.append(f'{len(ctrl_calls)} Controller(...) calls, {len(fd_calls)} from_dict calls')
    else:
        cc = ctrl_calls[0]
        if _inside_loop(fn, cc):
            why.append('the controller is created inside a loop')
        names = _kw(cc, 'specification_names')
        lits = [e.value for e in names.elts] if isinstance(names, (ast.Tuple, ast.List)) and all(
            isinstance(e, ast.Constant) and isinstance(e.value, str) for e in names.elts) else None
        if lits is None:
            why.append('specification_names is not a display of string literals')
        cvars = [t.id for n in ast.walk(fn) if isinstance(n, ast.Assign) and n.value is cc for t in n.targets if isinstance(t, ast.Name)]
        n_assign = sum(1 for n in ast.walk(fn) if isinstance(n, ast.Assign) for t in n.targets
                       if isinstance(t, ast.Name) and cvars and t.id == cvars[0])
        if len(cvars) != 1 or n_assign != 1:
            why.append('the controller is not bound to exactly one never re-assigned name')
        for fd in fd_calls:
            cb = _kw(fd, 'controlled_by')
            if not (cvars and isinstance(cb, ast.Name) and cb.id == cvars[0]):
                why.append(f'from_dict at line {fd.lineno} is not controlled_by the controller')
            d = _kw(fd, 'dict_of_expressions')
            keys = [k.value for k in d.keys] if isinstance(d, ast.Dict) and all(
                isinstance(k, ast.Constant) and isinstance(k.value, str) for k in d.keys) else None
            if keys is None or keys != lits:
                why.append(f'from_dict at line {fd.lineno}: dict keys {keys} are not the controller names {lits} in order')
    ok = not why
    return [(name, ok, 'one Controller with literal names; every Catalog.from_dict(dict display with the same literal keys in the '
                       'same order, controlled_by=that controller)', None if ok else {'reasons': why})]


def all_static(repo) -> list[tuple]:
    out = []
    for f in (controller_identity, catalog_has_no_subclass, ghost_field_is_ghost, configure_catalogs_not_overridden,
              segmentation_catalogs_shape, generic_alt_specific_shape):
        try:
            out += f(repo)
        except Exception as e:      # an analysis that cannot read the shape fails, it does not crash the check
            out.append((f.__name__ + ':analysis-error', False, f'{type(e).__name__}: {e}', {'error': str(e)}))
    return out
