"""C12 (round 2, agent c12c): the nest audits of biogeme.nests as bi-implications, for ALL nest structures.

    NestsForNestedLogit.check_intersection   returns (False, msg) IFF two DIFFERENT nests (all pairs a != b, not only consecutive
                                             ones) share an alternative, or a nest contains an alternative recorded as `alone`
    Nests.check_union                        returns (True, '') IFF (union of the nests) | alone == set(choice_set); also stated
                                             element by element: every alternative of the choice set is alone or in a nest, every
                                             nest alternative and every alone alternative is in the choice set
    NestsForNestedLogit.check_partition      both
    Nests.__init__ (+ the two subclasses)    BiogemeError IFF some nest alternative is outside the choice set; otherwise
                                             mev_alternatives = union of the nests, alone = choice set minus it, every nest named

MODEL: `tuple_of_nests` (a tuple of unknown length) is typed as an immutable list of nest objects (the constructors' old-syntax
branch that converts plain tuples, `cls(*the_tuple)`, is outside the typed model and stays with the bounded harness).
Sets are encoded without lambdas (pyvc/libext/c12c_sets.py, specs/c12c_nests.py).
"""
from pyvc.contract import contract, field_type

Q = 'biogeme.nests.'

field_type('OneNestForNestedLogit', 'list_of_alternatives', 'list[int]')
field_type('OneNestForNestedLogit', 'name', 'str | None')
field_type('OneNestForCrossNestedLogit', 'list_of_alternatives', 'list[int]')
field_type('OneNestForCrossNestedLogit', 'name', 'str | None')
field_type('Nests', 'choice_set', 'list[int]')
field_type('Nests', 'tuple_of_nests', 'list[OneNestForNestedLogit]')
field_type('Nests', 'alone', 'set[int]')
field_type('Nests', 'mev_alternatives', 'set[int]')

contract(Q + 'OneNestForNestedLogit.intersection', 'C12', modifies=[],
         ensures={'is_intersection': "forall(lambda x: iff(x in result, x in self.list_of_alternatives and "
                                     "x in other_nest.list_of_alternatives))"},
         replay='''
from biogeme.nests import OneNestForNestedLogit
bad = [(a, b) for a, b in (([1, 2, 3], [3, 4]), ([1, 2], [3]), ([], [1]), ([5, 5, 6], [6, 5]), ([1, 2, 3], [9, 1]))
       if OneNestForNestedLogit(1.0, a).intersection(OneNestForNestedLogit(1.0, b)) != set(a) & set(b)]
violated = bool(bad)
detail = f'pairs of lists whose intersection() is not the set intersection: {bad}'
''')

REPLAY_NESTS = '''
import warnings, logging; warnings.simplefilter('ignore'); logging.disable(logging.CRITICAL)
from biogeme.nests import OneNestForNestedLogit, OneNestForCrossNestedLogit, NestsForNestedLogit, NestsForCrossNestedLogit
from biogeme.expressions import Numeric
from biogeme.exceptions import BiogemeError
def nl(cs, lists):
    return NestsForNestedLogit(list(cs), tuple(OneNestForNestedLogit(1.5, list(l)) for l in lists))
def cnl(cs, lists):
    return NestsForCrossNestedLogit(list(cs), tuple(OneNestForCrossNestedLogit(1.5, {a: Numeric(0.5) for a in l}) for l in lists))
def share(lists, alone):
    return any(set(a) & set(alone) for a in lists) or any(set(a) & set(b) for i, a in enumerate(lists) for j, b in enumerate(lists) if i != j)
def union_ok(cs, lists, alone):
    return set().union(*[set(l) for l in lists]) | set(alone) == set(cs)
# (choice set, nests): overlaps between consecutive and NON-consecutive nests, first/last, duplicates inside one nest, empty nests
SHAPES = [([1, 2, 3, 4], [[1, 2], [3, 4]]), ([1, 2, 3, 4, 5], [[1, 2], [3, 4], [2, 5]]), ([1, 2, 3, 4, 5], [[1, 2], [3, 4], [5, 1]]),
          ([1, 2, 3], [[1, 2], [2, 3]]), ([1, 2, 3, 4, 5, 6], [[1], [2, 3], [4], [5, 6, 1]]), ([1, 2, 3, 4, 5, 6], [[1], [2, 3], [4], [5, 6, 3]]),
          ([1, 2, 3], [[1, 1, 2]]), ([1, 2, 3], [[1], [], [2]]), ([1, 2, 3], []), ([1, 2, 3, 4], [[4, 3], [2], [1]]),
          ([1, 2, 3, 4, 5, 6, 7], [[1, 2], [3], [4], [5], [6, 7, 2]]), ([7, 8, 9], [[7], [8], [9], [7]])]
'''

N = 'self.tuple_of_nests'
LST = N + '[%s].list_of_alternatives'
SHARE = f"exists(lambda p: exists(lambda q: {LST % 'A'}[p] == {LST % 'B'}[q], 0, len({LST % 'B'})), 0, len({LST % 'A'}))"
ALONE = f"exists(lambda p: {LST % 'A'}[p] in self.alone, 0, len({LST % 'A'}))"


def share(a, b):
    return SHARE.replace('A', '$1').replace('B', b).replace('$1', a)


def alone(a):
    return ALONE.replace('A', a)


FAULT = (f"exists(lambda a: {alone('a')} or exists(lambda b: a != b and {share('a', 'b')}, 0, len({N})), 0, len({N}))")
contract(Q + 'NestsForNestedLogit.check_intersection', 'C12', modifies=[],
         returns='tuple[bool, str]',
         ensures={'refused_iff_two_nests_share_an_alternative': f'c12c_verdict_is(result, not {FAULT})'},
         invariants={
             1: {'clauses': {'rows_done_clean':
                             f"forall(lambda a: not {alone('a')} and forall(lambda b: implies(a != b, not {share('a', 'b')}), 0, len({N})), 0, _k)"}},
             2: {'clauses': {'row_clean_so_far': f"forall(lambda b: implies(i != b, not {share('i', 'b')}), 0, _k)",
                             'not_alone': f"not {alone('i')}"}}},
         replay=REPLAY_NESTS + '''
wrong = []
for cs, lists in SHAPES:
    try:
        n = nl(cs, lists)
    except BiogemeError:
        continue
    for alone in (None, {lists[-1][-1]} if lists and lists[-1] else None):
        if alone is not None:
            n.alone = alone
        got = n.check_intersection()[0]
        want = not share(lists, n.alone)
        if got != want:
            wrong.append((cs, lists, sorted(n.alone), got, want))
violated = bool(wrong)
detail = f'(choice set, nests, alone, check_intersection()[0], expected): {wrong}'
''')

UNION_OK = 'c12c_set_eq(c12c_union(c12c_nest_members(self.tuple_of_nests), self.alone), c12c_members(self.choice_set))'
CS = 'self.choice_set'
COVERED = f'c12c_covered({CS}, {N}, self.alone)'
INSIDE = f'c12c_inside({CS}, {N})'
ALONE_INSIDE = f'c12c_set_inside(self.alone, {CS})'
contract(Q + 'Nests.check_union', 'C12', modifies=[], returns='tuple[bool, str]', exact_self=False,
         ensures={'accepted_iff_nests_and_alone_cover_exactly_the_choice_set': f'c12c_verdict_is(result, {UNION_OK})',
                  'accepted_implies_covered': f'implies(c12c_verdict_is(result, True), {COVERED})',
                  'accepted_implies_inside': f'implies(c12c_verdict_is(result, True), {INSIDE})',
                  'accepted_implies_alone_inside': f'implies(c12c_verdict_is(result, True), {ALONE_INSIDE})',
                  'refused_implies_fault': f'implies(c12c_verdict_is(result, False), not (({COVERED}) and ({INSIDE}) and ({ALONE_INSIDE})))',
                  },
         replay=REPLAY_NESTS + '''
wrong = []
def probe(n, what):
    lists = [list(x.list_of_alternatives) for x in n.tuple_of_nests]
    got, want = n.check_union()[0], union_ok(n.choice_set, lists, n.alone)
    if got != want:
        wrong.append((what, list(n.choice_set), lists, sorted(n.alone), got, want))
for mk in (nl, cnl):
    for cs, lists in SHAPES:
        try:
            n = mk(cs, lists)
        except BiogemeError:
            continue
        probe(n, 'as built')
        n.choice_set = list(cs) + [99]; probe(n, 'alternative 99 added to the choice set only')
        n.choice_set = list(cs)
        if n.tuple_of_nests:
            n.tuple_of_nests[0].list_of_alternatives = list(n.tuple_of_nests[0].list_of_alternatives) + [77]
            probe(n, 'alternative 77 added to the first nest only')
            n.tuple_of_nests[0].list_of_alternatives = n.tuple_of_nests[0].list_of_alternatives[:-1]
        if n.alone:
            n.alone = set(); probe(n, 'alone emptied')
        else:
            n.alone = {55}; probe(n, 'alone holds 55, which is outside the choice set')
violated = bool(wrong)
detail = f'(case, choice set, nests, alone, check_union()[0], expected): {wrong[:6]}'
''')

contract(Q + 'NestsForNestedLogit.check_partition', 'C12', modifies=[], returns='tuple[bool, str]',
         ensures={'accepted_iff_union_and_intersection_checks_pass': f'c12c_verdict_is(result, ({UNION_OK}) and not ({FAULT}))',
                  'accepted_iff_partition_elementwise':
                      f'c12c_verdict_is(result, ({COVERED}) and ({INSIDE}) and ({ALONE_INSIDE}) and not ({FAULT}))'},
         replay=REPLAY_NESTS + '''
wrong = []
for cs, lists in SHAPES:
    try:
        n = nl(cs, lists)
    except BiogemeError:
        continue
    for extra in (None, 99):
        if extra is not None:
            n.choice_set = list(cs) + [extra]
        got = n.check_partition()[0]
        want = union_ok(n.choice_set, lists, n.alone) and not share(lists, n.alone)
        if got != want:
            wrong.append((list(n.choice_set), lists, sorted(n.alone), got, want))
violated = bool(wrong)
detail = f'(choice set, nests, alone, check_partition()[0], expected): {wrong[:6]}'
''')

REPLAY_INIT = REPLAY_NESTS + '''
wrong = []
for mk in (nl, cnl):
    for cs, lists in SHAPES + [([1, 2], [[1], [2, 3]]), ([1, 2], [[1, 2], [1, 2], [4]]), ([1, 2, 3], [[9], [1, 2, 3]]), ([], [[1]])]:
        mev = set().union(*[set(l) for l in lists])
        want = 'BiogemeError' if mev - set(cs) else 'built'
        try:
            n = mk(cs, lists); got = 'built'
        except BiogemeError:
            got = 'BiogemeError'
        except Exception as e:
            got = type(e).__name__
        ok = got == want and (got != 'built' or (n.mev_alternatives == mev and n.alone == set(cs) - mev
                                                 and all(x.name is not None for x in n.tuple_of_nests)))
        if not ok:
            wrong.append((mk.__name__, cs, lists, got, want))
violated = bool(wrong)
detail = f'(kind, choice set, nests, outcome, expected): {wrong[:6]}'
'''
NT = {'choice_set': 'list[int]', 'tuple_of_nests': 'list[OneNestForNestedLogit]'}
P_MEV = 'c12c_nest_members(tuple_of_nests)'
P_CS = 'c12c_members(choice_set)'
contract(Q + 'Nests.__init__', 'C12', types=NT, exact_self=False,
         modifies=['self.choice_set', 'self.tuple_of_nests', 'self.mev_alternatives', 'self.alone', '*.name'],
         raises={'BiogemeError': 'not c12c_inside(choice_set, tuple_of_nests)'},
         ensures={'accepted_only_if_nests_within_choice_set': f'c12c_subset({P_MEV}, {P_CS})',
                  'stored': 'self.choice_set is choice_set and self.tuple_of_nests is tuple_of_nests',
                  'mev_is_union_of_nests': f'c12c_obj_is(self.mev_alternatives, {P_MEV})',
                  'alone_is_the_rest': f'c12c_obj_is(self.alone, c12c_minus({P_CS}, {P_MEV}))',
                  'every_nest_named': 'forall(lambda q: tuple_of_nests[q].name is not None, 0, len(tuple_of_nests))'},
         invariants={1: {'clauses': {'named_so_far': 'forall(lambda q: self.tuple_of_nests[q].name is not None, 0, _k)',
                                     'stored': 'self.tuple_of_nests is tuple_of_nests and self.choice_set is choice_set'}}},
         replay=REPLAY_INIT)

_INIT_ENS = {'accepted_only_if_nests_within_choice_set': f'c12c_subset({P_MEV}, {P_CS})',
             'stored': 'self.choice_set is choice_set and self.tuple_of_nests is tuple_of_nests',
             'mev_is_union_of_nests': f'c12c_obj_is(self.mev_alternatives, {P_MEV})',
             'alone_is_the_rest': f'c12c_obj_is(self.alone, c12c_minus({P_CS}, {P_MEV}))'}
for _cls, _one in (('NestsForNestedLogit', 'OneNestForNestedLogit'), ('NestsForCrossNestedLogit', 'OneNestForCrossNestedLogit')):
    contract(Q + _cls + '.__init__', 'C12', types={'choice_set': 'list[int]', 'tuple_of_nests': f'list[{_one}]'},
             modifies=['self.choice_set', 'self.tuple_of_nests', 'self.mev_alternatives', 'self.alone', '*.name'],
             raises={'BiogemeError': 'not c12c_inside(choice_set, tuple_of_nests)'},
             ensures=_INIT_ENS, replay=REPLAY_INIT)
