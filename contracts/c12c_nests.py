"""C12 (round 2, agent c12c): the nest audits of biogeme.nests as bi-implications (draft)."""
from pyvc.contract import contract, field_type

Q = 'biogeme.nests.'

field_type('OneNestForNestedLogit', 'list_of_alternatives', 'list[int]')
field_type('OneNestForNestedLogit', 'name', 'str | None')
field_type('OneNestForCrossNestedLogit', 'list_of_alternatives', 'list[int]')
field_type('OneNestForCrossNestedLogit', 'name', 'str | None')
field_type('Nests', 'choice_set', 'list[int]')
field_type('Nests', 'tuple_of_nests', 'list[OneNestForNestedLogit]')
field_type('Nests', 'alone', 'set[int]')
field_type('Nests', 'mev_alternatives', 'set[int]')

contract(Q + 'OneNestForNestedLogit.intersection', 'C12', modifies=[],
         ensures={'is_intersection': "forall(lambda x: iff(x in result, x in self.list_of_alternatives and "
                                     "x in other_nest.list_of_alternatives))"})

N = 'self.tuple_of_nests'
LST = N + '[%s].list_of_alternatives'
SHARE = f"exists(lambda p: exists(lambda q: {LST % 'A'}[p] == {LST % 'B'}[q], 0, len({LST % 'B'})), 0, len({LST % 'A'}))"
ALONE = f"exists(lambda p: {LST % 'A'}[p] in self.alone, 0, len({LST % 'A'}))"


def share(a, b):
    return SHARE.replace('A', '$1').replace('B', b).replace('$1', a)


def alone(a):
    return ALONE.replace('A', a)


FAULT = (f"exists(lambda a: {alone('a')} or exists(lambda b: a != b and {share('a', 'b')}, 0, len({N})), 0, len({N}))")
contract(Q + 'NestsForNestedLogit.check_intersection', 'C12', modifies=[],
         returns='tuple[bool, str]',
         ensures={'refused_iff_two_nests_share_an_alternative': f'result[0] == (not {FAULT})'},
         invariants={
             1: {'clauses': {'rows_done_clean':
                             f"forall(lambda a: not {alone('a')} and forall(lambda b: implies(a != b, not {share('a', 'b')}), 0, len({N})), 0, _k)"}},
             2: {'clauses': {'row_clean_so_far': f"forall(lambda b: implies(i != b, not {share('i', 'b')}), 0, _k)",
                             'not_alone': f"not {alone('i')}"}}})

UNION_OK = 'c12c_set_eq(c12c_union(c12c_nest_members(self.tuple_of_nests), self.alone), c12c_members(self.choice_set))'
CS = 'self.choice_set'
COVERED = f'c12c_covered({CS}, {N}, self.alone)'
INSIDE = f'c12c_inside({CS}, {N})'
ALONE_INSIDE = f'c12c_set_inside(self.alone, {CS})'
contract(Q + 'Nests.check_union', 'C12', modifies=[], returns='tuple[bool, str]', exact_self=False,
         ensures={'accepted_iff_nests_and_alone_cover_exactly_the_choice_set': f'result[0] == {UNION_OK}',
                  'accepted_implies_covered': f'implies(result[0], {COVERED})',
                  'accepted_implies_inside': f'implies(result[0], {INSIDE})',
                  'accepted_implies_alone_inside': f'implies(result[0], {ALONE_INSIDE})',
                  'refused_implies_fault': f'implies(not result[0], not (({COVERED}) and ({INSIDE}) and ({ALONE_INSIDE})))',
                  })

contract(Q + 'NestsForNestedLogit.check_partition', 'C12', modifies=[], returns='tuple[bool, str]',
         ensures={'accepted_iff_union_and_intersection_checks_pass': f'result[0] == (({UNION_OK}) and not ({FAULT}))',
                  'accepted_iff_partition_elementwise':
                      f'result[0] == (({COVERED}) and ({INSIDE}) and ({ALONE_INSIDE}) and not ({FAULT}))'})

NT = {'choice_set': 'list[int]', 'tuple_of_nests': 'list[OneNestForNestedLogit]'}
P_MEV = 'c12c_nest_members(tuple_of_nests)'
P_CS = 'c12c_members(choice_set)'
contract(Q + 'Nests.__init__', 'C12', types=NT, exact_self=False,
         modifies=['self.choice_set', 'self.tuple_of_nests', 'self.mev_alternatives', 'self.alone', '*.name'],
         raises={'BiogemeError': 'not c12c_inside(choice_set, tuple_of_nests)'},
         ensures={'accepted_only_if_nests_within_choice_set': f'c12c_subset({P_MEV}, {P_CS})',
                  'stored': 'self.choice_set is choice_set and self.tuple_of_nests is tuple_of_nests',
                  'mev_is_union_of_nests': f'c12c_obj_is(self.mev_alternatives, {P_MEV})',
                  'alone_is_the_rest': f'c12c_obj_is(self.alone, c12c_minus({P_CS}, {P_MEV}))',
                  'every_nest_named': 'forall(lambda q: tuple_of_nests[q].name is not None, 0, len(tuple_of_nests))'},
         invariants={1: {'clauses': {'named_so_far': 'forall(lambda q: self.tuple_of_nests[q].name is not None, 0, _k)',
                                     'stored': 'self.tuple_of_nests is tuple_of_nests and self.choice_set is choice_set'}}})

_INIT_ENS = {'accepted_only_if_nests_within_choice_set': f'c12c_subset({P_MEV}, {P_CS})',
             'stored': 'self.choice_set is choice_set and self.tuple_of_nests is tuple_of_nests',
             'mev_is_union_of_nests': f'c12c_obj_is(self.mev_alternatives, {P_MEV})',
             'alone_is_the_rest': f'c12c_obj_is(self.alone, c12c_minus({P_CS}, {P_MEV}))'}
for _cls, _one in (('NestsForNestedLogit', 'OneNestForNestedLogit'), ('NestsForCrossNestedLogit', 'OneNestForCrossNestedLogit')):
    contract(Q + _cls + '.__init__', 'C12', types={'choice_set': 'list[int]', 'tuple_of_nests': f'list[{_one}]'},
             modifies=['self.choice_set', 'self.tuple_of_nests', 'self.mev_alternatives', 'self.alone', '*.name'],
             raises={'BiogemeError': 'not c12c_inside(choice_set, tuple_of_nests)'},
             ensures=_INIT_ENS)

field_type('OneNestForCrossNestedLogit', 'dict_of_alpha', 'dict[int, Expression]')
field_type('NestsForCrossNestedLogit', 'tuple_of_nests', 'list[OneNestForCrossNestedLogit]')
contract('biogeme.expressions.base_expressions.Expression.get_value', 'C12', verify=False, pure=True, returns='float',
         ensures={'t': 'True'}, label='Expression.get_value(abstract)',
         note='value of a constant sub-formula (deterministic, no side effect); used by the cross-nested validity check only to word a message')
contract(Q + 'NestsForCrossNestedLogit.check_validity', 'C12', modifies=[], returns='tuple[bool, str]', may_raise=['KeyError'],
         ensures={'accepted_iff_union_check_passes': f'result[0] == {UNION_OK}'})
