"""Contracts for the threshold handling of the piecewise builders (C17)."""
from pyvc.contract import contract

Q = 'biogeme.models.piecewise.'

contract(Q + 'piecewise_variables', 'C17',
         types={'variable': 'str', 'thresholds': 'list[float | None]'},
         raises={'BiogemeError': "len(thresholds) == 0 or forall(lambda q: thresholds[q] is None, 0, len(thresholds)) "
                                 "or exists(lambda q: thresholds[q] is None, 1, len(thresholds) - 1)"},
         ensures={'one_variable_per_interval': "len(result) == len(thresholds) - 1"})

# Assumed: the tree constructors build a fresh node and touch nothing else (their values are decided natively by the
# bounded stand-ins bounded/c17_piecewise.py); only the threshold handling of the builder is under proof here.
E = 'biogeme.expressions.'
for _q in (E + 'binary_expressions.bioMin.__init__', E + 'binary_expressions.bioMax.__init__',
           E + 'numeric_expressions.Numeric.__init__', E + 'elementary_expressions.Variable.__init__'):
    contract(_q, 'C17', verify=False, modifies=[], ensures={'t': 'True'},
             note='assumed: constructor of an expression node (fresh object, no other effect)')
contract(E + 'base_expressions.Expression.__sub__', 'C17', verify=False, pure=True, returns='Expression', ensures={'t': 'True'},
         note='assumed: operator builds a fresh Minus node')
