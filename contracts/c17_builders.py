"""Contracts for the threshold handling of the piecewise builders (C17)."""
from pyvc.contract import contract

Q = 'biogeme.models.piecewise.'

_REPLAY_VARIABLES = """
from biogeme.models.piecewise import piecewise_variables
violated = False
cands = []
mt = m.get('thresholds[]')
if isinstance(mt, list) and len(mt) >= 2:
    cands.append([None if v is None else float(v) for v in mt])
cands += [[1.0, 2.0], [2.0, None], [None, 5.0], [1.0, 2.0, 4.0], [None, 1.0, None], [0.0, 1.0, 2.0], [0, 2.0], [-1.0, 0.0, 3.0]]
violated = False
for t in cands:
    if all(v is None for v in t) or None in t[1:-1]:
        continue
    try:
        got = piecewise_variables('x', list(t))
    except Exception as e:
        violated = True
        detail = f'piecewise_variables("x", {t}) raised {type(e).__name__}: {e}'
        break
    if len(got) != len(t) - 1:
        violated = True
        detail = f'piecewise_variables("x", {t}) returned {len(got)} variables for {len(t) - 1} interval(s): {[str(g) for g in got]}'
        break
    kind = type(got[0]).__name__
    if (kind == 'bioMin') != (t[0] is None) or (kind == 'bioMax') != (t[0] is not None):
        violated = True
        detail = f'piecewise_variables("x", {t}): first variable is {got[0]} ({kind}); min(x, t1) is documented for an open lower end only'
        break
"""

_WELL_FORMED = ("len(thresholds) >= 2 and not (thresholds[0] is None and thresholds[len(thresholds) - 1] is None and len(thresholds) == 2) "
                "and forall(lambda q: thresholds[q] is not None, 1, len(thresholds) - 1)")

contract(Q + 'piecewise_variables', 'C17',
         types={'variable': 'str', 'thresholds': 'list[float | None]'},
         requires={'well_formed': _WELL_FORMED},
         # the loop re-binds the local list (`results += [...]`), so the loop rule havocs the container fields of every
         # list and the frame obligation cannot be generated from the loop rule; the frame (no pre-existing list is
         # mutated) is decided instead by the static obligation C17:static:piecewise_variables:mutates-only-own-list
         # (contracts/c17_obligations.py); the thresholds facts needed after the loop are carried by the invariant
         modifies=[], check_frame=False,
         ensures={'one_variable_per_interval': "len(result) == len(thresholds) - 1",
                  'thresholds_length_kept': "len(thresholds) == old(len(thresholds))",
                  # shape of the first variable: min(x, t1) only for an OPEN lower end (a closed lower end at 0 is clipped at 0)
                  'first_variable_kind': "iff(isinstance(typed(result[0], 'Expression'), bioMin), thresholds[0] is None) "
                                         "and iff(isinstance(typed(result[0], 'Expression'), bioMax), thresholds[0] is not None)"},
         invariants={1: {'clauses': {
             'count': "len(results) == 1 + _k",
             'own_list': "results is not thresholds and c17_allocated(results)",
             'first_kept': "iff(isinstance(typed(results[0], 'Expression'), bioMin), thresholds[0] is None) and iff(isinstance(typed(results[0], 'Expression'), bioMax), thresholds[0] is not None)",
             'thresholds_kept': "len(thresholds) == eye and forall(lambda q: thresholds[q] is not None, 1, len(thresholds) - 1) "
                                "and (thresholds[0] is None) == old(thresholds[0] is None) "
                                "and (thresholds[len(thresholds) - 1] is None) == old(thresholds[len(thresholds) - 1] is None)"}}},
         replay=_REPLAY_VARIABLES)

# Assumed: the tree constructors build a fresh node and touch nothing else (their values are decided natively by the
# bounded stand-ins bounded/c17_piecewise.py); only the threshold handling of the builder is under proof here.
E = 'biogeme.expressions.'
for _q in (E + 'binary_expressions.bioMin.__init__', E + 'binary_expressions.bioMax.__init__',
           E + 'numeric_expressions.Numeric.__init__', E + 'elementary_expressions.Variable.__init__'):
    contract(_q, 'C17', verify=False, modifies=[], ensures={'t': 'True'},
             note='assumed: constructor of an expression node (fresh object, no other effect)')
contract(E + 'base_expressions.Expression.__sub__', 'C17', verify=False, pure=True, returns='Expression', ensures={'t': 'True'},
         note='assumed: operator builds a fresh Minus node')

for _q in (E + 'beta_parameters.Beta.__init__', E + 'nary_expressions.bioMultSum.__init__'):
    contract(_q, 'C17', verify=False, modifies=[], ensures={'t': 'True'},
             note='assumed: constructor of an expression node (fresh object, no other effect)')
for _m in ('__mul__', '__rmul__', '__add__'):
    contract(E + f'base_expressions.Expression.{_m}', 'C17', verify=False, pure=True, returns='Expression', ensures={'t': 'True'},
             note='assumed: operator builds a fresh node')

contract(Q + 'piecewise_formula', 'C17',
         types={'variable': 'str', 'thresholds': 'list[float | None]', 'betas': 'list[Expression]'},
         requires={'well_formed': _WELL_FORMED},
         raises={'BiogemeError': "len(betas) != len(thresholds) - 1"},
         modifies=[],
         ensures={'t': 'True'})

contract(Q + 'piecewise_as_variable', 'C17',
         types={'variable': 'str', 'thresholds': 'list[float | None]', 'betas': 'list[Expression]'},
         requires={'well_formed': _WELL_FORMED, 'at_least_two_intervals': "len(thresholds) >= 3"},
         raises={'BiogemeError': "len(betas) != len(thresholds) - 2"},
         modifies=[],
         ensures={'t': 'True'})
