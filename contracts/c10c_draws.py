"""C10 (round 2, tag c10c): the draws table and its hand-over.

Database.generate_draws        position k of the third axis <-> names[k]; each name gets the generator registered for ITS
                               type (native table first, then the user's generators); shape; BiogemeError iff unknown type
                               or wrongly shaped series.
IdManager.draw_types           name -> declared type of the draw variable of that name.
BIOGEME._generate_draws        hands over the id manager's sorted draw names, the declared types and the requested number.
bioDraws / RandomVariable .set_id_manager    the id of a named element is its position in the id manager's name list.
(expressions_names_indices, bioDraws/RandomVariable.get_signature are proved in contracts/c03_idmanager.py and
 contracts/c01_signatures.py; they are re-discharged under C10.)

ASSUMED (pyvc/libext/c10c_numpy.py, sample-tested by bounded/c10c_numpy_axioms.py): A-NDARRAY-C10 A1-A3, A-NATIVE-TABLE;
A-CALLABLE (core): a stored generator is a deterministic function of (generator object, sample size, number of draws).
"""
import contracts.c01_signatures      # noqa: F401  (bioDraws.get_signature, RandomVariable.get_signature, Integrate/Derive)
import contracts.c03_idmanager       # noqa: F401  (expressions_names_indices + field types of IdManager / ElementsTuple)
from pyvc.contract import REGISTRY, contract, field_type
from pyvc.libext import c10c_numpy

c10c_numpy.install()

D = 'biogeme.database.Database.'
field_type('Database', 'typesOfDraws', 'dict[str, str]')
field_type('Database', 'userRandomNumberGenerators', 'dict[str, RandomNumberGeneratorTuple]')
field_type('Database', 'theDraws', 'Any')
field_type('Database', 'number_of_draws', 'int')

N = 'self.get_sample_size()'

# the sample size as a FUNCTION of the database object and the fields it reads (same statement as contracts/c09_panel.py,
# which proves it under C09; here additionally `pure`, so that every mention in a specification is one and the same term)
field_type('Database', 'panelColumn', 'str | None')
field_type('Database', 'individualMap', 'DataFrame')
field_type('Database', 'data', 'DataFrame')
contract(D + 'get_sample_size', 'C10', self_class='Database', label='Database.get_sample_size', pure=True,
         reads=['panelColumn', 'individualMap', 'data'], returns='int', modifies=[],
         ensures={'individuals_if_panel': "result == ite(self.panelColumn is not None, app('df_nrows', self.individualMap), app('df_nrows', self.data))"})


def gen_of(t, db='self'):
    """the generator record registered for type t: native table first, then the user's"""
    nat = f'c10c_native_table().get({t})'
    return f'ite({nat} is not None, {nat}, {db}.userRandomNumberGenerators.get({t}))'


def series_of(t, db='self', r='number_of_draws'):
    return f"typed({gen_of(t, db)}, 'RandomNumberGeneratorTuple').generator({db}.get_sample_size(), {r})"


def own_object(db, *others):
    """Database.typesOfDraws is an object of its own: not the user's generator dictionary, not the native table, not `others`"""
    t = f"c10c_raw({db}, 'typesOfDraws')"
    return ' and '.join(f'{t} is not {o}' for o in (f"c10c_raw({db}, 'userRandomNumberGenerators')", 'c10c_native_ref()') + others)


def reserved(db):
    """invariant of Database established by set_random_number_generators (proved below): no user-defined type uses a native name,
    so a declared type is registered in at most one of the two tables"""
    return (f"forall(lambda x: not (c10c_in(x, c10c_native_ref()) and c10c_in(x, c10c_raw({db}, 'userRandomNumberGenerators'))), ty='str')")


TYPE_Q = 'draw_types[names[q]]'
BAD_Q = f'({gen_of(TYPE_Q)} is None or not same({series_of(TYPE_Q)}.shape, ({N}, number_of_draws)))'

REPLAY_GENERATE = r'''
import warnings; warnings.simplefilter('ignore')
import numpy as np, pandas as pd
from biogeme.database import Database
from biogeme.native_draws import RandomNumberGeneratorTuple
bad = []
def coded(c):
    return lambda n, r: np.array([[1000.0 * c + 10 * i + j for j in range(r)] for i in range(n)])
for nrows, R in ((3, 2), (1, 1), (4, 5)):
    db = Database('d', pd.DataFrame({'x': np.arange(float(nrows))}))
    db.set_random_number_generators({f'T{c}': RandomNumberGeneratorTuple(coded(c), f'coded {c}') for c in range(1, 5)})
    for types, names in (({'zz': 'T1', 'aa': 'T2', 'mm': 'T3'}, ['aa', 'mm', 'zz']),
                         ({'b': 'T4', 'a': 'T4', 'c': 'T1'}, ['a', 'b', 'c']),
                         ({'only': 'T2'}, ['only']),
                         ({'q': 'T3', 'p': 'T1'}, ['q', 'p'])):
        t = db.generate_draws(types, names, R)
        if t.shape != (nrows, R, len(names)):
            bad.append(('shape', names, t.shape)); continue
        for k, nm in enumerate(names):
            c = int(types[nm][1:])
            if not np.array_equal(t[:, :, k], coded(c)(nrows, R)):
                bad.append(('column', names, k, nm, types[nm], t[:, :, k].tolist()))
        if t is not db.theDraws or db.number_of_draws != R or any(db.typesOfDraws[n] != types[n] for n in names):
            bad.append(('recorded', names))
    np.random.seed(3); u = db.generate_draws({'u': 'UNIFORM', 'n': 'T1'}, ['n', 'u'], R)
    np.random.seed(3); from biogeme.native_draws import native_random_number_generators as NT
    ref = NT['UNIFORM'].generator(nrows, R)
    if not (np.array_equal(u[:, :, 1], ref) and np.array_equal(u[:, :, 0], coded(1)(nrows, R))):
        bad.append(('native+user', u.tolist()))
    for types, names in (({'a': 'NOPE'}, ['a']), ({'a': 'T1', 'b': 'nope'}, ['a', 'b'])):
        try:
            db.generate_draws(types, names, R); bad.append(('no error for unknown type', types))
        except Exception as e:
            if type(e).__name__ != 'BiogemeError': bad.append(('wrong exception', type(e).__name__))
violated = bool(bad)
detail = f'generate_draws on coded generators: {bad[:3]}'
'''

contract(D + 'generate_draws', 'C10', self_class='Database', label='Database.generate_draws',
         types={'draw_types': 'dict[str, str]', 'names': 'list[str]', 'number_of_draws': 'int'},
         returns='Any',
         requires={'names_typed': 'forall(lambda q: names[q] in draw_types, 0, len(names))',
                   'types_record_is_its_own_object': own_object('self', 'draw_types', 'names'),
                   'reserved_names_respected': reserved('self')},
         raises={'BiogemeError': f'exists(lambda q: {BAD_Q}, 0, len(names))'},
         modifies=['self.number_of_draws', 'self.theDraws', 'dict(self.typesOfDraws)'],
         invariants={1: {'clauses': {
             'len': 'len(list_of_draws) == len(names)',
             'known': f'forall(lambda q: not {BAD_Q}, 0, _k)',
             'filled': f'forall(lambda q: same(list_of_draws[q], {series_of(TYPE_Q)}), 0, _k)',
             'types': 'forall(lambda q: names[q] in self.typesOfDraws and self.typesOfDraws[names[q]] == old(draw_types[names[q]]), 0, _k)',
         }}},
         ensures={
             'shape': f'implies(len(names) >= 1, same(result.shape, ({N}, number_of_draws, len(names))))',
             'column_k_is_series_of_names_k':
                 f'forall(lambda q: forall(lambda i: forall(lambda j: same(result[i, j, q], {series_of("old(draw_types[names[q]])")}[i, j]), '
                 f'0, number_of_draws), 0, {N}), 0, len(names))',
             'stored': 'same(self.theDraws, result)',
             'number_recorded': 'self.number_of_draws == number_of_draws',
             'types_recorded': 'forall(lambda q: names[q] in self.typesOfDraws and self.typesOfDraws[names[q]] == old(draw_types[names[q]]), 0, len(names))',
         },
         replay=REPLAY_GENERATE,
         note='the third axis of the draws table follows `names`; every name gets the series of the generator of its own type')


# ------------------------------------------------------------------------------------------------------------------
# user-defined generators never take a native (reserved) name
contract('biogeme.native_draws.convert_random_generator_tuple', 'C10', verify=False, pure=True, returns='RandomNumberGeneratorTuple',
         ensures={'t': 'True'},
         note='ASSUMED: conversion of one user record (a RandomNumberGeneratorTuple or a (function, description) tuple) to a '
              'RandomNumberGeneratorTuple: deterministic, effect free; its TypeError for other values is not modelled')
contract(D + 'set_random_number_generators', 'C10', types={'rng': 'dict[str, Any]'},
         raises={'ValueError': "exists(lambda x: x in c10c_native_table() and x in rng, ty='str')"},
         modifies=['self.userRandomNumberGenerators'],
         invariants={1: {'clauses': {'none_so_far': 'forall(lambda q: keys_of(c10c_native_table())[q] not in rng, 0, _k)'}}},
         ensures={'same_names': "forall(lambda x: (x in self.userRandomNumberGenerators) == (x in rng), ty='str')",
                  'reserved_names_respected': "forall(lambda x: not (x in c10c_native_table() and x in self.userRandomNumberGenerators), ty='str')",
                  'new_object': 'c10c_new_object(self.userRandomNumberGenerators)'},
         replay=r"""
import warnings; warnings.simplefilter('ignore')
import numpy as np, pandas as pd
from biogeme.database import Database
from biogeme.native_draws import RandomNumberGeneratorTuple, native_random_number_generators as NT
g = RandomNumberGeneratorTuple(lambda n, r: np.zeros((n, r)), 'zeros')
bad = []
for key in list(NT)[:21]:
    db = Database('d', pd.DataFrame({'x': [1.0]}))
    try:
        db.set_random_number_generators({'MINE': g, key: g}); bad.append(('accepted reserved name', key))
    except ValueError:
        pass
    if set(db.userRandomNumberGenerators) & set(NT): bad.append(('stored reserved name', key))
db = Database('d', pd.DataFrame({'x': [1.0]}))
db.set_random_number_generators({'MINE': g, 'OLD': (lambda n, r: np.ones((n, r)), 'ones')})
if set(db.userRandomNumberGenerators) != {'MINE', 'OLD'}: bad.append(('names', list(db.userRandomNumberGenerators)))
violated = bool(bad)
detail = f'set_random_number_generators: {bad[:3]}'
""")

# ------------------------------------------------------------------------------------------------------------------
# IdManager.draw_types: name -> declared type
Q = 'biogeme.expressions.idmanager.'
field_type('bioDraws', 'drawType', 'str')
field_type('IdManager', 'requires_draws', 'bool')
field_type('IdManager', 'number_of_draws', 'int')
DRAWS_OK = 'self.draws is not None and self.draws.expressions is not None and c10c_is_dict(self.draws.expressions)'

contract(Q + 'IdManager.draw_types', 'C10', returns='dict[str, str]',
         requires={'draws_numbered': DRAWS_OK},
         modifies=[],
         ensures={'domain': "forall(lambda x: (x in result) == (x in self.draws.expressions), ty='str')",
                  'declared_type_of_name': "forall(lambda x: implies(x in self.draws.expressions, "
                                           "same(result[x], typed(self.draws.expressions[x], 'bioDraws').drawType)), ty='str')",
                  'new_object': 'c10c_new_object(result)'},
         replay=r"""
import warnings; warnings.simplefilter('ignore')
import pandas as pd
from biogeme.database import Database
from biogeme.expressions import bioDraws, MonteCarlo
from biogeme.expressions.idmanager import IdManager
db = Database('d', pd.DataFrame({'x': [1.0, 2.0]}))
f = MonteCarlo(bioDraws('zz', 'NORMAL') * bioDraws('aa', 'UNIFORM') + bioDraws('mm', 'UNIFORMSYM'))
im = IdManager([f], db, 2)
got = im.draw_types()
violated = got != {'zz': 'NORMAL', 'aa': 'UNIFORM', 'mm': 'UNIFORMSYM'} or im.draws.names != ['aa', 'mm', 'zz']
detail = f'draw_types() = {got}, names = {im.draws.names}'
""")

# ------------------------------------------------------------------------------------------------------------------
# BIOGEME._generate_draws: what is handed to the database
field_type('BIOGEME', 'database', 'Database')
field_type('BIOGEME', 'id_manager', 'IdManager')
field_type('BIOGEME', 'monte_carlo', 'bool')
IM = 'self.id_manager'
DB = 'self.database'
TYPE_OF_NAME_Q = f"typed({IM}.draws.expressions[{IM}.draws.names[q]], 'bioDraws').drawType"
BAD_B = (f'({gen_of(TYPE_OF_NAME_Q, DB)} is None or '
         f'not same({series_of(TYPE_OF_NAME_Q, DB)}.shape, ({DB}.get_sample_size(), number_of_draws)))')

contract('biogeme.biogeme.BIOGEME._generate_draws', 'C10', types={'number_of_draws': 'int'},
         requires={
             'id_manager_prepared': f'{IM}.draws is not None and {IM}.draws.expressions is not None and c10c_is_dict({IM}.draws.expressions)',
             # invariant of ElementsTuple (post of expressions_names_indices, proved): every listed name is a key
             'draw_names_are_keys': f'forall(lambda q: {IM}.draws.names[q] in {IM}.draws.expressions, 0, len({IM}.draws.names))',
             # invariant of Database: the record of types is an object of its own
             'types_record_is_its_own_object': own_object(DB, f'{IM}.draws.names', f"c10c_raw({IM}.draws, 'expressions')"),
             'reserved_names_respected': reserved(DB)},
         raises={'BiogemeError': f'{IM}.requires_draws and exists(lambda q: {BAD_B}, 0, len({IM}.draws.names))'},
         modifies=['self.monte_carlo', f'{DB}.number_of_draws', f'{DB}.theDraws', f'dict({DB}.typesOfDraws)'],
         ensures={
             'flag': f'self.monte_carlo == {IM}.requires_draws',
             'requested_number': f'implies({IM}.requires_draws, {DB}.number_of_draws == number_of_draws)',
             'shape': f'implies({IM}.requires_draws and len({IM}.draws.names) >= 1, '
                      f'same({DB}.theDraws.shape, ({DB}.get_sample_size(), number_of_draws, len({IM}.draws.names))))',
             'column_k_is_series_of_kth_sorted_name':
                 f'implies({IM}.requires_draws, forall(lambda q: forall(lambda i: forall(lambda j: '
                 f'same({DB}.theDraws[i, j, q], {series_of(TYPE_OF_NAME_Q, DB)}[i, j]), 0, number_of_draws), 0, {DB}.get_sample_size()), '
                 f'0, len({IM}.draws.names)))',
             'untouched_without_draws': f'implies(not {IM}.requires_draws, same({DB}.theDraws, old({DB}.theDraws)))',
         },
         note='the names handed over are the id manager\'s (sorted) draw names, in id order; types are the declared ones')

# ------------------------------------------------------------------------------------------------------------------
# the id used in the signature of a draw / random variable is the position of its name in the id manager's list
E = 'biogeme.expressions.elementary_expressions.'
field_type('Elementary', 'name', 'str')
for cls, table, idf in (('bioDraws', 'draws', 'drawId'), ('RandomVariable', 'random_variables', 'rvId')):
    TB = f'id_manager.{table}'
    contract(E + f'{cls}.set_id_manager', 'C10', types={'id_manager': 'IdManager | None'},
             requires={
                 'numbered': f'implies(id_manager is not None, id_manager.elementary_expressions is not None and '
                             f'id_manager.elementary_expressions.indices is not None and self.name in id_manager.elementary_expressions.indices and '
                             f'{TB} is not None and {TB}.indices is not None and self.name in {TB}.indices)',
                 # post of expressions_names_indices (proved): indices[names[q]] == q
                 'index_of_name': f'implies(id_manager is not None, forall(lambda q: {TB}.indices[{TB}.names[q]] == q, 0, len({TB}.names)))'},
             modifies=['self.id_manager', 'self.elementaryIndex', f'self.{idf}'],
             ensures={
                 'reset': f'implies(id_manager is None, self.{idf} is None and self.elementaryIndex is None)',
                 'manager_kept': 'same(self.id_manager, id_manager)',
                 'own_table_index_by_name': f'implies(id_manager is not None, same(self.{idf}, {TB}.indices[self.name]))',
                 'unique_index_by_name': 'implies(id_manager is not None, same(self.elementaryIndex, id_manager.elementary_expressions.indices[self.name]))',
                 'id_is_position_in_names': f'implies(id_manager is not None, forall(lambda q: implies({TB}.names[q] == self.name, self.{idf} == q), '
                                            f'0, len({TB}.names)))'},
             replay=f"""
import warnings; warnings.simplefilter('ignore')
import pandas as pd
from biogeme.database import Database
from biogeme.expressions import bioDraws, MonteCarlo, RandomVariable, Integrate, exp
from biogeme.expressions.idmanager import IdManager
db = Database('d', pd.DataFrame({{'x': [1.0, 2.0]}}))
f = MonteCarlo(bioDraws('zz', 'NORMAL') * bioDraws('aa', 'UNIFORM') + bioDraws('mm', 'UNIFORMSYM')) + \\
    Integrate(Integrate(exp(-RandomVariable('w') * RandomVariable('w') - RandomVariable('c') * RandomVariable('c')), 'w'), 'c')
im = IdManager([f], db, 2)
f.set_id_manager(im)
bad = []
for e in f.get_elementary_expressions() if hasattr(f, 'get_elementary_expressions') else []:
    pass
names = im.{table}.names
todo = [f]
while todo:
    e = todo.pop(); todo.extend(e.get_children())
    if type(e).__name__ == '{cls}' and names.index(e.name) != e.{idf}:
        bad.append((e.name, e.{idf}, names))
violated = bool(bad) or names != sorted(names)
detail = f'{cls} ids vs positions in {{names}}: {{bad}}'
""")

# proved elsewhere, re-discharged under C10 (same contracts, no redefinition)
for key in (Q + 'expressions_names_indices', E + 'bioDraws.get_signature', E + 'RandomVariable.get_signature'):
    con = REGISTRY.contracts[key]
    if 'C10' not in con.props:
        con.props.append('C10')
