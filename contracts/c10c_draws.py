"""C10 (round 2, tag c10c): the draws table and its hand-over.

Database.generate_draws        position k of the third axis <-> names[k]; each name gets the generator registered for ITS
                               type (native table first, then the user's generators); shape; BiogemeError iff unknown type
                               or wrongly shaped series.
IdManager.draw_types           name -> declared type of the draw variable of that name.
BIOGEME._generate_draws        hands over the id manager's sorted draw names, the declared types and the requested number.
bioDraws / RandomVariable .set_id_manager    the id of a named element is its position in the id manager's name list.
(expressions_names_indices, bioDraws/RandomVariable.get_signature are proved in contracts/c03_idmanager.py and
 contracts/c01_signatures.py; they are re-discharged under C10.)

ASSUMED (pyvc/libext/c10c_numpy.py, sample-tested by bounded/c10c_numpy_axioms.py): A-NDARRAY-C10 A1-A3, A-NATIVE-TABLE;
A-CALLABLE (core): a stored generator is a deterministic function of (generator object, sample size, number of draws).
"""
import contracts.c01_signatures      # noqa: F401  (bioDraws.get_signature, RandomVariable.get_signature, Integrate/Derive)
import contracts.c03_idmanager       # noqa: F401  (expressions_names_indices + field types of IdManager / ElementsTuple)
import contracts.c09_panel           # noqa: F401  (Database.get_sample_size, is_panel)
from pyvc.contract import REGISTRY, contract, field_type
from pyvc.libext import c10c_numpy

c10c_numpy.install()

D = 'biogeme.database.Database.'
field_type('Database', 'typesOfDraws', 'dict[str, str]')
field_type('Database', 'userRandomNumberGenerators', 'dict[str, RandomNumberGeneratorTuple]')
field_type('Database', 'theDraws', 'Any')
field_type('Database', 'number_of_draws', 'int')

N = 'self.get_sample_size()'


def gen_of(t):
    """the generator record registered for type t: native table first, then the user's"""
    nat = f'c10c_native_table().get({t})'
    return f'ite({nat} is not None, {nat}, self.userRandomNumberGenerators.get({t}))'


def series_of(t, n=N, r='number_of_draws'):
    return f"typed({gen_of(t)}, 'RandomNumberGeneratorTuple').generator({n}, {r})"


TYPE_Q = 'draw_types[names[q]]'
BAD_Q = f'({gen_of(TYPE_Q)} is None or not same({series_of(TYPE_Q)}.shape, ({N}, number_of_draws)))'

REPLAY_GENERATE = r'''
import warnings; warnings.simplefilter('ignore')
import numpy as np, pandas as pd
from biogeme.database import Database
from biogeme.native_draws import RandomNumberGeneratorTuple
bad = []
def coded(c):
    return lambda n, r: np.array([[1000.0 * c + 10 * i + j for j in range(r)] for i in range(n)])
for nrows, R in ((3, 2), (1, 1), (4, 5)):
    db = Database('d', pd.DataFrame({'x': np.arange(float(nrows))}))
    db.set_random_number_generators({f'T{c}': RandomNumberGeneratorTuple(coded(c), f'coded {c}') for c in range(1, 5)})
    for types, names in (({'zz': 'T1', 'aa': 'T2', 'mm': 'T3'}, ['aa', 'mm', 'zz']),
                         ({'b': 'T4', 'a': 'T4', 'c': 'T1'}, ['a', 'b', 'c']),
                         ({'only': 'T2'}, ['only']),
                         ({'q': 'T3', 'p': 'T1'}, ['q', 'p'])):
        t = db.generate_draws(types, names, R)
        if t.shape != (nrows, R, len(names)):
            bad.append(('shape', names, t.shape)); continue
        for k, nm in enumerate(names):
            c = int(types[nm][1:])
            if not np.array_equal(t[:, :, k], coded(c)(nrows, R)):
                bad.append(('column', names, k, nm, types[nm], t[:, :, k].tolist()))
        if t is not db.theDraws or db.number_of_draws != R or any(db.typesOfDraws[n] != types[n] for n in names):
            bad.append(('recorded', names))
    np.random.seed(3); u = db.generate_draws({'u': 'UNIFORM', 'n': 'T1'}, ['n', 'u'], R)
    np.random.seed(3); from biogeme.native_draws import native_random_number_generators as NT
    ref = NT['UNIFORM'].generator(nrows, R)
    if not (np.array_equal(u[:, :, 1], ref) and np.array_equal(u[:, :, 0], coded(1)(nrows, R))):
        bad.append(('native+user', u.tolist()))
    for types, names in (({'a': 'NOPE'}, ['a']), ({'a': 'T1', 'b': 'nope'}, ['a', 'b'])):
        try:
            db.generate_draws(types, names, R); bad.append(('no error for unknown type', types))
        except Exception as e:
            if type(e).__name__ != 'BiogemeError': bad.append(('wrong exception', type(e).__name__))
violated = bool(bad)
detail = f'generate_draws on coded generators: {bad[:3]}'
'''

contract(D + 'generate_draws', 'C10', self_class='Database', label='Database.generate_draws',
         types={'draw_types': 'dict[str, str]', 'names': 'list[str]', 'number_of_draws': 'int'},
         returns='Any',
         requires={'names_typed': 'forall(lambda q: names[q] in draw_types, 0, len(names))'},
         raises={'BiogemeError': f'exists(lambda q: {BAD_Q}, 0, len(names))'},
         modifies=['self.number_of_draws', 'self.theDraws', 'dict(self.typesOfDraws)'],
         invariants={1: {'clauses': {
             'len': 'len(list_of_draws) == len(names)',
             'known': f'forall(lambda q: not {BAD_Q}, 0, _k)',
             'filled': f'forall(lambda q: same(list_of_draws[q], {series_of(TYPE_Q)}), 0, _k)',
             'types': 'forall(lambda q: names[q] in self.typesOfDraws and self.typesOfDraws[names[q]] == old(draw_types[names[q]]), 0, _k)',
         }}},
         ensures={
             'shape': f'implies(len(names) >= 1, same(result.shape, ({N}, number_of_draws, len(names))))',
             'column_k_is_series_of_names_k':
                 f'forall(lambda q: forall(lambda i: forall(lambda j: same(result[i, j, q], {series_of("old(draw_types[names[q]])")}[i, j]), '
                 f'0, number_of_draws), 0, {N}), 0, len(names))',
             'stored': 'same(self.theDraws, result)',
             'number_recorded': 'self.number_of_draws == number_of_draws',
             'types_recorded': 'forall(lambda q: names[q] in self.typesOfDraws and self.typesOfDraws[names[q]] == old(draw_types[names[q]]), 0, len(names))',
         },
         replay=REPLAY_GENERATE,
         note='the third axis of the draws table follows `names`; every name gets the series of the generator of its own type')
