"""C01 round 2 (c01c): loop-built signature lines of the n-ary node classes."""
from pyvc.contract import contract, field_type
from contracts import c01_values, c01_signatures  # noqa: F401  (abstract contracts, field types)

B = 'biogeme.expressions.'
LAST = 'result[len(result) - 1]'


def replay_for(cls):
    """native re-check of one class on the real code (bounded/c01c_nary.py): an independent transcription of the
    engine reader applied to the signatures of small instances"""
    return f"""
import sys
sys.path.insert(0, '/verif/bounded')
import c01c_nary
try:
    bad = c01c_nary.check_class({cls!r})
except Exception as e_:
    bad = [f'{cls}: the real code raised {{type(e_).__name__}}: {{e_}}']
violated = bool(bad)
detail = str((bad or [])[:2])
"""


def header(line, cls, count):
    return {'ok': f'eline_ok({line})',
            'type': f"eline_field({line}, 'type') == '{cls}'",
            'id': f"same(eline_field({line}, 'id'), self.get_id())",
            'count': f"same(eline_field({line}, 'count'), {count})"}


# ---- bioMultSum: the generic Expression.get_signature with any number of children ------------------
_KIDS = 'cat_range(lambda q: self.children[q].get_signature(), 0, LIM)'
contract(B + 'base_expressions.Expression.get_signature', 'C01', self_class='bioMultSum', label='bioMultSum.get_signature',
         modifies=[], replay=replay_for('bioMultSum'),
         invariants={1: {'clauses': {'children_first': f"seq_eq(list_of_signatures, old({_KIDS.replace('LIM', '_k')}))"}},
                     2: {'clauses': {**header('mysignature', 'bioMultSum', 'len(self.children)'),
                                     'nitems': 'eline_n(mysignature) == 1 + _k',
                                     'child_ids': 'forall(lambda q: same(eline_item(mysignature, 1 + q), self.children[q].get_id()), 0, _k)'}}},
         ensures={**header(LAST, 'bioMultSum', 'len(self.children)'),
                  'nitems': f'eline_n({LAST}) == 1 + len(self.children)',
                  'child_ids_in_order': f'forall(lambda q: same(eline_item({LAST}, 1 + q), self.children[q].get_id()), 0, len(self.children))',
                  'postorder': f"seq_eq(result[:len(result) - 1], old({_KIDS.replace('LIM', 'len(self.children)')}))"})

# ---- ConditionalSum -----------------------------------------------------------------------------------
_T = 'self.list_of_terms'
_CSK = f'cat_range(lambda q: {_T}[q].condition.get_signature() + {_T}[q].term.get_signature(), 0, LIM)'


def _cs_pairs(line, lim):
    return (f'forall(lambda q: same(eline_item({line}, 1 + 2 * q), {_T}[q].condition.get_id()) and '
            f'same(eline_item({line}, 2 + 2 * q), {_T}[q].term.get_id()), 0, {lim})')


contract(B + 'nary_expressions.ConditionalSum.get_signature', 'C01', modifies=[], replay=replay_for('ConditionalSum'),
         invariants={1: {'clauses': {'children_first': f"seq_eq(list_of_signatures, old({_CSK.replace('LIM', '_k')}))"}},
                     2: {'clauses': {**header('signature', 'ConditionalSum', f'len({_T})'),
                                     'nitems': 'eline_n(signature) == 1 + 2 * _k',
                                     'pairs': _cs_pairs('signature', '_k')}}},
         ensures={**header(LAST, 'ConditionalSum', f'len({_T})'),
                  'nitems': f'eline_n({LAST}) == 1 + 2 * len({_T})',
                  'condition_then_term_ids_per_term': _cs_pairs(LAST, f'len({_T})'),
                  'postorder': f"seq_eq(result[:len(result) - 1], old({_CSK.replace('LIM', f'len({_T})')}))"})

# ---- Elem ---------------------------------------------------------------------------------------------
_D = 'self.dict_of_expressions'
_EK = f'self.keyExpression.get_signature() + cat_range(lambda q: {_D}[keys_of({_D})[q]].get_signature(), 0, LIM)'


def _elem_pairs(line, lim):
    return (f'forall(lambda q: same(eline_item({line}, 2 + 2 * q), keys_of({_D})[q]) and '
            f'same(eline_item({line}, 3 + 2 * q), {_D}[keys_of({_D})[q]].get_id()), 0, {lim})')


contract(B + 'nary_expressions.Elem.get_signature', 'C01', modifies=[], replay=replay_for('Elem'),
         invariants={1: {'clauses': {'children_first': f"seq_eq(list_of_signatures, old({_EK.replace('LIM', '_k')}))"}},
                     2: {'clauses': {**header('signature', 'Elem', f'len({_D})'),
                                     'nitems': 'eline_n(signature) == 2 + 2 * _k',
                                     'key_id': 'same(eline_item(signature, 1), self.keyExpression.get_id())',
                                     'pairs': _elem_pairs('signature', '_k')}}},
         ensures={**header(LAST, 'Elem', f'len({_D})'),
                  'nitems': f'eline_n({LAST}) == 2 + 2 * len({_D})',
                  'key_id': f'same(eline_item({LAST}, 1), self.keyExpression.get_id())',
                  'key_then_id_of_its_expression': _elem_pairs(LAST, f'len({_D})'),
                  'postorder': f"seq_eq(result[:len(result) - 1], old({_EK.replace('LIM', f'len({_D})')}))"})

# ---- bioLinearUtility -----------------------------------------------------------------------------------
field_type('bioLinearUtility', 'listOfTerms', 'list[tuple[Beta, Variable]]')
_L = 'self.listOfTerms'


def _lu_terms(line, lim):
    parts = [(1, f'{_L}[q][0].get_id()'), (2, f'{_L}[q][0].elementaryIndex'), (3, f'{_L}[q][0].name'),
             (4, f'{_L}[q][1].get_id()'), (5, f'{_L}[q][1].elementaryIndex'), (6, f'{_L}[q][1].name')]
    return 'forall(lambda q: ' + ' and '.join(f'same(eline_item({line}, {o} + 6 * q), {e})' for o, e in parts) + f', 0, {lim})'


contract(B + 'nary_expressions.bioLinearUtility.get_signature', 'C01', modifies=[], replay=replay_for('bioLinearUtility'),
         invariants={1: {'clauses': {'children_first': f"seq_eq(list_of_signatures, old({_KIDS.replace('LIM', '_k')}))"}},
                     2: {'clauses': {**header('signature', 'bioLinearUtility', f'len({_L})'),
                                     'nitems': 'eline_n(signature) == 1 + 6 * _k',
                                     'terms': _lu_terms('signature', '_k')}}},
         ensures={**header(LAST, 'bioLinearUtility', f'len({_L})'),
                  'nitems': f'eline_n({LAST}) == 1 + 6 * len({_L})',
                  'six_fields_per_term': _lu_terms(LAST, f'len({_L})'),
                  'postorder': f"seq_eq(result[:len(result) - 1], old({_KIDS.replace('LIM', 'len(self.children)')}))"})

# ---- LogLogit (the two classes the engine knows) ------------------------------------------------------------
_U = 'self.util'


def _ll_triples(line, lim):
    return (f'forall(lambda q: same(eline_item({line}, 2 + 3 * q), keys_of({_U})[q]) and '
            f'same(eline_item({line}, 3 + 3 * q), {_U}[keys_of({_U})[q]].get_id()) and '
            f'same(eline_item({line}, 4 + 3 * q), self.av[keys_of({_U})[q]].get_id()), 0, {lim})')


for cls in ('_bioLogLogit', '_bioLogLogitFullChoiceSet'):
    contract(B + 'logit_expressions.LogLogit.get_signature', 'C01', self_class=cls, label=f'{cls}.get_signature', modifies=[], replay=replay_for(cls),
             requires={'same_keys': "forall(lambda x: (x in self.util) == (x in self.av), ty='int')"},
             invariants={1: {'clauses': {'children_first': f"seq_eq(list_of_signatures, old({_KIDS.replace('LIM', '_k')}))"}},
                         2: {'clauses': {**header('signature', cls, f'len({_U})'),
                                         'nitems': 'eline_n(signature) == 2 + 3 * _k',
                                         'choice_id': 'same(eline_item(signature, 1), self.choice.get_id())',
                                         'triples': _ll_triples('signature', '_k')}}},
             ensures={**header(LAST, cls, f'len({_U})'),
                      'nitems': f'eline_n({LAST}) == 2 + 3 * len({_U})',
                      'choice_id': f'same(eline_item({LAST}, 1), self.choice.get_id())',
                      'alternative_utility_availability_of_the_same_alternative': _ll_triples(LAST, f'len({_U})'),
                      'postorder': f"seq_eq(result[:len(result) - 1], old({_KIDS.replace('LIM', 'len(self.children)')}))"})

# ---- BelongsTo ---------------------------------------------------------------------------------------------
field_type('BelongsTo', 'the_set', 'set[float]')


def _bt_members(line, lim):
    return f'forall(lambda q: same(eline_item({line}, 2 + q), set_nth(self.the_set, q)), 0, {lim})'


contract(B + 'unary_expressions.BelongsTo.get_signature', 'C01', modifies=[], replay=replay_for('BelongsTo'),
         invariants={1: {'clauses': {**header('signature', 'BelongsTo', 'len(self.the_set)'),
                                     'nitems': 'eline_n(signature) == 2 + _k',
                                     'child_id': 'same(eline_item(signature, 1), self.child.get_id())',
                                     'members': _bt_members('signature', '_k')}}},
         ensures={**header(LAST, 'BelongsTo', 'len(self.the_set)'),
                  'nitems': f'eline_n({LAST}) == 2 + len(self.the_set)',
                  'child_id': f'same(eline_item({LAST}, 1), self.child.get_id())',
                  'every_member_once': _bt_members(LAST, 'len(self.the_set)'),
                  'postorder': 'seq_eq(result[:len(result) - 1], self.child.get_signature())'})
