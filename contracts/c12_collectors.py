"""C12: the recursive placement collectors (what may only appear under which operator).

Same induction scheme as the audit (contracts/c12_audit.py): an ASSUMED abstract contract of each
virtual method gives the value OUT(child) it returns on a sub-formula; the VERIFIED contracts are the
induction steps:

    check_draws / check_rv / check_panel_trajectory
        base body (every family of node classes)  = union over the children of OUT(child)
        MonteCarlo / Integrate / PanelLikelihoodTrajectory                  = empty set  (the operator BLOCKS what is below it)
        bioDraws / RandomVariable / Variable                                = {own name}  (the leaf REPORTS itself)
        catalogs                                                            = OUT(selected member)
    embed_expression(t)    base body, per node class C:   t == 'C'  or  some child embeds t
    count_panel_trajectory_expressions
        base body = sum over the children;  PanelLikelihoodTrajectory = 1 + count(child);  catalogs = selected member

Not here: set_id_manager (contracts/c12_ownrules.py); dict_of_elementary_expression (its base body is
`dict(chain(*(... .items() for e in self.children)))`: a starred generator of unknown arity is outside the engine's
subset; it stays with the bounded harness, as does IdManager.prepare which consumes it); change_init_values (no refusal
in it: not part of this property, see C03).
"""
from pyvc.contract import contract, field_type
from pyvc.repo import get_repo
from contracts.c12_audit import FAMILIES, REPLAY_TREE, SEL, B

BASE = B + 'base_expressions.Expression.'
M = B + 'multiple_expressions.MultipleExpression.'
U = B + 'unary_expressions.'
E = B + 'elementary_expressions.'

REPLAY_PLACE = REPLAY_TREE + '''
d, d2 = bioDraws('d', 'NORMAL'), bioDraws('d2', 'UNIFORM')
rv, x, y = RandomVariable('omega'), Variable('x'), Variable('y')
hosts = {'Plus': lambda a, b: a + b, 'Times': lambda a, b: a * b, 'Less': lambda a, b: a < b,
         'bioMultSum': lambda a, b: bioMultSum([Numeric(1), a, Numeric(2), b]),
         'Elem': lambda a, b: Elem({0: a, 1: b}, Numeric(0)), 'exp': lambda a, b: exp(a) + log(b),
         'logit': lambda a, b: LogLogit({1: a, 2: b}, None, Numeric(1)),
         'BelongsTo': lambda a, b: BelongsTo(a, {1}) * b, 'Derive': lambda a, b: Derive(a * b, 'x')}
'''

KINDS = {'check_draws': ('draws', 'draws_out', 'MonteCarlo', U, 'bioDraws', E),
         'check_rv': ('rv', 'rv_out', 'Integrate', U, 'RandomVariable', E),
         'check_panel_trajectory': ('vars', 'vars_out', 'PanelLikelihoodTrajectory', U, 'Variable', E)}

for meth, (kind, out, blocker, bmod, leaf, lmod) in KINDS.items():
    # induction hypothesis
    contract(BASE + meth, 'C12', verify=False, pure=True, returns='set[str]',
             ensures={'value': f'c12_set_is(result, {out}(self))'}, label=f'Expression.{meth}(abstract)',
             note=f'induction hypothesis: the set of names {meth} returns on a sub-formula')
    mk = {'check_draws': ('d', 'd2', "MonteCarlo(x * d)", "bioDraws('d', 'NORMAL')"),
          'check_rv': ('rv', "RandomVariable('eta')", "Integrate(x * rv, 'omega')", "RandomVariable('omega')"),
          'check_panel_trajectory': ('x', 'y', "PanelLikelihoodTrajectory(x * y)", "Variable('x')")}[meth]
    replay = REPLAY_PLACE + f'''
a, b, blocked, leaf = {mk[0]}, {mk[1]}, {mk[2]}, {mk[3]}
na, nb = a.name, b.name
wrong = []
for name, mkh in hosts.items():
    if mkh(a, Numeric(1)).{meth}() != {{na}} or mkh(Numeric(1), b).{meth}() != {{nb}} or mkh(a, b).{meth}() != {{na, nb}} \\
            or mkh(Numeric(1), Numeric(2)).{meth}() != set() or mkh(blocked, b).{meth}() != {{nb}}:
        wrong.append(name)
violated = bool(wrong) or blocked.{meth}() != set() or leaf.{meth}() != {{leaf.name}}
detail = f'hosts whose {meth} is not the union over the operands: {{wrong}}; under the blocking operator: {{blocked.{meth}()}}; leaf: {{leaf.{meth}()}}'
'''
    # induction step: base body = union over the children, for every family of node classes
    for fam in FAMILIES:
        contract(BASE + meth, 'C12', self_class=fam, exact_self=False, label=f'Expression.{meth}@{fam}', returns='set[str]',
                 modifies=[], ensures={'union_over_children': f"c12_set_is(result, c12_union_children('{kind}', self.children))"},
                 replay=replay)
    # the operator that blocks / the leaf that reports itself
    contract(bmod + f'{blocker}.{meth}', 'C12', returns='set[str]', modifies=[],
             ensures={'blocks': 'c12_set_is(result, c12_empty())'}, replay=replay)
    contract(lmod + f'{leaf}.{meth}', 'C12', returns='set[str]', modifies=[],
             ensures={'reports_own_name': 'c12_set_is(result, c12_single(self.name))'}, replay=replay)
    contract(M + meth, 'C12', exact_self=False, returns='set[str]', modifies=[],
             ensures={'selected_member': f'c12_set_is(result, {out}({SEL}))'}, replay=replay)

# ---------------------------------------------------------------------------------------------
# embed_expression(t): the node's own class name, or some child.  The abstract contract (pure, deterministic) is
# declared in c12_audit; the base body is verified for EVERY node class that inherits it, because its result
# mentions type(self).__name__.
def inheriting(meth):
    repo = get_repo()
    base = repo.function(BASE + meth)
    return sorted(c.name for c in repo.subclasses('Expression')
                  if c.name != 'Expression' and repo.resolve_method(c.name, meth, c.module) is base)


_EMB = 'exists(lambda k: self.children[k].embed_expression(t), 0, len(self.children))'
REPLAY_EMBED = REPLAY_PLACE + '''
d, rv, x = bioDraws('d', 'NORMAL'), RandomVariable('omega'), Variable('x')
targets = {'bioDraws': d, 'RandomVariable': rv, 'Variable': x, 'MonteCarlo': MonteCarlo(d), 'PanelLikelihoodTrajectory': PanelLikelihoodTrajectory(x)}
wrong = []
for t, node in targets.items():
    if not node.embed_expression(t):
        wrong.append(('self', t))
    for name, mkh in hosts.items():
        if not mkh(Numeric(1), node).embed_expression(t) or not mkh(node, Numeric(1)).embed_expression(t) \\
                or not exp(mkh(Numeric(1), node)).embed_expression(t) or mkh(Numeric(1), Numeric(2)).embed_expression(t):
            wrong.append((name, t))
violated = bool(wrong)
detail = f'(host, class name) pairs for which embed_expression is not "own class or some operand": {wrong}'
'''
for _cls in inheriting('embed_expression'):
    contract(BASE + 'embed_expression', 'C12', self_class=_cls, label=f'Expression.embed_expression@{_cls}',
             types={'t': 'str'}, returns='bool', modifies=[],
             ensures={'own_class_or_some_child': f"result == (t == '{_cls}' or {_EMB})"},
             invariants={1: {'clauses': {'none_so_far': 'forall(lambda q: not self.children[q].embed_expression(t), 0, _k)'}}},
             replay=REPLAY_EMBED)
contract(M + 'embed_expression', 'C12', exact_self=False, types={'t': 'str'}, returns='bool', modifies=[],
         ensures={'selected_member': f'result == {SEL}.embed_expression(t)'}, replay=REPLAY_EMBED)

# ---------------------------------------------------------------------------------------------
# count_panel_trajectory_expressions
contract(BASE + 'count_panel_trajectory_expressions', 'C12', verify=False, pure=True, returns='int',
         ensures={'value': 'result == plt_count(self)'}, label='Expression.count_panel_trajectory_expressions(abstract)',
         note='induction hypothesis: the number of PanelLikelihoodTrajectory nodes of a sub-formula')
REPLAY_COUNT = REPLAY_PLACE + '''
p1, p2 = PanelLikelihoodTrajectory(Variable('x')), PanelLikelihoodTrajectory(PanelLikelihoodTrajectory(Variable('y')))
wrong = [name for name, mkh in hosts.items()
         if mkh(p1, Numeric(1)).count_panel_trajectory_expressions() != 1 or mkh(p1, p2).count_panel_trajectory_expressions() != 3
         or mkh(Numeric(1), Numeric(2)).count_panel_trajectory_expressions() != 0]
violated = bool(wrong) or p2.count_panel_trajectory_expressions() != 2
detail = f'hosts whose count is not the sum over the operands: {wrong}; nested trajectory operators count {p2.count_panel_trajectory_expressions()} (want 2)'
'''
for fam in FAMILIES:
    contract(BASE + 'count_panel_trajectory_expressions', 'C12', self_class=fam, exact_self=False,
             label=f'Expression.count_panel_trajectory_expressions@{fam}', returns='int', modifies=[],
             ensures={'sum_over_children': 'result == plt_count_upto(self.children, len(self.children))'},
             invariants={1: {'clauses': {'sum_so_far': 'nbr == plt_count_upto(self.children, _k)'}}}, replay=REPLAY_COUNT)
contract(U + 'PanelLikelihoodTrajectory.count_panel_trajectory_expressions', 'C12', returns='int', modifies=[],
         ensures={'one_more_than_child': 'result == 1 + plt_count(self.child)'}, replay=REPLAY_COUNT)
contract(M + 'count_panel_trajectory_expressions', 'C12', exact_self=False, returns='int', modifies=[],
         ensures={'selected_member': f'result == plt_count({SEL})'}, replay=REPLAY_COUNT)
