"""C12 (round 2, agent c12c): the data audit of biogeme.database, over the assumed pandas model of
pyvc/libext/c12c_pandas.py (df.dtypes.items(), np.issubdtype(., np.number), df.isnull().values.any(), len(df.index)).

    Database._audit      returns two NEW lists; the number of errors is exactly (number of non-numeric columns) + (1 if the
                         frame holds a NaN) -- hence no error IFF every column is numeric and there is no NaN
    Database.__init__    BiogemeError IFF the frame has no row, or a column is not numeric, or it holds a NaN; otherwise the
                         frame is stored
"""
from pyvc.contract import contract, field_type

D = 'biogeme.database.Database.'
field_type('Database', 'data', 'DataFrame')

REPLAY_DATA = '''
import warnings, logging; warnings.simplefilter('ignore'); logging.disable(logging.CRITICAL)
import numpy as np, pandas as pd
from biogeme.database import Database
from biogeme.exceptions import BiogemeError
FRAMES = {
 'numeric': pd.DataFrame({'a': [1.0, 2.0], 'b': [3, 4]}),
 'one column': pd.DataFrame({'a': [1]}),
 'strings last': pd.DataFrame({'a': [1.0, 2.0], 's': ['x', 'y']}),
 'strings first': pd.DataFrame({'s': ['x', 'y'], 'a': [1.0, 2.0]}),
 'two bad columns': pd.DataFrame({'s': ['x', 'y'], 'a': [1.0, 2.0], 't': ['u', 'v']}),
 'dates': pd.DataFrame({'a': [1.0, 2.0], 'd': pd.to_datetime(['2020-01-01', '2020-01-02'])}),
 'mixed objects': pd.DataFrame({'a': [1.0, 'x']}),
 'nan': pd.DataFrame({'a': [1.0, np.nan], 'b': [3, 4]}),
 'nan in the last cell': pd.DataFrame({'a': [1.0, 2.0], 'b': [3.0, np.nan]}),
 'None in an object column': pd.DataFrame({'a': [1.0, 2.0], 's': ['x', None]}),
 'nan and strings': pd.DataFrame({'a': [np.nan, 2.0], 's': ['x', 'y']}),
 'no row': pd.DataFrame({'a': []}),
 'no row no column': pd.DataFrame(),
 'unsigned and complex': pd.DataFrame({'u': np.array([1, 2], dtype='uint8'), 'c': np.array([1j, 2], dtype='complex128')}),
}
def expected_errors(df):       # independent oracle: number kinds of numpy (int, unsigned, float, complex)
    return sum(1 for c in df.columns if df[c].dtype.kind not in 'iufc') + (1 if df.isna().to_numpy().any() else 0)
'''

DF = 'self.data'
NERR = f'c12c_nonnumeric_upto({DF}, c12c_ncols({DF})) + ite(c12c_has_null({DF}), 1, 0)'
contract(D + '_audit', 'C12', modifies=[], returns='tuple[list[str], list[str]]',
         ensures={'fresh': 'c12_fresh_lists(result)',
                  'one_error_per_non_numeric_column_plus_one_for_nan': f'len(c12_errs(result)) == {NERR}',
                  'no_error_iff_all_numeric_and_no_nan':
                      f'(len(c12_errs(result)) == 0) == (forall(lambda q: c12c_col_numeric({DF}, q), 0, c12c_ncols({DF})) and not c12c_has_null({DF}))',
                  'no_warning': 'len(c12_warns(result)) == 0'},
         invariants={1: {'clauses': {
             'locals_are_new_lists': 'c12_fresh_lists((list_of_errors, list_of_warnings))',
             'old_lists_unchanged': 'c12_old_objects_unchanged()',
             'count_so_far': f'len(list_of_errors) == c12c_nonnumeric_upto({DF}, _k)',
             'clean_iff_numeric_so_far': f'(len(list_of_errors) == 0) == forall(lambda q: c12c_col_numeric({DF}, q), 0, _k)',
             'no_warning': 'len(list_of_warnings) == 0'}}},
         replay=REPLAY_DATA + '''
wrong = []
for name, df in FRAMES.items():
    db = Database('d', FRAMES['numeric'].copy())
    db.data = df
    errs, warns = db._audit()
    if len(errs) != expected_errors(df) or warns:
        wrong.append((name, errs, expected_errors(df)))
violated = bool(wrong)
detail = f'(frame, errors returned by _audit, expected number): {wrong[:5]}'
''')

contract(D + '_generate_headers', 'C12', verify=False, modifies=['self.variables'], ensures={'t': 'True'},
         label='Database._generate_headers(assumed)',
         note='builds one Variable per column label (dict comprehension over df.columns allocating objects: out of the subset); assumed not to refuse')
P = 'pandas_database'
FAULTY = (f'len({P}.index) == 0 or exists(lambda q: not c12c_col_numeric({P}, q), 0, c12c_ncols({P})) or c12c_has_null({P})')
contract(D + '__init__', 'C12', types={'name': 'str', P: 'DataFrame'},
         modifies=['self.' + f for f in ('name', 'data', 'fullData', 'variables', 'excludedData', 'panelColumn', 'individualMap',
                                          'fullIndividualMap', 'userRandomNumberGenerators', 'number_of_draws', 'typesOfDraws',
                                          'theDraws', '_avail', '_choice', '_expression')],
         raises={'BiogemeError': FAULTY},
         ensures={'frame_stored': f'self.data is {P} and self.fullData is {P}',
                  'flat_data': 'self.panelColumn is None and self.individualMap is None and self.excludedData == 0',
                  # (m5, round 3) a new database is flat, has no draws and no formula under check
                  'initial_state': 'self.fullIndividualMap is None and self.theDraws is None and self.number_of_draws == 0 and '
                                   'self._avail is None and self._choice is None and self._expression is None and same(self.name, name)'},
         replay=REPLAY_DATA + '''
wrong = []
for name, df in FRAMES.items():
    want = 'BiogemeError' if (len(df.index) == 0 or expected_errors(df) > 0) else 'built'
    try:
        db = Database('d', df); got = 'built' if db.data is df else 'built, other frame stored'
    except BiogemeError:
        got = 'BiogemeError'
    except Exception as e:
        got = type(e).__name__
    if got != want:
        wrong.append((name, got, want))
violated = bool(wrong)
detail = f'(frame, outcome of Database(...), expected): {wrong[:6]}'
''')
