"""C05 / C06 (round 3): ln G_i of the nested logit WITH EXPLICIT SCALE mu (get_mev_for_nested_mu), every number of nests.

Same proof as contracts/c05c_nested.py with the terms
    nest q, alternative i :  log(mu) + (mu_q - 1) V_i + (mu/mu_q - 1) log c05c_nestsum(nest_q, util, availability)
    i left alone          :  log(mu) + (mu - 1) V_i
C06 corollary (scale one = unscaled): when mu has value one (and log 1 = 0, a named axiom about the uninterpreted log) the
terms are exactly those proved for get_mev_for_nested.
"""
from pyvc.contract import contract

import contracts.c05c_nested as Ns
import contracts.c05c_nodes as N   # noqa: F401

M = Ns.M
T, AV = Ns.T, Ns.AV
_MU = 'c05c_val(mu)'


def G_MU(nest: str, alt: str) -> str:
    return (f"(app('numpy.log', {_MU}) + (c05c_val({nest}.nest_param) - 1.0) * c05c_val(util[{alt}]) + "
            f"({_MU} / c05c_val({nest}.nest_param) - 1.0) * app('numpy.log', c05c_nestsum({nest}, util, {AV})))")


_G_OLD = Ns.G(T + '[q]', T + '[q].list_of_alternatives[p]')
_G_NEW = G_MU(T + '[q]', T + '[q].list_of_alternatives[p]')
_VAL_K = Ns._VAL_K.replace(_G_OLD, _G_NEW)
assert _VAL_K != Ns._VAL_K
_ALONE_K = (f"forall(lambda x: implies({Ns._IN_ALONE}, c05c_val(log_gi[x]) == app('numpy.log', {_MU}) + "
            f"({_MU} - 1) * c05c_val(util[x])), ty='int')")
_CUR_IN = f"forall(lambda p: c05c_val(log_gi[{Ns._ALTS}[p]]) == {G_MU('m', Ns._ALTS + '[p]')}, 0, _k)"
_PREV_IN = Ns._PREV_IN.replace(_G_OLD, _G_NEW)
_INNER = dict(Ns._INNER)
_INNER.update({'previous_nests': _PREV_IN, 'current_nest_terms': _CUR_IN, 'alone_zero': _ALONE_K})
_OUTER = {'domain_alone': Ns._DOM_ALONE, 'domain_nests': Ns._DOM_K, 'nest_terms': _VAL_K, 'alone_zero': _ALONE_K}
_REQ = dict(Ns._REQ)
_REQ['alone_alternatives_have_utilities'] = f"forall(lambda x: implies({Ns._IN_ALONE}, x in util), ty='int')"

_ONE = f"{_MU} == 1 and app('numpy.log', 1.0) == 0"
_REPLAY_MU = Ns._REPLAY_NESTED.replace('get_mev_for_nested, lognested, nested', 'get_mev_for_nested, get_mev_for_nested_mu, lognested, nested').replace(
    "    bad = [k for k in V if k not in got",
    "    got_mu = {k: e.get_value() for k, e in get_mev_for_nested_mu(U, A, ns, Beta('MU', 1.0, None, None, 0)).items()}\n"
    "    got15 = {k: e.get_value() for k, e in get_mev_for_nested_mu(U, A, ns, Beta('MU', 1.5, None, None, 0)).items()}\n"
    "    want15 = {k: math.log(1.5) + 0.5 * V[k] for k in V}\n"
    "    for mu_, alts_ in fam:\n"
    "        s_ = sum(math.exp(mu_ * V[j]) for j in alts_ if av is None or av[j] != 0)\n"
    "        for i_ in alts_:\n"
    "            want15[i_] = math.log(1.5) + (mu_ - 1.0) * V[i_] + (1.5 / mu_ - 1.0) * math.log(s_)\n"
    "    got = got if all(abs(got_mu[k] - got[k]) < 1e-12 and abs(got15[k] - want15[k]) < 1e-11 for k in V) else {}\n"
    "    bad = [k for k in V if k not in got")

contract(M + 'get_mev_for_nested_mu', ['C05', 'C06'], nla_uf=True, replay=_REPLAY_MU,
         types={'util': 'dict[int, Expression]', 'availability': 'dict[int, Expression] | None', 'nests': 'NestsForNestedLogit',
                'mu': 'Expression'},
         requires=_REQ, modifies=[], raises={'BiogemeError': Ns._NOT_OK},
         ensures={'domain_alone': Ns._DOM_ALONE.replace('log_gi', 'result'),
                  'domain_nests': Ns._DOM_K.replace('log_gi', 'result').replace('_k', f'len({T})'),
                  'nest_terms': _VAL_K.replace('log_gi', 'result').replace('_k', f'len({T})'),
                  'alone_terms': _ALONE_K.replace('log_gi', 'result'),
                  'nests_are_a_partition': 'c05c_partition(nests)',
                  # C06: scale one = unscaled
                  'scale_one_nest_terms_are_the_unscaled_ones':
                      f"implies({_ONE}, {Ns._VAL_K.replace('log_gi', 'result').replace('_k', f'len({T})')})",
                  'scale_one_alone_terms_are_zero': f"implies({_ONE}, {Ns._ALONE_K.replace('log_gi', 'result')})"},
         invariants={1: {'clauses': dict(_OUTER)}, 4: {'clauses': dict(_OUTER)},
                     **{o: {'clauses': dict(_INNER)} for o in (2, 3, 5, 6)}})
