"""Contracts for biogeme.mdcev (C18): model pieces agree.

For each of the four variants:
  utility_one_alternative(x)            == reference utility U(x)                     (specs/c18_diff.UTILITIES)
  derivative_utility_one_alternative(x) == dU/dx, computed by the symbolic differentiator specs/c18_diff.d
  D(optimal_consumption_one_alternative(lambda)) == lambda      (the closed form inverts the derivative)
for every configuration at once (outside good or not; prices or not; scale or not): the configuration
is a symbolic input (`self.prices is None`, `self.scale_parameter is None`, `gamma is None`).
"""
from pyvc.contract import contract, field_type
from pyvc.libext import c18_transc
from specs import c18_diff as D

c18_transc.enable()

# ---------------------------------------------------------------------------------------------
# assumed (trusted) contracts: values of expressions are pure functions of the receiver
# ---------------------------------------------------------------------------------------------
contract('biogeme.mdcev.mdcev.Mdcev.calculate_baseline_utility', 'C18', pure=True, verify=False,
         types={'alternative_id': 'int'}, returns='float',
         note='A-VALUE: the engine value of the baseline utility of one row is a pure function of (model, alternative, row)')
contract('biogeme.mdcev.non_monotonic.NonMonotonic.calculate_mu_utility', 'C18', pure=True, verify=False,
         types={'alternative_id': 'int'}, returns='float')
contract('biogeme.expressions.base_expressions.Expression.get_value', 'C18', pure=True, verify=False, returns='float',
         note='A-VALUE: Expression.get_value() is a pure function of the expression')

# ---------------------------------------------------------------------------------------------
# spec names
# ---------------------------------------------------------------------------------------------
GAMMA = 'self.gamma_parameters[the_id]'
NAMES = {
    'V': 'self.calculate_baseline_utility(the_id, one_observation)',
    'mu': 'self.calculate_mu_utility(the_id, one_observation)',
    'e': 'ite(self.scale_parameter is None, epsilon, epsilon / self.scale_parameter.get_value())',
    'p': 'ite(self.prices is None, 1.0, self.prices[the_id].get_value())',
    'g': f'{GAMMA}.get_value()',
    'a': 'self.alpha_parameters[the_id].get_value()',
}
NAMES_NOPRICE = dict(NAMES, p='1.0')

VARIANTS = {
    # variant: (class qualname, has prices, has alpha, has mu)
    'gamma_profile': ('biogeme.mdcev.gamma_profile.GammaProfile', True, False, False),
    'translated': ('biogeme.mdcev.translated.Translated', False, True, False),
    'generalized': ('biogeme.mdcev.generalized.Generalized', True, True, False),
    'non_monotonic': ('biogeme.mdcev.non_monotonic.NonMonotonic', False, True, True),
}


def text(expr, variant, x):
    names = dict(NAMES if VARIANTS[variant][1] else NAMES_NOPRICE)
    names['x'] = x
    return D.contract_text(expr, names)


def domain(variant, consumption: bool):
    """Class invariant established by Mdcev.__init__ + the parameter domain of the model."""
    _, prices, alpha, mu = VARIANTS[variant]
    req = {
        'keys': 'the_id in self.gamma_parameters',
        'gamma_pos': f'implies({GAMMA} is not None, {NAMES["g"]} > 0)',
        'scale_pos': 'implies(self.scale_parameter is not None, self.scale_parameter.get_value() > 0)',
    }
    if prices:
        req['price_keys'] = 'implies(self.prices is not None, the_id in self.prices)'
        req['price_pos'] = f'implies(self.prices is not None, {NAMES["p"]} > 0)'
    if alpha:
        req['alpha_keys'] = 'self.alpha_parameters is not None and the_id in self.alpha_parameters'
        req['alpha_dom'] = f'0 < {NAMES["a"]} and {NAMES["a"]} < 1'
    if consumption:
        req['x_dom'] = f'the_consumption >= 0 and implies({GAMMA} is None, the_consumption > 0)'
    return req


TYPES = {'the_id': 'int', 'the_consumption': 'float', 'epsilon': 'float', 'dual_variable': 'float'}

# replays: native comparison of the three methods with finite differences / inversion on a fixed grid of
# configurations (the counter-model only selects the configuration; values come from the grid)
REPLAY = """
import sys
sys.path.insert(0, '/verif/bounded')
import c18_pieces
n, bad = c18_pieces.run(variants=['{variant}'], what='{what}', cases=40, seed=0, model=m)
violated = bool(bad)
detail = f'{{n}} native cases of {variant}.{what}; first mismatch: {{bad[0] if bad else None}}'
"""

for variant, (cls, has_prices, has_alpha, has_mu) in VARIANTS.items():
    u_out, u_in = D.UTILITIES[variant]
    du_out, du_in = D.d(u_out), D.d(u_in)

    # ---- utility_one_alternative == U ----
    kw = {}
    ens = {
        'value_regular_good': f'implies({GAMMA} is not None, result == {text(u_in, variant, "the_consumption")})',
        'value_outside_good': f'implies({GAMMA} is None, result == {text(u_out, variant, "the_consumption")})',
    }
    if variant == 'gamma_profile':
        kw['raises'] = {'BiogemeError': f"{GAMMA} is None and app('numpy.isclose', the_consumption, 0.0)"}
    req = domain(variant, True)
    if variant == 'translated':
        # m3 (mutation review): the code has a branch of its own for the outside good at zero consumption; the reference
        # utility exp(V + e + a*log x) has the limit 0 there (a > 0), which is what the branch must return.  The
        # precondition no longer excludes that point, and the clause below pins it.
        req['x_dom'] = 'the_consumption >= 0'
        ens['value_outside_good'] = (f'implies({GAMMA} is None and the_consumption > 0, '
                                     f'result == {text(u_out, variant, "the_consumption")})')
        ens['value_outside_good_at_zero'] = f'implies({GAMMA} is None and the_consumption == 0, result == 0.0)'
    contract(f'{cls}.utility_one_alternative', 'C18', types=TYPES, requires=req, ensures=ens,
             replay=REPLAY.format(variant=variant, what='utility'), **kw)

    # ---- derivative_utility_one_alternative == dU/dx ----
    req = domain(variant, False)
    req['x_dom'] = 'the_consumption >= 0'
    ens = {
        'derivative_regular_good': f'implies({GAMMA} is not None, result == {text(du_in, variant, "the_consumption")})',
        'derivative_outside_good': f'implies({GAMMA} is None and the_consumption > 0, '
                                   f'result == {text(du_out, variant, "the_consumption")})',
    }
    if variant == 'gamma_profile':
        # the class invariant of Mdcev.__init__: the outside good is THE alternative whose gamma is None
        req['outside_key'] = f'({GAMMA} is None) == (self.outside_good_key is not None and the_id == self.outside_good_key)'
        req['maps'] = ('the_id in self.key_to_index and implies(self.outside_good_key is not None, '
                       'self.outside_good_key in self.key_to_index)')
        ens['derivative_outside_good_at_zero'] = f'implies({GAMMA} is None and the_consumption == 0, result == np.inf)'
    contract(f'{cls}.derivative_utility_one_alternative', 'C18', types=TYPES, requires=req, ensures=ens,
             replay=REPLAY.format(variant=variant, what='derivative'))

    # ---- D(optimal_consumption_one_alternative(lambda)) == lambda ----
    req = domain(variant, False)
    req['dual_pos'] = 'dual_variable > 0'
    kw = {}
    side = 'True'
    if variant == 'non_monotonic':
        # the marginal utility of this model is bounded below by mu + e (lower_bound_dual_variable)
        req['dual_above_bound'] = f'dual_variable > {text("mu + e", variant, "0")}'
    if variant == 'translated':
        # the closed form is clamped at exp(MAX_EXP_ARGUMENT): stated for multipliers that are not clamped
        side = (f'({text("(log(lam) - V - e - log(a)) / (a - 1)", variant, "0")} <= MAX_EXP_ARGUMENT)'
                .replace('lam', 'dual_variable'))
        kw['raises'] = {'BiogemeError': f'np.isclose({NAMES["a"]}, 0) or np.isclose({NAMES["a"]}, 1.0)'}
        # lemma instance (A-TRANSC sum rule at one more term): exp(lr + lr/(a-1)), which equals exp(a * lr/(a-1))
        # (hints see the locals at the return point: the entry value of epsilon is old(epsilon))
        kw['hints'] = [text('exp((log(lam) - V - e - log(a)) + (log(lam) - V - e - log(a)) / (a - 1))', variant, '0')
                       .replace('lam', 'dual_variable').replace('epsilon', 'old(epsilon)')]
    ens = {
        'inverts_derivative_regular_good': f'implies({GAMMA} is not None and {side}, '
                                           f'{text(du_in, variant, "result")} == dual_variable)',
        'inverts_derivative_outside_good': f'implies({GAMMA} is None and {side}, '
                                           f'{text(du_out, variant, "result")} == dual_variable)',
    }
    contract(f'{cls}.optimal_consumption_one_alternative', 'C18', types=TYPES, requires=req, ensures=ens,
             replay=REPLAY.format(variant=variant, what='inverse'), **kw)

# ---------------------------------------------------------------------------------------------
# forecast_bisection_one_draw: partial correctness of the bracket
# ---------------------------------------------------------------------------------------------
MD = 'biogeme.mdcev.mdcev.Mdcev.'
# m3 (mutation review): the postcondition of a contract sees parameters and fields only, not locals.  So that the contract of
# the bisection can speak about the multiplier and the choice set of the LAST call of optimal_consumption, that assumed callee
# RECORDS what it was asked and what it answered in ghost fields of the model (no real code reads them); the identification
# step is a PURE assumed contract, i.e. a specification can name its answer (ID below).
field_type('Mdcev', 'alternatives', 'set[int]')
field_type('Mdcev', 'ghost_dual', 'float')
field_type('Mdcev', 'ghost_set', 'set[int]')
field_type('Mdcev', 'ghost_consumption', 'dict[int, float]')
field_type('Mdcev', 'ghost_values', 'dict[int, float]')
contract(MD + 'identification_chosen_alternatives', 'C18', verify=False, pure=True,
         types={'total_budget': 'float', 'epsilon': 'vec'},
         returns='tuple[set[int], float, float]',
         note='assumed (A-VALUE): the (chosen set, lower bound, upper bound) it returns is a deterministic function of the model, the '
              'row, the budget and the draw, so that a specification can name it; its quality is checked by the bounded KKT stand-in')
# what the identification step answers for the arguments of the bisection (specification name)
ID = 'self.identification_chosen_alternatives(one_row_of_database, total_budget, epsilon)'
contract(MD + 'optimal_consumption', 'C18', verify=False,
         types={'chosen_alternatives': 'set[int]', 'dual_variable': 'float', 'epsilon': 'vec'},
         returns='dict[int, float]',
         modifies=['self.ghost_dual', 'self.ghost_set', 'self.ghost_consumption', 'self.ghost_values'],
         ensures={'ghost_records_the_call': 'self.ghost_dual == dual_variable and same(self.ghost_set, chosen_alternatives) and '
                                            'same(self.ghost_consumption, result)',
                  'one_entry_per_chosen_alternative': "forall(lambda k: (k in result) == (k in chosen_alternatives), ty='int')",
                  # the total consumption is a function of the arguments (specification name c18_total, pyvc/libext/m3_c18_sets.py)
                  'total_is_a_function_of_the_arguments':
                      "sum(result.values()) == app('c18_total', self, chosen_alternatives, dual_variable, epsilon, one_observation)",
                  # the dict is built by this call (a dict comprehension): not the set it was given, not an older object
                  'new_dict': 'c10c_new_object(result) and result is not chosen_alternatives',
                  # a ghost COPY of the answer (another object), so that the caller's contract can say that the
                  # consumptions of the chosen alternatives are returned as computed
                  'ghost_copy_of_the_answer': "self.ghost_values is not result and "
                                              "forall(lambda k: implies(k in chosen_alternatives, k in self.ghost_values and "
                                              "result[k] == self.ghost_values[k]), ty='int')"},
         note='assumed: returns a dict with one consumption per alternative of the given set (the dict comprehension of the real '
              'body); the call is recorded in ghost fields (monotonicity in the multiplier is not needed for the bracket)')

def _total(d):
    return f"app('c18_total', self, {ID}[0], {d}, epsilon, one_row_of_database)"


_STOP = ("(upper_bound - lower_bound <= tolerance_dual or "
         "app('numpy.abs', total_consumption - total_budget) <= tolerance_budget)")
contract(MD + 'forecast_bisection_one_draw', 'C18',
         types={'total_budget': 'float', 'epsilon': 'vec', 'tolerance_dual': 'float', 'tolerance_budget': 'float'},
         returns='dict[int, float]',
         # refused IFF the identified bracket is empty (lower bound above upper bound)
         raises={'BiogemeError': f'{ID}[1] > {ID}[2]'},
         may_raise=['ValueError'],
         invariants={1: {'clauses': {
             'bracket_ordered': 'lower_bound <= upper_bound',
             'stops_only_within_tolerance': f'continue_iterations or {_STOP}',
             'inside_identified_bracket': f'{ID}[1] <= lower_bound and upper_bound <= {ID}[2]',
             'identified_set_kept': f'same(chosen_alternatives, {ID}[0])',
             # the bisection step: an end of the bracket only moves to a multiplier that was tried, the upper end to one that
             # underspends the budget, the lower end to one that overspends it ...
             'upper_end_underspends_or_initial': f'upper_bound == {ID}[2] or {_total("upper_bound")} < total_budget',
             'lower_end_overspends_or_initial': f'lower_bound == {ID}[1] or {_total("lower_bound")} > total_budget',
             # ... and the multiplier tried last DID become the end on its side (unless it meets the budget exactly)
             'last_multiplier_became_an_end':
                 f'_k == 0 or ({_total("self.ghost_dual")} < total_budget and upper_bound == self.ghost_dual) or '
                 f'({_total("self.ghost_dual")} > total_budget and lower_bound == self.ghost_dual) or '
                 f'{_total("self.ghost_dual")} == total_budget',
             'total_is_of_last_multiplier': f'_k == 0 or total_consumption == {_total("self.ghost_dual")}',
         }}, 2: {'clauses': {
             'same_dict': 'optimal_consumption is self.ghost_consumption and self.ghost_values is not optimal_consumption and '
                          'self.ghost_set is not optimal_consumption and self.alternatives is not optimal_consumption',
             'listed_so_far': 'forall(lambda q: set_at(self.alternatives, q) in optimal_consumption, 0, _k)',
             'only_alternatives_added': "forall(lambda k: implies(k in optimal_consumption, k in self.ghost_set or k in self.alternatives), ty='int')",
             'chosen_kept': "forall(lambda k: implies(k in self.ghost_set, k in optimal_consumption and "
                            "optimal_consumption[k] == self.ghost_values[k]), ty='int')",
             'others_zero': "forall(lambda k: implies(k in optimal_consumption and k not in self.ghost_set, optimal_consumption[k] == 0), ty='int')",
         }}},
         ensures={
             # the consumptions returned are those of ONE call of optimal_consumption, made for the identified choice set at a
             # multiplier inside the identified bracket
             'multiplier_inside_identified_bracket': f'{ID}[1] <= self.ghost_dual and self.ghost_dual <= {ID}[2]',
             'computed_for_the_identified_set': f'same(self.ghost_set, {ID}[0])',
             'returns_that_consumption': 'result is self.ghost_consumption',
             # ... completed over the alternatives of the model: every alternative has an entry, the chosen ones keep the computed
             # consumption, the others get 0, nothing else is added
             'every_alternative_listed': "forall(lambda k: implies(k in self.alternatives, k in result), ty='int')",
             'chosen_alternatives_as_computed': "forall(lambda k: implies(k in self.ghost_set, k in result and result[k] == self.ghost_values[k]), ty='int')",
             'other_alternatives_zero': "forall(lambda k: implies(k in result and k not in self.ghost_set, result[k] == 0), ty='int')",
             'nothing_else_listed': "forall(lambda k: implies(k in result, k in self.ghost_set or k in self.alternatives), ty='int')",
         },
         check_frame=False,      # the dict returned by the (assumed) callee is not known to be fresh
         replay="""
# the bracket of the bisection on the real code: forecasts must exhaust the budget and satisfy the KKT conditions
import sys
sys.path.insert(0, '/verif/bounded')
import c18_forecast
n, bad = c18_forecast.run(draws=9, seed=0, brute=0)
violated = bool(bad)
detail = f'{n} native forecasts; first failure: {bad[0] if bad else None}'
""",
         note='bracket, bisection step, which call produced the result, completion with zeros; that the initial bracket contains the '
              'multiplier of the optimum (identification) and feasibility / KKT / optimality of the result are bounded (c18_forecast)')
