"""C07 (round 2, tag c07c): the optimisation glue of biogeme.optimization hands to the optimiser exactly what it was given.

Each wrapper makes exactly ONE opaque optimiser call (pyvc/libext/c07c_opt.py records it), with exactly the expected
argument names; the function object, the starting point and the bounds are the caller's; every configured parameter is
the caller's value when the parameter dict has it and the default otherwise; what the optimiser returns is returned
unchanged (scipy: repackaged field by field)."""
from pyvc.contract import contract

O = 'biogeme.optimization.'
TYPES = {'fct': 'FunctionToMinimize', 'init_betas': 'np.ndarray',
         'bounds': 'list[tuple[float | None, float | None]]',
         'variable_names': 'list[str] | None', 'parameters': 'dict[str, Any] | None'}


def param(key, default):
    return f'(parameters[{key!r}] if (parameters is not None and {key!r} in parameters) else {default})'


def handed(name, expr):
    return f'same(opt_arg(1, {name!r}), {expr})'


REPLAY = '''
import subprocess, sys, json, os
r = subprocess.run([sys.executable, '/verif/bounded/c07c_handover.py', %r], capture_output=True, text=True)
out = json.loads(r.stdout.strip().splitlines()[-1])
violated = bool(out['failures'])
detail = json.dumps(out['failures'][:3])
'''


def wrapper(fname, callee, sig, args, extra_ensures=None, **kw):
    ens = {'one_optimiser_call': f'opt_ncalls() == 1 and same(opt_callee(1), {callee!r})',
           'argument_names': f'opt_sig(1) == {sig!r}',
           'function_object': handed('the_function', 'fct'),
           'starting_point': handed('starting_point', 'init_betas')}
    for a, e in args.items():
        ens[a] = handed(a, e)
    ens.update(extra_ensures or {})
    ens['result_is_the_optimisers'] = 'same(result, opt_result(1))'
    contract(O + fname, 'C07', types=TYPES, modifies=[], ensures=ens, replay=REPLAY % fname, **kw)


wrapper('newton_linesearch_for_biogeme', 'biogeme_optimization.linesearch.newton_line_search',
        '0|maxiter,starting_point,the_function', {'maxiter': param('maxiter', 100)})

wrapper('newton_trust_region_for_biogeme', 'biogeme_optimization.trust_region.newton_trust_region',
        '0|initial_radius,maxiter,starting_point,the_function,use_dogleg',
        {'maxiter': param('maxiter', 100), 'use_dogleg': param('dogleg', False), 'initial_radius': param('radius', 1.0)})

wrapper('bfgs_linesearch_for_biogeme', 'biogeme_optimization.linesearch.bfgs_line_search',
        '0|init_bfgs,maxiter,starting_point,the_function',
        {'maxiter': param('maxiter', 100), 'init_bfgs': param('initBfgs', None)})

wrapper('bfgs_trust_region_for_biogeme', 'biogeme_optimization.trust_region.bfgs_trust_region',
        '0|init_bfgs,initial_radius,maxiter,starting_point,the_function,use_dogleg',
        {'maxiter': param('maxiter', 100), 'use_dogleg': param('dogleg', False), 'initial_radius': param('radius', 1.0),
         'init_bfgs': param('initBfgs', None)})

SB_SIG = ('0|bounds,conjugate_gradient_tol,enlarging_factor,eta1,eta2,first_radius,maxiter,'
          'proportion_analytical_hessian,starting_point,the_function,variable_names')


def sb_args(prop_hessian):
    # eta1 / enlargingFactor: the values of the code (0.1, 2); its docstring says 0.01 and 10 (reported, not a C07 clause)
    return {'variable_names': 'variable_names',
            'proportion_analytical_hessian': prop_hessian,
            'first_radius': param('radius', 1.0),
            'conjugate_gradient_tol': param('cgtolerance', 'np.finfo(np.float64).eps ** 0.3333'),
            'maxiter': param('maxiter', 1000),
            'eta1': param('eta1', 0.1), 'eta2': param('eta2', 0.9),
            'enlarging_factor': param('enlargingFactor', 2)}


SB_BOUNDS = {'bounds_are_the_callers': "opt_bounds_ok(1, 'bounds', bounds)"}

wrapper('simple_bounds_newton_algorithm_for_biogeme', 'biogeme_optimization.simple_bounds.simple_bounds_newton_algorithm',
        SB_SIG, sb_args(param('proportionAnalyticalHessian', 1.0)), SB_BOUNDS)

# bio_newton / bio_bfgs force the proportion of analytical Hessians and otherwise behave like simple_bounds; the caller's
# parameter dict (when given) receives the forced entry: that is their documented side effect on `parameters`.
for fname, forced in (('bio_newton', 1), ('bio_bfgs', 0)):
    ens = {'one_optimiser_call': "opt_ncalls() == 1 and same(opt_callee(1), 'biogeme_optimization.simple_bounds.simple_bounds_newton_algorithm')",
           'argument_names': f'opt_sig(1) == {SB_SIG!r}',
           'function_object': handed('the_function', 'fct'),
           'starting_point': handed('starting_point', 'init_betas')}
    a = sb_args(str(forced))
    for nme, e in a.items():
        # the other entries are read from the caller's dict as it was at entry (only the forced key is written)
        ens[nme] = handed(nme, e)
    ens.update(SB_BOUNDS)
    ens['result_is_the_optimisers'] = 'same(result, opt_result(1))'
    ens['only_the_forced_entry_of_the_callers_dict_is_written'] = (
        "parameters is None or (same(parameters['proportionAnalyticalHessian'], %d) and "
        "forall(lambda k: implies(k != 'proportionAnalyticalHessian', iff(k in parameters, old(k in parameters)) and "
        "implies(k in parameters, same(parameters[k], old(parameters[k]))))))" % forced)
    # the frame is open on container internals (the caller's dict is written); the bounds are compared with their ENTRY content
    contract(O + fname, 'C07', types=TYPES, ensures=ens, replay=REPLAY % fname,
             requires={'a_dict_is_not_a_list': 'parameters is not bounds and parameters is not variable_names'},
             modifies=['*.$len', '*.$elems', '*.$dom', '*.$map'])

# scipy: positional objective and starting point; bounds / jac / options by keyword
contract(O + 'scipy', 'C07', types={**TYPES, 'parameters': 'dict[str, Any] | None'}, modifies=[],
         ensures={'one_optimiser_call': "opt_ncalls() == 1 and same(opt_callee(1), 'scipy.optimize.minimize')",
                  # `method` may be left to scipy (which selects L-BFGS-B when bounds are given) or name that method
                  'argument_names': "opt_sig(1) == '2|bounds,jac,options' or "
                                    "(opt_sig(1) == '2|bounds,jac,method,options' and same(opt_arg(1, 'method'), 'L-BFGS-B'))",
                  'objective_is_f_g_of_the_function_object': 'opt_objective_is_f_g(1, 0, fct)',
                  'gradient_supplied_by_the_objective': "same(opt_arg(1, 'jac'), True)",
                  'starting_point': 'same(opt_arg(1, 1), init_betas)',
                  'bounds_are_the_callers': "opt_bounds_ok(1, 'bounds', bounds)",
                  'options': "opt_options_ok(1, 'options', parameters, ['ftol', np.finfo(np.float64).eps, 'gtol', 1.0e-7])",
                  'solution_unchanged': 'same(result.solution, opt_result(1).x)',
                  'convergence_is_success': 'same(result.convergence, opt_result(1).success)',
                  'messages': "same(typed(result.messages, 'dict[str, Any]')['Cause of termination'], opt_result(1).message) and "
                              "same(typed(result.messages, 'dict[str, Any]')['Number of iterations'], opt_result(1).nit) and "
                              "same(typed(result.messages, 'dict[str, Any]')['Number of function evaluations'], opt_result(1).nfev)"},
         replay=REPLAY % 'scipy')
