"""C12: the small own rules, as bi-implications (BiogemeError iff fault).

    Variable.set_id_manager        BiogemeError iff an id manager is given whose table of variables does not hold the name
    Expression.set_id_manager      (base body, per family) BiogemeError iff the propagation to some child raises
    IdManager.__init__             BiogemeError iff (no database and some formula has variables) or numbering the names fails
    dict_of_formulas.check_validity   BiogemeError iff some entry is not an Expression
    dict_of_formulas.get_expression   BiogemeError iff two of the valid keywords are present; else the formula of the one present
    Expression.get_value_and_derivatives   a value is returned ONLY IF no fault: no audit error, no draws outside MonteCarlo,
                                   no random variable outside Integrate, on panel data with a trajectory operator no variable
                                   outside it, not (hessian or bhhh) without gradient, no variable without a database
"""
from pyvc.contract import contract, field_type
from contracts.c12_audit import FAMILIES, REPLAY_TREE, B, DB

BASE = B + 'base_expressions.Expression.'
E = B + 'elementary_expressions.'
IDM = B + 'idmanager.IdManager.'

field_type('Expression', 'id_manager', 'IdManager | None')
field_type('IdManager', 'variables', 'ElementsTuple')
field_type('IdManager', 'elementary_expressions', 'ElementsTuple')
field_type('IdManager', 'expressions', 'list[Expression]')
field_type('IdManager', 'database', 'Database | None')
field_type('ElementsTuple', 'indices', 'dict[str, int] | None')
field_type('ElementsTuple', 'names', 'list[str]')
field_type('Elementary', 'elementaryIndex', 'int | None')
field_type('Variable', 'variableId', 'int | None')

field_type('IdManager', 'free_betas', 'ElementsTuple | None')
field_type('IdManager', 'fixed_betas', 'ElementsTuple | None')
field_type('ElementsTuple', 'expressions', 'dict[str, Beta] | None')


def WF(m):
    """(m5, round 3) class invariant of a PREPARED id manager, as far as get_value_and_derivatives reads it: the two tuples of
    parameters exist, with their dictionaries, and every listed name is a key of the dictionary of expressions.  Established by
    IdManager.prepare, which IdManager.__init__ always runs (proved under C03: contracts/c03c_prepare.py, clauses *_names_are_keys);
    free_betas / fixed_betas are assigned nowhere else in the package."""
    parts = []
    for f in ('free_betas', 'fixed_betas'):
        t = f'{m}.{f}'
        parts += [f'{t} is not None', f'{t}.expressions is not None', f'{t}.indices is not None',
                  f'forall(lambda q: {t}.names[q] in {t}.expressions, 0, len({t}.names))']
    return ' and '.join(parts)


IDT = {'id_manager': 'IdManager | None'}
_ABSENT = 'id_manager is not None and (id_manager.variables.indices is None or self.name not in id_manager.variables.indices)'
contract(E + 'Variable.set_id_manager', 'C12', types=IDT,
         requires={'numbered': "implies(id_manager is not None and id_manager.variables.indices is not None and self.name in id_manager.variables.indices, "
                               "id_manager.elementary_expressions.indices is not None and self.name in id_manager.elementary_expressions.indices)"},
         raises={'BiogemeError': _ABSENT},
         modifies=['self.id_manager', 'self.elementaryIndex', 'self.variableId'],
         ensures={'stored': 'same(self.id_manager, id_manager)',
                  'cleared': 'implies(id_manager is None, self.elementaryIndex is None and self.variableId is None)',
                  'index_by_name': 'implies(id_manager is not None, same(self.variableId, id_manager.variables.indices[self.name]))',
                  'elementary_index_by_name': 'implies(id_manager is not None, '
                                              'same(self.elementaryIndex, id_manager.elementary_expressions.indices[self.name]))'},
         replay='''
import warnings; warnings.simplefilter('ignore')
import pandas as pd
from biogeme.database import Database
from biogeme.expressions import Variable, exp, Beta
from biogeme.exceptions import BiogemeError
db = Database('d', pd.DataFrame({'x': [1.0, 2.0]}))
def outcome(formula):
    try:
        formula.prepare(db, 0); return 'accepted'
    except BiogemeError as e:
        return 'BiogemeError'
    except Exception as e:
        return type(e).__name__
got = {'known': outcome(exp(Variable('x'))), 'absent': outcome(exp(Variable('nope'))), 'absent deep': outcome(Beta('b', 0, None, None, 0) * exp(-Variable('nope')))}
violated = got != {'known': 'accepted', 'absent': 'BiogemeError', 'absent deep': 'BiogemeError'}
detail = f'{got}'
''')

REPLAY_SIM = '''
import warnings; warnings.simplefilter('ignore')
import pandas as pd
from biogeme.database import Database
from biogeme.expressions import *
from biogeme.exceptions import BiogemeError
db = Database('d', pd.DataFrame({'x': [1.0, 2.0], 'y': [0.0, 1.0]}))
hosts = {'Plus': lambda a, b: a + b, 'Power': lambda a, b: a ** b, 'Less': lambda a, b: a < b,
         'bioMultSum': lambda a, b: bioMultSum([Numeric(1), a, Numeric(2), b]), 'Elem': lambda a, b: Elem({0: a, 1: b}, Numeric(0)),
         'exp': lambda a, b: exp(a) + log(b), 'logit': lambda a, b: LogLogit({1: a, 2: b}, None, Numeric(1)),
         'MonteCarlo': lambda a, b: MonteCarlo(a * b * bioDraws('d', 'NORMAL')), 'Integrate': lambda a, b: Integrate(a * b * RandomVariable('w'), 'w'),
         'ConditionalSum': lambda a, b: ConditionalSum([ConditionalTermTuple(condition=a, term=b)])}
def outcome(formula):
    try:
        formula.prepare(db, 10); return 'accepted'
    except BiogemeError:
        return 'BiogemeError'
    except Exception as e:
        return type(e).__name__
wrong = []
for name, mk in hosts.items():
    got = (outcome(mk(Variable('x'), Variable('y'))), outcome(mk(Variable('nope'), Variable('y'))), outcome(mk(Variable('x'), Variable('nope'))))
    if got != ('accepted', 'BiogemeError', 'BiogemeError'):
        wrong.append((name, got))
violated = bool(wrong)
detail = f'hosts where an absent column below an operand is not refused with BiogemeError (or a valid formula is refused): {wrong}'
'''

# propagation: abstract contract of the virtual method (induction hypothesis) and the base body per family
_ONLY = "c12_field_only_set_to('id_manager', id_manager)"      # (m5) no node receives another manager than the one handed down
_MOD = ['*.id_manager', '*.elementaryIndex', '*.variableId', '*.drawId', '*.rvId', '*.betaId']
contract(BASE + 'set_id_manager', 'C12', verify=False, types=IDT, modifies=_MOD,
         raises={'BiogemeError': 'sim_raises(self, id_manager)'},
         ensures={'stored': 'same(self.id_manager, id_manager)', 'only_this_manager': _ONLY},
         label='Expression.set_id_manager(abstract)',
         note='induction hypothesis: whether handing an id manager down a sub-formula is refused; only identifier fields change')
for fam in FAMILIES:
    contract(BASE + 'set_id_manager', 'C12', self_class=fam, exact_self=False, label=f'Expression.set_id_manager@{fam}',
             types=IDT, modifies=_MOD,
             requires={'wf_node': 'len(self.children) >= 0'},
             raises={'BiogemeError': 'exists(lambda k: sim_raises(self.children[k], id_manager), 0, len(self.children))'},
             ensures={'stored': 'same(self.id_manager, id_manager)', 'only_this_manager': _ONLY}, replay=REPLAY_SIM,
             invariants={1: {'clauses': {'none_refused_so_far': 'forall(lambda q: not sim_raises(self.children[q], id_manager), 0, _k)',
                                         'stored': 'same(self.id_manager, id_manager)', 'only_this_manager': _ONLY,
                                         'lists_unchanged': 'c12_old_objects_unchanged()'}}})

# catalogs (m5, round 3): the propagation goes to the selected member, and is refused iff that member refuses it
from contracts.c12_audit import SEL
contract(B + 'multiple_expressions.MultipleExpression.set_id_manager', 'C12', exact_self=False, types=IDT, modifies=_MOD,
         raises={'BiogemeError': f'sim_raises({SEL}, id_manager)'},
         ensures={'stored': 'same(self.id_manager, id_manager)', 'only_this_manager': _ONLY},
         replay=REPLAY_SIM.replace("hosts = {", "from biogeme.catalog import Catalog\nhosts = {'catalog': lambda a, b: Catalog.from_dict('c', {'one': a * b, 'two': Numeric(0)}),\n         "
                                   "'catalog under exp': lambda a, b: exp(Catalog.from_dict('c', {'one': a - b, 'two': Numeric(0)})), "))

# ---------------------------------------------------------------------------------------------
# IdManager.__init__: variables without a database
contract(BASE + 'set_of_elementary_expression', 'C12', verify=False, pure=True, returns='set[str]', types={'the_type': 'Any'},
         ensures={'value': 'c12_set_is(result, names_of_type(self, the_type))'},
         label='Expression.set_of_elementary_expression(abstract)',
         note='the names of the elementary expressions of one type in a formula (deterministic, no side effect)')
contract(IDM + 'prepare', 'C12', verify=False,
         modifies=['self.free_betas', 'self.bounds', 'self.number_of_free_betas', 'self.fixed_betas', 'self.random_variables',
                   'self.draws', 'self.variables', 'self.elementary_expressions', 'self.free_betas_values',
                   'self.fixed_betas_values', '*.theDraws', '*.typesOfDraws', '*.number_of_draws'],
         raises={'BiogemeError': 'numbering_fails(self.expressions, self.database)'}, ensures={'prepared': WF('self')},
         label='IdManager.prepare(assumed)',
         note='numbering of the names (its own refusals, e.g. one name for two kinds of element, are covered by the bounded harness)')
_VARS = "names_of_type(self.expressions[q], TypeOfElementaryExpression.VARIABLE)"
_NEEDS = "exists(lambda q: expressions[q].embed_expression('MonteCarlo') or expressions[q].embed_expression('bioDraws'), 0, LIM)"
field_type('IdManager', 'requires_draws', 'bool')
contract(IDM + '__init__', 'C12',
         types={'expressions': 'list[Expression]', 'database': 'Database | None', 'number_of_draws': 'int'},
         check_frame=False,
         raises={'BiogemeError': f"(database is None and exists(lambda q: c12_nonempty(names_of_type(expressions[q], TypeOfElementaryExpression.VARIABLE)), 0, len(expressions)))"
                                 " or numbering_fails(expressions, database)"},
         ensures={'stored': 'same(self.database, database) and seq_eq(self.expressions, expressions)',
                  'prepared': WF('self'),      # (m5) every id manager that exists has been prepared
                  # (m5, round 3) draws are asked for IFF some formula holds a MonteCarlo operator or a draw, wherever it sits
                  'draws_required_iff_some_formula_has_draws': 'self.requires_draws == ' + _NEEDS.replace('LIM', 'len(expressions)')},
         invariants={1: {'clauses': {
             'draws_required_so_far': 'self.requires_draws == ' + _NEEDS.replace('LIM', '_k').replace('expressions[q]', 'self.expressions[q]'),
             'no_variable_so_far': f"implies(database is None, forall(lambda q: not c12_nonempty({_VARS}), 0, _k))",
             'stored': 'same(self.database, database) and seq_eq(self.expressions, old(expressions)) and self.expressions is not expressions',
             'argument_unchanged': 'c12_old_objects_unchanged()'}}},
         replay='''
import warnings; warnings.simplefilter('ignore')
import pandas as pd
from biogeme.database import Database
from biogeme.expressions import *
from biogeme.expressions.idmanager import IdManager
from biogeme.exceptions import BiogemeError
db = Database('d', pd.DataFrame({'x': [1.0, 2.0]}))
b = Beta('b', 0, None, None, 0)
def outcome(formulas, database):
    try:
        IdManager(formulas, database, 0); return 'accepted'
    except BiogemeError:
        return 'BiogemeError'
    except Exception as e:
        return type(e).__name__
got = {'variable, no database': outcome([b * 2, exp(b * Variable('x'))], None),
       'variable deep, no database': outcome([bioMultSum([b, Numeric(1), -log(Variable('x') + 1)])], None),
       'no variable, no database': outcome([b * 2, exp(b)], None),
       'variable, database': outcome([b * Variable('x')], db)}
violated = got != {'variable, no database': 'BiogemeError', 'variable deep, no database': 'BiogemeError',
                   'no variable, no database': 'accepted', 'variable, database': 'accepted'}
detail = f'{got}'
''')

# ---------------------------------------------------------------------------------------------
# dict_of_formulas
DF = 'biogeme.dict_of_formulas.'
contract(DF + 'check_validity', 'C12', types={'dict_of_formulas': 'dict[str, Any]'}, modifies=[],
         raises={'BiogemeError': 'exists(lambda q: not isinstance(dict_of_formulas[keys_of(dict_of_formulas)[q]], Expression), 0, len(dict_of_formulas))'},
         ensures={'t': 'True'},
         invariants={1: {'clauses': {'all_expressions_so_far':
                                     'forall(lambda q: isinstance(dict_of_formulas[keys_of(dict_of_formulas)[q]], Expression), 0, _k)'}}},
         replay='''
import warnings; warnings.simplefilter('ignore')
from biogeme.dict_of_formulas import check_validity
from biogeme.expressions import Numeric, Beta
from biogeme.exceptions import BiogemeError
def outcome(d):
    try:
        check_validity(d); return 'accepted'
    except BiogemeError:
        return 'BiogemeError'
    except Exception as e:
        return type(e).__name__
got = {'all expressions': outcome({'log_like': Numeric(1), 'weight': Beta('b', 0, None, None, 0)}), 'empty': outcome({}),
       'a number last': outcome({'log_like': Numeric(1), 'w': 2.0}), 'a string first': outcome({'a': 'x', 'log_like': Numeric(1)})}
violated = got != {'all expressions': 'accepted', 'empty': 'accepted', 'a number last': 'BiogemeError', 'a string first': 'BiogemeError'}
detail = f'{got}'
''')

_KW = 'valid_keywords'
_D = 'dict_of_formulas'
_TWO = f'exists(lambda a: exists(lambda b: a < b and {_KW}[a] in {_D} and {_KW}[b] in {_D}, 0, LIM), 0, LIM)'
contract(DF + 'get_expression', 'C12', types={_D: 'dict[str, Expression]', _KW: 'list[str]'}, modifies=[],
         returns='Expression | None',
         raises={'BiogemeError': _TWO.replace('LIM', f'len({_KW})')},
         ensures={'none_iff_no_keyword_present': f'(result is None) == forall(lambda q: {_KW}[q] not in {_D}, 0, len({_KW}))',
                  'formula_of_the_keyword_present': f'forall(lambda q: implies({_KW}[q] in {_D}, result is {_D}[{_KW}[q]]), 0, len({_KW}))'},
         invariants={1: {'clauses': {
             'at_most_one_so_far': 'not ' + _TWO.replace('LIM', '_k'),
             'found_iff_present': f'(found_name is None) == forall(lambda q: {_KW}[q] not in {_D}, 0, _k)',
             'found_is_a_present_keyword': f"implies(found_name is not None, typed(found_name, 'str') in {_D} and "
                                           f"exists(lambda q: {_KW}[q] == typed(found_name, 'str'), 0, _k))"}}},
         replay='''
import warnings; warnings.simplefilter('ignore')
from biogeme.dict_of_formulas import get_expression
from biogeme.expressions import Numeric
from biogeme.exceptions import BiogemeError
a, b = Numeric(1), Numeric(2)
def outcome(d, kws):
    try:
        r = get_expression(d, kws)
        return 'None' if r is None else ('a' if r is a else ('b' if r is b else 'other'))
    except BiogemeError:
        return 'BiogemeError'
    except Exception as e:
        return type(e).__name__
got = {'first': outcome({'log_like': a, 'w': b}, ['log_like', 'loglike']), 'second': outcome({'x': a, 'loglike': b}, ['log_like', 'loglike']),
       'both': outcome({'log_like': a, 'loglike': b}, ['log_like', 'loglike']), 'none': outcome({'x': a}, ['log_like', 'loglike']),
       'both of three': outcome({'k1': a, 'k3': b}, ['k1', 'k2', 'k3'])}
violated = got != {'first': 'a', 'second': 'b', 'both': 'BiogemeError', 'none': 'None', 'both of three': 'BiogemeError'}
detail = f'{got}'
''')

# ---------------------------------------------------------------------------------------------
# get_value_and_derivatives: the placement rules and "second derivatives need first ones" guard the evaluation.
# Receiver: an arbitrary formula (every call on self goes through the abstract contract of the virtual method).
contract(BASE + 'prepare', 'C12', verify=False, types={'database': 'Database | None', 'number_of_draws': 'int'},
         modifies=['*.id_manager', '*.elementaryIndex', '*.variableId', '*.drawId', '*.rvId', '*.betaId',
                   '*.theDraws', '*.typesOfDraws', '*.number_of_draws'],
         raises={'BiogemeError': 'prepare_refuses(self, database, number_of_draws)'},
         ensures={'has_ids': 'self.id_manager is not None', 'prepared': WF('self.id_manager')},
         label='Expression.prepare(assumed)', note='builds the identifiers (IdManager.__init__ and the propagation are under contract separately)')
_OUT_KINDS = ('isinstance(result, BiogemeFunctionOutputSmartOutputProxy) or '
              'isinstance(result, BiogemeDisaggregateFunctionOutputSmartOutputProxy)')
contract('biogeme.expressions.calculator.calculate_function_and_derivatives', 'C12', verify=False, modifies=[],
         raises={'BiogemeError': 'engine_refuses(the_expression, database)'}, returns='Any',
         ensures={'one_of_the_two_output_kinds': _OUT_KINDS},      # (m5) backed by C12:static:calculator-returns-output-proxies
         label='calculate_function_and_derivatives(assumed)', note='ENGINE: the compiled evaluation (C01/C02); may refuse with BiogemeError')
for _cls in ('NamedBiogemeFunctionOutput', 'NamedBiogemeDisaggregateFunctionOutput'):
    contract(f'biogeme.function_output.{_cls}.__init__', 'C12', verify=False, modifies=[], ensures={'t': 'True'},
             label=f'{_cls}.__init__(assumed)', note='wraps the engine output with names (C02)')

_FAULT = ("aud_nerr(self, database) > 0 or c12_nonempty(draws_out(self)) or c12_nonempty(rv_out(self)) "
          "or (database is not None and database.is_panel() and self.embed_expression('PanelLikelihoodTrajectory') and c12_nonempty(vars_out(self))) "
          "or ((hessian or bhhh) and not gradient) "
          "or (database is None and c12_nonempty(names_of_type(self, TypeOfElementaryExpression.VARIABLE)))")
_OTHER = ("(prepare_ids and prepare_refuses(self, database, number_of_draws)) or (not prepare_ids and self.id_manager is None) "
          "or aud_raises(self, database) or engine_refuses(self, database) "
          "or (prepare_ids and sim_raises(self, self.id_manager))")
contract(BASE + 'get_value_and_derivatives', 'C12',
         types={'betas': 'dict[str, float] | None', 'database': 'Database | None', 'number_of_draws': 'int', 'gradient': 'bool',
                'hessian': 'bool', 'bhhh': 'bool', 'aggregation': 'bool', 'prepare_ids': 'bool', 'named_results': 'bool'},
         returns='Any', check_frame=False,
         # (m5, round 3) check_safe=False removed: the implicit None / key checks are obligations again, under the class invariant
         # of id managers (every IdManager is prepared by its constructor: ensures `prepared` of IdManager.__init__)
         requires={'prepared_manager': 'implies(self.id_manager is not None, ' + WF('self.id_manager') + ')'},
         # (m5, round 3) BOTH directions: refused IFF one of the faults of the property, or one of the assumed callees
         # (numbering of the names, propagation of the identifiers, compiled engine) refuses.  "No false rejection":
         # without a fault and without a refusal of those callees a value is returned.
         raises={'BiogemeError': f'({_FAULT}) or ({_OTHER})'},
         ensures={'a_value_only_without_fault': f'not ({_FAULT})', 'a_value_is_returned': 'result is not None'},
         replay='''
import warnings; warnings.simplefilter('ignore')
import subprocess, sys, json
CASES = {
 'draws outside': "(Variable('x') * bioDraws('d', 'NORMAL'), flat, {})",
 'draws outside deep': "(exp(Beta('b', 0, None, None, 0) + log(1 + bioDraws('d', 'UNIFORM'))), flat, {})",
 'random variable outside': "(Variable('x') + RandomVariable('w'), flat, {})",
 'variable outside trajectory': "(Variable('x') + PanelLikelihoodTrajectory(Variable('y')), panel, {})",
 'hessian without gradient': "(Variable('x') * Beta('b', 1, None, None, 0), flat, dict(gradient=False, hessian=True, bhhh=False))",
 'bhhh without gradient': "(Variable('x') * Beta('b', 1, None, None, 0), flat, dict(gradient=False, hessian=False, bhhh=True))",
 'absent column': "(exp(Variable('x')) < Variable('nope'), flat, {})",
 'monte carlo without draws': "(MonteCarlo(Variable('x')), flat, {})",
 'valid': "(MonteCarlo(Variable('x') * bioDraws('d', 'NORMAL')) + Integrate(RandomVariable('w') * 0, 'w'), flat, {})",
 'valid no derivatives': "(Variable('x') * Beta('b', 1, None, None, 0), flat, dict(gradient=False, hessian=False, bhhh=False))",
}
PROG = """
import warnings; warnings.simplefilter('ignore')
import pandas as pd, sys
from biogeme.database import Database
from biogeme.expressions import *
from biogeme.exceptions import BiogemeError
flat = Database('flat', pd.DataFrame({'x': [1.0, 2.0], 'y': [0.0, 1.0], 'id': [1, 1]}))
panel = Database('panel', pd.DataFrame({'x': [1.0, 2.0], 'y': [0.0, 1.0], 'id': [1, 1]})); panel.panel('id')
f, db, kw = %s
try:
    f.get_value_and_derivatives(database=db, prepare_ids=True, number_of_draws=5, **kw); print('value')
except BiogemeError:
    print('BiogemeError')
except Exception as e:
    print(type(e).__name__)
"""
got = {}
for name, src in CASES.items():     # one process per case: the engine keeps a sticky error state
    r = subprocess.run([sys.executable, '-c', PROG % src], capture_output=True, text=True)
    got[name] = (r.stdout.strip().splitlines() or ['crash'])[-1]
want = {k: ('value' if k.startswith('valid') else 'BiogemeError') for k in CASES}
violated = got != want
detail = f'{got}'
''')

# create_function: the same "second derivatives need first ones" rule guards the construction of the callable
contract(BASE + 'get_status_id_manager', 'C12', verify=False, pure=True, returns='tuple[list[str], list[str]]',
         ensures={'t': 'True'}, label='Expression.get_status_id_manager(abstract)',
         note='names of the elementary expressions with / without identifiers (deterministic, no side effect)')
_ST = 'self.get_status_id_manager()'
contract(BASE + 'create_function', 'C12',
         types={'database': 'Database | None', 'number_of_draws': 'int', 'gradient': 'bool', 'hessian': 'bool', 'bhhh': 'bool'},
         returns='Any', check_frame=False, may_raise=['BiogemeError'],
         ensures={'a_function_only_with_consistent_derivatives': 'not ((hessian or bhhh) and not gradient)',
                  # (m5, round 3) identifiers defined for some elements only are refused; otherwise the formula has identifiers on return
                  # (status on entry: the two collections get_status_id_manager returns before anything is built)
                  'no_partial_identifiers': f'not (old(len({_ST}[1])) > 0 and old(len({_ST}[0])) > 0)',
                  'identifiers_built_when_missing': f'implies(old(len({_ST}[1])) > 0, self.id_manager is not None)',
                  'identifiers_kept_when_complete': f'implies(old(len({_ST}[1])) == 0, same(self.id_manager, old(self.id_manager)))',
                  'a_function_is_returned': 'result is not None'},
         replay='''
import warnings; warnings.simplefilter('ignore')
import pandas as pd
from biogeme.database import Database
from biogeme.expressions import Variable, Beta
from biogeme.exceptions import BiogemeError
db = Database('d', pd.DataFrame({'x': [1.0, 2.0]}))
def outcome(**kw):
    try:
        (Variable('x') * Beta('b', 1, None, None, 0)).create_function(database=db, number_of_draws=5, **kw); return 'function'
    except BiogemeError:
        return 'BiogemeError'
    except Exception as e:
        return type(e).__name__
got = {'hessian only': outcome(gradient=False, hessian=True, bhhh=False), 'bhhh only': outcome(gradient=False, hessian=False, bhhh=True),
       'both': outcome(gradient=False, hessian=True, bhhh=True), 'all': outcome(gradient=True, hessian=True, bhhh=True),
       'none': outcome(gradient=False, hessian=False, bhhh=False)}
violated = got != {'hessian only': 'BiogemeError', 'bhhh only': 'BiogemeError', 'both': 'BiogemeError', 'all': 'function', 'none': 'function'}
detail = f'{got}'
''')
