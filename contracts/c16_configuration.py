"""Contracts for biogeme.configuration (C16).

Strings are atoms in the engine (split/join are uninterpreted), so the identifier round trip
`from_string(get_string_id(c)) == c` and its independence of the listing order are decided by the bounded
native check (bounded/c16_native.py: identifier_cases); what is proved here for all inputs is the part of the
class invariant they rest on: a Configuration never lists a controller twice.
"""
from pyvc.contract import contract, field_type
from pyvc.libext import c16_modconst

c16_modconst.install()

C = 'biogeme.configuration.Configuration.'
field_type('Configuration', '__selections', 'list[biogeme.configuration.SelectionTuple]')
field_type('SelectionTuple', 'controller', 'str')
field_type('SelectionTuple', 'selection', 'str')

_S = 'self.__selections'
_DUP = (f"exists(lambda a: exists(lambda b: a < b and {_S}[a].controller == {_S}[b].controller, 0, len({_S})), "
        f"0, len({_S}))")

_REPLAY_ID = """
import sys
sys.path.insert(0, '/verif/bounded')
import c16_native
n, bad = c16_native.identifier_cases(seed=0)
violated = bool(bad)
detail = f'{n} identifier cases; first mismatch: {bad[0] if bad else None}'
"""

contract(C + '__check_list_validity', 'C16',
         raises={'BiogemeError': _DUP},
         ensures={'duplicate_free': f"forall(lambda a: forall(lambda b: implies(a != b, {_S}[a].controller != {_S}[b].controller), "
                                    f"0, len({_S})), 0, len({_S}))"},
         invariants={1: {'clauses': {
             'seen': f"forall(lambda x: (x in unique_items) == exists(lambda q: {_S}[q].controller == x, 0, _k), ty='str')",
             'distinct_so_far': f"forall(lambda a: forall(lambda b: implies(a != b, {_S}[a].controller != {_S}[b].controller), "
                                f"0, _k), 0, _k)",
         }}},
         replay=_REPLAY_ID)

contract(C + 'get_selection', 'C16',
         types={'controller_name': 'str'},
         ensures={
             'found': f"forall(lambda q: implies({_S}[q].controller == controller_name and "
                      f"forall(lambda p: {_S}[p].controller != controller_name, 0, q), result == {_S}[q].selection), 0, len({_S}))",
             'absent': f"implies(forall(lambda q: {_S}[q].controller != controller_name, 0, len({_S})), result is None)",
         },
         invariants={1: {'clauses': {
             'not_before': f"forall(lambda q: {_S}[q].controller != controller_name, 0, _k)",
         }}},
         replay=_REPLAY_ID)
