"""Contracts for biogeme.expressions.idmanager (C03, C01, C02)."""
from pyvc.contract import contract, field_type

Q = 'biogeme.expressions.idmanager.'

contract(Q + 'expressions_names_indices', ['C03', 'C01', 'C02'],
         types={'dict_of_elements': 'dict[str, Any]'},
         returns='ElementsTuple',
         ensures={
             'same_dict': 'result.expressions is dict_of_elements',
             'count': 'len(result.names) == len(dict_of_elements)',
             'names_are_keys': 'forall(lambda q: result.names[q] in dict_of_elements, 0, len(result.names))',
             'keys_are_names': "forall(lambda x: implies(x in dict_of_elements, exists(lambda q: result.names[q] == x, 0, len(result.names))), ty='str')",
             'sorted_strict': 'forall(lambda a: forall(lambda b: implies(a < b, result.names[a] < result.names[b]), 0, len(result.names)), 0, len(result.names))',
             'index_of_name': 'forall(lambda q: result.indices[result.names[q]] == q, 0, len(result.names))',
             'dom_indices': "forall(lambda x: (x in result.indices) == (x in dict_of_elements), ty='str')",
             'order_of_indices': 'seq_eq(keys_of(result.indices), result.names)',
         },
         invariants={1: {'clauses': {
             'done': 'forall(lambda q: indices[names[q]] == q, 0, _k)',
             'dom': "forall(lambda x: (x in indices) == exists(lambda q: names[q] == x, 0, _k), ty='str')",
             'order': 'len(indices) == _k and forall(lambda q: keys_of(indices)[q] == names[q], 0, _k)',
         }}})
field_type('ElementsTuple', 'names', 'list[str]')
field_type('ElementsTuple', 'indices', 'dict[str, int] | None')
field_type('ElementsTuple', 'expressions', 'dict[str, Any] | None')

# ---------------------------------------------------------------------------------------
# assumed abstract contract of the virtual collection method (proved per class under C12)
contract('biogeme.expressions.base_expressions.Expression.dict_of_elementary_expression', ['C03', 'C01', 'C02'],
         verify=False, returns='dict[str, Any]', ensures={'fresh_dict': 'True'},
         note='abstract contract: returns a name -> elementary expression dictionary, no side effect')
contract('biogeme.database.Database.generate_draws', ['C03', 'C01', 'C02'], verify=False,
         modifies=['*.theDraws', '*.typesOfDraws', '*.number_of_draws'], ensures={'t': 'True'},
         note='assumed: touches only the draws of the database')

field_type('IdManager', 'database', 'Database | None')
field_type('IdManager', 'free_betas', 'ElementsTuple')
field_type('IdManager', 'fixed_betas', 'ElementsTuple')
field_type('IdManager', 'random_variables', 'ElementsTuple')
field_type('IdManager', 'draws', 'ElementsTuple')
field_type('IdManager', 'variables', 'ElementsTuple')
field_type('IdManager', 'elementary_expressions', 'ElementsTuple')
field_type('IdManager', 'expressions', 'list[Expression]')
field_type('IdManager', 'bounds', 'list[Any]')
field_type('IdManager', 'free_betas_values', 'list[float]')
field_type('IdManager', 'fixed_betas_values', 'list[float]')
field_type('Database', 'data', 'DataFrame')
field_type('Beta', 'initValue', 'float')
field_type('Beta', 'lb', 'float | None')
field_type('Beta', 'ub', 'float | None')


def _tuple_clauses(fld):
    return {
        f'{fld}_sorted': f'forall(lambda a: forall(lambda b: implies(a < b, self.{fld}.names[a] < self.{fld}.names[b]), 0, len(self.{fld}.names)), 0, len(self.{fld}.names))',
        f'{fld}_index_of_name': f'forall(lambda q: self.{fld}.indices[self.{fld}.names[q]] == q, 0, len(self.{fld}.names))',
        f'{fld}_names_are_keys': f'forall(lambda q: self.{fld}.names[q] in self.{fld}.expressions, 0, len(self.{fld}.names))',
    }


contract(Q + 'IdManager.prepare', ['C03x'],
         requires={'exprs': 'forall(lambda q: self.expressions[q] is not None, 0, len(self.expressions))'},
         modifies=['self.free_betas', 'self.bounds', 'self.number_of_free_betas', 'self.fixed_betas',
                   'self.random_variables', 'self.draws', 'self.variables', 'self.elementary_expressions',
                   'self.free_betas_values', 'self.fixed_betas_values',
                   '*.theDraws', '*.typesOfDraws', '*.number_of_draws'],
         may_raise=['BiogemeError'],
         ensures={
             **_tuple_clauses('free_betas'), **_tuple_clauses('fixed_betas'),
             'n_free': 'self.number_of_free_betas == len(self.free_betas.names)',
             'bounds_len': 'len(self.bounds) == len(self.free_betas.names)',
             'bounds_by_name': "forall(lambda q: same(self.bounds[q], (typed(self.free_betas.expressions[self.free_betas.names[q]], 'biogeme.expressions.beta_parameters.Beta').lb, "
                               "typed(self.free_betas.expressions[self.free_betas.names[q]], 'biogeme.expressions.beta_parameters.Beta').ub)), 0, len(self.free_betas.names))",
             'free_values_by_name': "len(self.free_betas_values) == len(self.free_betas.names) and forall(lambda q: self.free_betas_values[q] == "
                                    "typed(self.free_betas.expressions[self.free_betas.names[q]], 'biogeme.expressions.beta_parameters.Beta').initValue, 0, len(self.free_betas.names))",
             'fixed_values_by_name': "len(self.fixed_betas_values) == len(self.fixed_betas.names) and forall(lambda q: self.fixed_betas_values[q] == "
                                     "typed(self.fixed_betas.expressions[self.fixed_betas.names[q]], 'biogeme.expressions.beta_parameters.Beta').initValue, 0, len(self.fixed_betas.names))",
             'blocks': 'seq_eq(self.elementary_expressions.names, self.free_betas.names + self.fixed_betas.names + '
                       'self.random_variables.names + self.draws.names + self.variables.names)',
             'elementary_index': 'forall(lambda q: self.elementary_expressions.indices[self.elementary_expressions.names[q]] == q, '
                                 '0, len(self.elementary_expressions.names))',
             'no_duplicate': 'forall(lambda a: forall(lambda b: implies(a != b, self.elementary_expressions.names[a] != self.elementary_expressions.names[b]), '
                             '0, len(self.elementary_expressions.names)), 0, len(self.elementary_expressions.names))',
         })
