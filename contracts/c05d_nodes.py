"""C05 (round 3, agent c05d): the power nodes the cross-nested builders create.

The verified contracts of contracts/c17d_nodes.py for PowerConstant.get_value / PowerConstant.__init__ / Expression.__pow__
(three branches: number -> PowerConstant, Numeric node -> PowerConstant, other expression -> Power) are RE-TAGGED for C05
(re-discharged in the C05 run on the real bodies), and two clauses are ADDED to registered contracts (both are proof
obligations on the real bodies, nothing is assumed):
  * Expression.__pow__  `numeric_node_exponent_by_value`: the Numeric-node branch stated over c05c_val(other) (the value of
    the exponent node) instead of the field other.value, so that callers need not know the class of the exponent;
  * Expression.__truediv__ / __rsub__ / __sub__ / __mul__ `not_a_numeric_node`: the node built is not a Numeric node (the
    exponent (1 - mu) / mu of the cross-nested term therefore takes the Power branch of __pow__, whose value at base 0
    differs from PowerConstant's).
"""
from pyvc.contract import REGISTRY
from pyvc.libext import c05d_ext

import contracts.c05c_nodes as N      # noqa: F401
import contracts.c17d_nodes as N17

c05d_ext.ENABLED = True

P = 'C05'
B = N.B

POW = B + 'base_expressions.Expression.__pow__'
RETAG = [B + 'unary_expressions.PowerConstant.get_value', B + 'unary_expressions.PowerConstant.__init__', POW]
for _k in RETAG:
    _c = REGISTRY.contracts[_k]
    if P not in _c.props:
        _c.props.append(P)

_NUMV = "c05c_val(typed(other, 'Numeric'))"
REGISTRY.contracts[POW].ensures.setdefault(
    'numeric_node_exponent_by_value',
    f"implies(isinstance(other, Numeric) and (is_int({_NUMV}) or c05c_val(self) >= 0), "
    f"c05c_val(result) == {N17.powc('c05c_val(self)', _NUMV)})")
for _op in ('__truediv__', '__rsub__', '__sub__', '__mul__'):
    REGISTRY.contracts[B + 'base_expressions.Expression.' + _op].ensures.setdefault(
        'not_a_numeric_node', 'not isinstance(result, Numeric)')
