"""C18 static obligation: ghost sorts Key (alternative label) vs Index (position 0..n-1).

Sidecar sort declarations for biogeme.mdcev + a flow-insensitive sort inference over the REAL AST
(pyvc.repo, no import of biogeme).  Every comparison, membership test, subscript and keyword
argument in which one side is known to be a Key and the other a position (or a container of the
other sort) is a violation.  Declarations (the only trusted input):

  fields      self.outside_good_key: Key      self.outside_good_index: Index
              self.key_to_index: Key -> Index  self.index_to_key: Index -> Key   self.alternatives: set[Key]
              self.baseline_utilities / gamma_parameters / alpha_parameters / prices / mu_utilities: Key -> .
  parameters  the_id, alt_id, alternative_id, candidate_alternative: Key
              chosen_alternatives: set[Key];   epsilon, consumptions: Index -> .
"""
from __future__ import annotations

import ast

KEY, INDEX = 'Key', 'Index'
SORTED, OTHER = 'SortedKeys', 'OtherOrder'      # positions of a list that is NOT ordered like index_to_key

FIELD_SORT = {'outside_good_key': KEY, 'outside_good_index': INDEX}
# containers: (sort of the subscript / of the members, sort of the stored values)
FIELD_CONT = {
    'key_to_index': (KEY, INDEX), 'index_to_key': (INDEX, KEY), 'alternatives': (KEY, KEY),
    'baseline_utilities': (KEY, None), 'gamma_parameters': (KEY, None), 'alpha_parameters': (KEY, None),
    'prices': (KEY, None), 'mu_utilities': (KEY, None),
}
PARAM_SORT = {'the_id': KEY, 'alt_id': KEY, 'alternative_id': KEY, 'candidate_alternative': KEY}
PARAM_CONT = {'chosen_alternatives': (KEY, KEY), 'epsilon': (INDEX, None), 'consumptions': (INDEX, None)}
RETURNS_KEYED = {'forecast_bruteforce_one_draw', 'forecast_bisection_one_draw', 'optimal_consumption'}   # dict[Key, float]
COUNT_NAMES = {'number_of_alternatives'}       # range(<this>) enumerates positions
MODULES = ['biogeme.mdcev.mdcev', 'biogeme.mdcev.gamma_profile', 'biogeme.mdcev.translated',
           'biogeme.mdcev.generalized', 'biogeme.mdcev.non_monotonic']


class FuncSorts:
    def __init__(self, fn: ast.FunctionDef, file: str):
        self.fn, self.file = fn, file
        self.sort: dict[str, str] = {}
        self.cont: dict[str, tuple] = {}
        self.checked = 0
        self.violations: list[dict] = []
        for a in fn.args.args + fn.args.kwonlyargs:
            if a.arg in PARAM_SORT:
                self.sort[a.arg] = PARAM_SORT[a.arg]
            if a.arg in PARAM_CONT:
                self.cont[a.arg] = PARAM_CONT[a.arg]

    # -- sorts of expressions -------------------------------------------------------------
    def s(self, e) -> str | None:
        if isinstance(e, ast.Name):
            return self.sort.get(e.id)
        if isinstance(e, ast.Attribute) and isinstance(e.value, ast.Name) and e.value.id == 'self':
            return FIELD_SORT.get(e.attr)
        if isinstance(e, ast.Subscript):
            c = self.c(e.value)
            return c[1] if c else None
        if isinstance(e, ast.Call) and isinstance(e.func, ast.Name) and e.func.id in ('int', 'float') and e.args:
            return self.s(e.args[0])
        if isinstance(e, ast.IfExp):
            return self.s(e.body) or self.s(e.orelse)
        return None

    def c(self, e) -> tuple | None:
        """(sort of subscripts/members, sort of values) of a container expression."""
        if isinstance(e, ast.Name):
            return self.cont.get(e.id)
        if isinstance(e, ast.Attribute) and isinstance(e.value, ast.Name) and e.value.id == 'self':
            return FIELD_CONT.get(e.attr)
        if isinstance(e, ast.Attribute) and e.attr == 'x':          # scipy result: x is positional like its argument
            return (INDEX, None)
        if isinstance(e, ast.Set):
            ss = {self.s(x) for x in e.elts}
            if len(ss) == 1 and None not in ss:
                k = ss.pop()
                return (k, k)
        if isinstance(e, ast.BinOp) and isinstance(e.op, (ast.BitOr, ast.BitAnd, ast.Sub)):
            return self.c(e.left) or self.c(e.right)
        if isinstance(e, ast.Call):
            f = e.func
            if isinstance(f, ast.Attribute) and f.attr in RETURNS_KEYED:
                return (KEY, None)
            if isinstance(f, ast.Name) and f.id in ('set', 'list', 'sorted', 'tuple') and e.args:
                inner = self.c(e.args[0])
                if inner and f.id == 'set':
                    return (inner[0], inner[0])
                return inner
            if isinstance(f, ast.Attribute) and f.attr in ('array', 'asarray') and e.args:
                return self.c(e.args[0])
        if isinstance(e, ast.IfExp):
            return self.c(e.body) or self.c(e.orelse)
        if isinstance(e, ast.DictComp):
            self.bind_generators(e.generators)
            k = self.s(e.key)
            return (k, self.s(e.value)) if k else None
        if isinstance(e, (ast.ListComp, ast.SetComp)):
            self.bind_generators(e.generators)
            k = self.s(e.elt)
            if k and isinstance(e, ast.SetComp):
                return (k, k)
            if isinstance(e, ast.ListComp) and len(e.generators) == 1 and not e.generators[0].ifs:
                order = self.order_of(e.generators[0].iter)
                if order:
                    return (order, k)               # one element per position of the generator, same order
            return (OTHER, k) if k else None        # a list of keys in some other order: positions are not Index
        return None

    def order_of(self, it) -> str | None:
        """what the positions of `[.. for .. in it]` are: Index (same order as index_to_key) or SortedKeys."""
        srt = self.iter_sorts(it)
        if srt == INDEX:
            return INDEX
        if isinstance(it, ast.Call) and isinstance(it.func, ast.Name):
            if it.func.id == 'sorted' and it.args:
                a = it.args[0]
                base = a.func.value if (isinstance(a, ast.Call) and isinstance(a.func, ast.Attribute)
                                        and a.func.attr in ('items', 'keys')) else a
                cc = self.c(base)
                if cc and cc[0] == KEY:
                    return SORTED
                return None
            if it.func.id == 'enumerate' and it.args:
                return self.order_of(it.args[0])
        cc = self.c(it)
        if cc and cc[0] == INDEX:
            return INDEX
        return None

    def iter_sorts(self, it):
        """sort(s) of the loop target(s) of `for .. in it`: a sort, a tuple of sorts, or None."""
        if isinstance(it, ast.Call):
            f = it.func
            if isinstance(f, ast.Name) and f.id == 'enumerate' and it.args:
                inner = self.c(it.args[0])
                if inner:
                    pos = inner[0] if inner[0] == INDEX else None
                    return (pos, inner[1])
                return None
            if isinstance(f, ast.Name) and f.id == 'range' and len(it.args) == 1:
                a = it.args[0]
                if isinstance(a, ast.Name) and a.id in COUNT_NAMES:
                    return INDEX
                if isinstance(a, ast.Attribute) and a.attr in COUNT_NAMES:
                    return INDEX
                if isinstance(a, ast.Call) and isinstance(a.func, ast.Name) and a.func.id == 'len' and a.args:
                    cc = self.c(a.args[0])
                    if cc and cc[0] in (KEY, INDEX):
                        return INDEX
                return None
            if isinstance(f, ast.Name) and f.id in ('sorted', 'list', 'reversed') and it.args:
                return self.iter_sorts(it.args[0])
            if isinstance(f, ast.Attribute) and f.attr in ('items', 'keys', 'values'):
                cc = self.c(f.value)
                if cc and cc[0] == KEY:
                    return {'items': (KEY, cc[1]), 'keys': KEY, 'values': cc[1]}[f.attr]
                return None
        cc = self.c(it)
        if cc:
            return KEY if cc[0] == KEY else cc[1]      # dict / set of keys: its keys; list: its elements
        return None

    def bind(self, target, srt):
        if srt is None:
            return
        if isinstance(target, ast.Name) and isinstance(srt, str):
            self.sort.setdefault(target.id, srt)
        elif isinstance(target, (ast.Tuple, ast.List)) and isinstance(srt, tuple):
            for t, s_ in zip(target.elts, srt):
                self.bind(t, s_)

    def bind_generators(self, gens):
        for g in gens:
            self.bind(g.target, self.iter_sorts(g.iter))

    def infer(self):
        for _ in range(3):
            for n in ast.walk(self.fn):
                if isinstance(n, ast.For):
                    self.bind(n.target, self.iter_sorts(n.iter))
                elif isinstance(n, (ast.ListComp, ast.SetComp, ast.DictComp, ast.GeneratorExp)):
                    self.bind_generators(n.generators)
                elif isinstance(n, ast.Assign) and len(n.targets) == 1 and isinstance(n.targets[0], ast.Name):
                    self._assign(n.targets[0].id, n.value)
                elif isinstance(n, ast.AnnAssign) and isinstance(n.target, ast.Name) and n.value is not None:
                    self._assign(n.target.id, n.value)
                elif isinstance(n, ast.AugAssign) and isinstance(n.target, ast.Name):
                    cc = self.c(n.value)
                    if cc:
                        self.cont.setdefault(n.target.id, cc)

    def _assign(self, name, value):
        k = self.s(value)
        if k:
            self.sort.setdefault(name, k)
        cc = self.c(value)
        if cc:
            self.cont.setdefault(name, cc)
        if isinstance(value, ast.Constant) and value.value is None:
            return

    # -- checks ----------------------------------------------------------------------------
    def flag(self, node, what):
        self.violations.append({'file': self.file, 'line': node.lineno, 'function': self.fn.name,
                                'what': what, 'code': ast.unparse(node)[:120]})

    def check(self):
        for n in ast.walk(self.fn):
            if isinstance(n, ast.Compare):
                left = n.left
                for op, right in zip(n.ops, n.comparators):
                    if isinstance(op, (ast.In, ast.NotIn)):
                        a, cc = self.s(left), self.c(right)
                        if a and cc and cc[0] in (KEY, INDEX):
                            self.checked += 1
                            if a != cc[0]:
                                self.flag(n, f'{a} tested for membership in a container of {cc[0]}')
                    else:
                        a, b = self.s(left), self.s(right)
                        if a and b:
                            self.checked += 1
                            if a != b:
                                self.flag(n, f'{a} compared with {b}')
                    left = right
            elif isinstance(n, ast.Subscript):
                cc, a = self.c(n.value), self.s(n.slice)
                if cc and a and cc[0] in (KEY, INDEX):
                    self.checked += 1
                    if a != cc[0]:
                        self.flag(n, f'container subscripted by {cc[0]} is given a {a}')
            elif isinstance(n, ast.Call):
                for kw in n.keywords:
                    if kw.arg in PARAM_CONT:
                        cc = self.c(kw.value)
                        if cc and cc[0] in (KEY, INDEX, SORTED):
                            self.checked += 1
                            if cc[0] != PARAM_CONT[kw.arg][0]:
                                self.flag(n, f'parameter {kw.arg} is subscripted by {PARAM_CONT[kw.arg][0]} but receives a '
                                             f'container ordered by {cc[0]}')
                    if kw.arg in PARAM_SORT:
                        a = self.s(kw.value)
                        if a:
                            self.checked += 1
                            if a != PARAM_SORT[kw.arg]:
                                self.flag(n, f'parameter {kw.arg}: {PARAM_SORT[kw.arg]} receives a {a}')


def analyse(repo) -> tuple[int, int, list[dict]]:
    """(functions analysed, sort-checked sites, violations) over the mdcev modules of the real source."""
    nfun = checked = 0
    vio: list[dict] = []
    for mod in MODULES:
        mi = repo.modules.get(mod)
        if mi is None:
            continue
        units = [n for n in mi.tree.body if isinstance(n, ast.FunctionDef)]
        for cdef in mi.tree.body:
            if isinstance(cdef, ast.ClassDef):
                units += [n for n in cdef.body if isinstance(n, ast.FunctionDef)]
        for n in units:                   # nested functions are analysed with their parent (shared environment)
            fs = FuncSorts(n, mi.file)
            fs.infer()
            fs.check()
            nfun += 1
            checked += fs.checked
            vio += fs.violations
    return nfun, checked, vio
