"""C12 - invalid specifications are refused with a clear error wherever the fault sits."""
CONTRACT_MODULES = ['c12_audit', 'c12_collectors', 'c12_ownrules', 'c12c_nests', 'c12c_data', 'c12c_biogeme', 'c12c_names']
LEVEL = 'other'
TRUSTED = ['ENGINE-SPEC: the engine raises when it reads the missing-data code (assumed; sampled)',
           'induction scheme: the abstract contracts of the virtual methods audit / check_draws / check_rv / check_panel_trajectory / '
           'embed_expression / count_panel_trajectory_expressions / set_id_manager are the induction hypotheses on sub-formulas '
           '(formulas are finite trees); every implementation is verified against them',
           'assumed tail of LogLogit.audit (numpy checks after its early return): returns normally and only appends to its two lists '
           '(syntactic part: static obligation; numeric content: bounded harness)',
           'assumed callees: IdManager.prepare, Expression.prepare, calculate_function_and_derivatives (compiled engine; round 3: assumed to return one of the two '
           'output proxy classes, backed by the static obligation C12:static:calculator-returns-output-proxies), Named*FunctionOutput.__init__; '
           'round 3: the abstract contract of set_id_manager also says that the receiver stores the manager and that no node receives another manager '
           '(verified for the base body of every family, Variable and catalogs; assumed for the leaves Beta / bioDraws / RandomVariable, whose bodies assign it first)',
           'round 2 (c12c): assumed pandas model of the data audit (df.dtypes.items() enumerates the columns once each in order; np.issubdtype(dtype, np.number) and '
           'df.isnull().values.any() are deterministic predicates; len(df.index) = number of rows); assumed callees Database._generate_headers (no refusal), '
           'Expression.get_value_c (engine; numpy float result), Database.get_sample_size; abstract contract of dict_of_elementary_expression (induction hypothesis); '
           'a tuple of nests of unknown length is modelled as an immutable list; LIBSPEC of set(list) / set algebra / two-level unions / list += / '
           'dict(chain(*items)) as skolemised definitions (pyvc/libext/c12c_*.py)']
ASSUMPTIONS = []
EXPLANATION = ('Deductive part: "wherever the fault sits" as structural induction over the formula tree.  Every implementation of the recursive audit '
               '(base body for every family of node classes, Variable, MonteCarlo, PanelLikelihoodTrajectory, Integrate, BelongsTo, comparison operators, '
               'LogLogit up to its early return, catalogs) is proved to raise iff a child raises, to return the errors of every child and to add exactly '
               'one error per own fault (bi-implication, for all inputs).  The placement collectors (check_draws, check_rv, check_panel_trajectory, '
               'embed_expression, count_panel_trajectory_expressions) are proved to be the union / disjunction / sum over the children, with the blocking '
               'operators returning nothing and the leaves their own name; the propagation of an id manager refuses iff some child does, and a Variable iff its '
               'column is absent; IdManager.__init__, dict_of_formulas.check_validity / get_expression refuse iff fault; get_value_and_derivatives returns a '
               'value only without fault.  Bounded part: fault planting on the real code (every fault kind at every operand position of every operator kind, '
               'each case in its own process, fault-free hosts as control), which also covers what is out of the deductive subset: Database._audit, nests, '
               'BIOGEME._audit, IdManager.prepare (duplicate names), dict_of_elementary_expression, the numeric tail of LogLogit.audit and the missing-data code.  '
               'Round 2 (c12c) moves part of that into the deductive part, for all inputs: nests.py (check_intersection refuses IFF two different nests, ANY pair, share an '
               'alternative; check_union accepts IFF nests and alone cover exactly the choice set; check_partition; the three constructors refuse IFF a nest alternative is '
               'outside the choice set), Database._audit / Database.__init__ (BiogemeError IFF no row, a non-numeric column or a NaN, over an assumed pandas model), '
               'BIOGEME._audit (BiogemeError IFF some formula has an audit error, misplaced draws or a misplaced random variable; every error collected), and '
               'dict_of_elementary_expression for every node class except bioLinearUtility (the names of a kind anywhere in the tree reach the numbering); static obligations '
               'for the duplicate-name guard of IdManager.prepare and the verdict of the cross-nested check_validity.  '
               'Round 3 (m5, mutation-driven): get_value_and_derivatives is a raises-IFF (refused IFF one of the faults of the property, or the assumed numbering / '
               'propagation / engine refuses: no false rejection); the propagation of an id manager stores it on every node it visits and hands no other manager down '
               '(frame), catalogs included (refused IFF the selected member refuses); create_function refuses partially numbered formulas and otherwise leaves the formula '
               'numbered; IdManager.__init__ asks for draws IFF some formula holds a MonteCarlo operator or a draw; Database.__init__ pins the initial state; a body that '
               'returns None instead of its pair / set / dictionary fails its contract (was: out of subset).  The bounded harness gained the warning-only specifications '
               '(chosen alternative unavailable, chained comparison, non-integer BelongsTo set, trajectory under MonteCarlo without database).')
LEVEL_TEXT = ('Proof obligations for the audit descent, the placement collectors and the small own rules (all inputs); bounded fault enumeration on the real '
              'code for the entry points and the data / nest / missing-data faults; not a proof of the whole property.  Round 2: the nest audits, the data audit (assumed pandas '
              'model), BIOGEME._audit and the name collection are proof obligations too; the duplicate-name rule is a static obligation + bounded.')
LEVEL_NOTE = 'Trusted: the induction scheme (abstract contracts on sub-formulas), the assumed tail of LogLogit.audit, the expected-outcome table of the bounded harness.'
TECHNIQUE = 'deductive verification of the recursive audit / collectors (structural induction through abstract contracts) + bounded fault planting on the real code'
DESIGN_REF = 'DESIGN.md section 3 / C12'

RECURSIVE = ['audit', 'check_draws', 'check_rv', 'check_panel_trajectory', 'embed_expression',
             'count_panel_trajectory_expressions', 'set_id_manager']
BASE = 'biogeme.expressions.base_expressions.Expression.'


def static_dispatch():
    """Every node class is covered: a class that inherits the base body of a recursive method belongs to a family (or has
    its own variant) for which that body was verified, and every override has its own contract."""
    import time
    from pyvc.contract import REGISTRY
    from pyvc.driver import Extra
    from pyvc.repo import get_repo
    t0 = time.time()
    repo = get_repo()
    missing = []
    n = 0
    for meth in RECURSIVE:
        base = repo.function(BASE + meth)
        variants = {k.split('@')[1]: c for k, c in REGISTRY.contracts.items() if k.startswith(BASE + meth + '@')}
        for c in repo.subclasses('Expression'):
            fi = repo.resolve_method(c.name, meth, c.module)
            n += 1
            if fi is None:
                missing.append(f'{c.name}.{meth}: not resolved')
            elif fi is base:
                if c.name == 'Expression':
                    continue        # the abstract root itself is never instantiated with children of its own kind
                ok = any((v == c.name) or (not con.exact_self and repo.is_subclass(c.name, v)) for v, con in variants.items())
                if not ok:
                    missing.append(f'{c.name} inherits Expression.{meth} but no verified variant covers it')
            else:
                con = REGISTRY.contracts.get(fi.qualname)
                if con is None or not con.verify or 'C12' not in con.props:
                    # set_id_manager of the other leaves only stores indices (no refusal): listed, not required
                    # (round 3: the catalogs' propagation now has a verified contract: refused iff the selected member refuses)
                    if meth == 'set_id_manager' and fi.cls in ('Beta', 'bioDraws', 'RandomVariable'):
                        continue
                    missing.append(f'override {fi.qualname} has no verified C12 contract')
    return Extra('C12:static:every-node-class-covered', 'static', 'failed' if missing else 'discharged', 'ast-static',
                 round(time.time() - t0, 3),
                 f'{n} (class, method) pairs resolved over {len(RECURSIVE)} recursive methods; uncovered: {missing[:6]}',
                 {'uncovered': missing} if missing else None)


def static_logit_tail():
    """Syntactic part of the assumed tail of LogLogit.audit: after the cut, the two lists are never rebound, the only
    method called on them is append, and every return gives back (list_of_errors, list_of_warnings)."""
    import ast
    import time
    from pyvc.driver import Extra
    from pyvc.libext.c12_ext import CUTS
    from pyvc.repo import get_repo
    t0 = time.time()
    q = 'biogeme.expressions.logit_expressions.LogLogit.audit'
    fi = get_repo().function(q)
    cut = CUTS[q]
    bad = []
    if fi is None:
        bad.append('function not found')
        body = []
    else:
        body = fi.node.body
    idx = [i for i, s in enumerate(body) if ast.unparse(s).startswith(cut['anchor'])]
    if len(idx) != 1:
        bad.append(f"cut anchor `{cut['anchor']}` found {len(idx)} times")
        tail = []
    else:
        tail = body[idx[0]:]
        # the statement before the cut is the early return guarded by the errors / misplaced draws / random variables
        prev = body[idx[0] - 1]
        if not (isinstance(prev, ast.If) and prev.body and isinstance(prev.body[-1], ast.Return)):
            bad.append('the statement before the cut is not the early return')
    names = set(cut['grows'])
    for s in tail:
        for n in ast.walk(s):
            if isinstance(n, ast.Name) and n.id in names and isinstance(n.ctx, (ast.Store, ast.Del)):
                bad.append(f'line {n.lineno}: {n.id} is rebound in the tail')
            if isinstance(n, ast.AugAssign) and isinstance(n.target, ast.Name) and n.target.id in names:
                pass        # += extends in place: still only grows
            if isinstance(n, ast.Attribute) and isinstance(n.value, ast.Name) and n.value.id in names and n.attr not in ('append', 'extend'):
                bad.append(f'line {n.lineno}: {n.value.id}.{n.attr} in the tail')
            if isinstance(n, ast.Subscript) and isinstance(n.value, ast.Name) and n.value.id in names and isinstance(n.ctx, (ast.Store, ast.Del)):
                bad.append(f'line {n.lineno}: item assignment on {n.value.id} in the tail')
            if isinstance(n, ast.Return):
                want = ', '.join(cut['returns'])
                got = ast.unparse(n.value) if n.value is not None else ''
                if got.strip('()') != want:
                    bad.append(f'line {n.lineno}: returns `{got}` instead of `{want}`')
    if tail and not isinstance(tail[-1], ast.Return):
        bad.append('the body does not end with a return')
    return Extra('C12:static:LogLogit.audit-tail-only-appends', 'static', 'failed' if bad else 'discharged', 'ast-static',
                 round(time.time() - t0, 3), f'{len(tail)} tail statements inspected; {bad[:5]}', {'problems': bad} if bad else None)


OUTPUT_PROXIES = ('BiogemeFunctionOutputSmartOutputProxy', 'BiogemeDisaggregateFunctionOutputSmartOutputProxy')
REPLAYS = {'C12:static:calculator-returns-output-proxies': '''
import warnings; warnings.simplefilter('ignore')
import pandas as pd
from biogeme.database import Database
from biogeme.expressions import Variable, Beta
from biogeme.exceptions import BiogemeError
db = Database('d', pd.DataFrame({'x': [1.0, 2.0]}))
got = {}
for agg in (True, False):
    for named in (True, False):
        try:
            r = (Variable('x') * Beta('b', 1, None, None, 0)).get_value_and_derivatives(database=db, prepare_ids=True, aggregation=agg, named_results=named)
            got[(agg, named)] = type(r).__name__
        except BiogemeError as e:
            got[(agg, named)] = 'BiogemeError: ' + str(e)[:60]
violated = any(v.startswith('BiogemeError') for v in got.values())
detail = f'(aggregation, named_results) -> outcome on a fault-free formula: {got}'
'''}


def static_calculator_returns():
    """Backs the assumed contract of calculator.calculate_function_and_derivatives used by the raises-IFF of
    get_value_and_derivatives (round 3): every value it returns is built by one of the two output proxy classes, which are
    the kinds get_value_and_derivatives accepts (its `Unknown type` refusal is then unreachable).  An unrecognised shape is
    reported `unknown` with a native replay, never `failed`."""
    import ast
    import time
    from pyvc.driver import Extra
    from pyvc.repo import get_repo
    t0 = time.time()
    name = 'C12:static:calculator-returns-output-proxies'
    fi = get_repo().function('biogeme.expressions.calculator.calculate_function_and_derivatives')
    if fi is None:
        return Extra(name, 'static', 'unknown', 'ast-static', round(time.time() - t0, 3), 'function not found')
    odd, n = [], 0
    stack = list(fi.node.body)
    while stack:           # returns of this function only (not of nested functions)
        x = stack.pop()
        if isinstance(x, (ast.FunctionDef, ast.AsyncFunctionDef, ast.Lambda, ast.ClassDef)):
            continue
        if isinstance(x, ast.Return):
            n += 1
            v = x.value
            if not (isinstance(v, ast.Call) and isinstance(v.func, ast.Name) and v.func.id in OUTPUT_PROXIES):
                odd.append(f'line {x.lineno}: returns `{ast.unparse(v) if v is not None else None}`')
        stack.extend(ast.iter_child_nodes(x))
    gv = get_repo().function('biogeme.expressions.base_expressions.Expression.get_value_and_derivatives')
    accepted = {a.id for t in ast.walk(gv.node) if isinstance(t, ast.Call) and isinstance(t.func, ast.Name) and t.func.id == 'isinstance'
                and len(t.args) == 2 for a in [t.args[1]] if isinstance(a, ast.Name)} if gv is not None else set()
    for c in OUTPUT_PROXIES:
        if c not in accepted:
            odd.append(f'get_value_and_derivatives has no isinstance test for {c}')
    status = 'discharged' if (n > 0 and not odd) else 'unknown'
    return Extra(name, 'static', status, 'ast-static', round(time.time() - t0, 3),
                 f'{n} return statements inspected; not recognised: {odd[:4]}', {'not_recognised': odd} if odd else None)


def extra(tier, seed):
    from pyvc.bounded import run_native
    out = [static_dispatch(), static_logit_tail(), static_calculator_returns()]
    from specs import c12c_static       # round 2 (agent c12c)
    out += [c12c_static.names_dispatch(), c12c_static.cnl_validity(), c12c_static.duplicate_rule()]
    from specs import c12_raise_static   # faults are reported with an exception, never by `raise <string>`
    out += c12_raise_static.raise_sites()
    out.append(run_native('C12:bounded:fault-planting', 'c12_faults.py', [tier, str(seed)],
                          bound='see the harness bound string: 56 hosts x wrappers x 10 fault kinds x 2 entry points, missing-data cases, data faults, nest faults', timeout=1500))
    return out
