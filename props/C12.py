"""C12 - invalid specifications are refused with a clear error wherever the fault sits."""
CONTRACT_MODULES = []
LEVEL = 'other'
TRUSTED = ['ENGINE-SPEC: the engine raises when it reads the missing-data code (assumed; sampled)']
ASSUMPTIONS = []
EXPLANATION = ('Fault planting on the real code: every fault kind of the statement at every operand position of every operator kind, each case in its own process, '
               'with fault-free hosts as the no-false-rejection control.  Deductive obligations on the audit descent are not built yet; this check is a bounded stand-in.')
LEVEL_TEXT = 'Bounded fault enumeration on the real code (positions x fault kinds x entry points); nothing counted as proved.'
LEVEL_NOTE = 'Trusted: the expected-outcome table written from the property statement.'
TECHNIQUE = 'bounded fault planting on the real code (deductive descent contracts not built)'
DESIGN_REF = 'DESIGN.md section 3 / C12'


def extra(tier, seed):
    from pyvc.bounded import run_native
    return [run_native('C12:bounded:fault-planting', 'c12_faults.py', [tier, str(seed)],
                       bound='see the harness bound string: 56 hosts x wrappers x 10 fault kinds x 2 entry points, missing-data cases, data faults, nest faults', timeout=1500)]
