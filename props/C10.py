"""C10 - simulated and numerical integrals equal the average / integral they denote."""
CONTRACT_MODULES = ['c01_values', 'c01_signatures', 'c03_idmanager', 'c10c_draws']
LEVEL = 'other'
TRUSTED = ['pyvc', 'z3 5.1.0', 'ENGINE-SPEC: MonteCarlo = mean over draws, Integrate = Gauss-Hermite quadrature, Derive = partial derivative (assumed; sampled)',
           'pyvc/libext/c10c_numpy.py: A-NDARRAY-C10 (np.array of equally shaped arrays stacks along a new first axis; np.moveaxis(A, 0, -1) of a 3-d array; '
           'both return new objects) and A-NATIVE-TABLE, sample-tested by bounded/c10c_numpy_axioms.py',
           'contracts/c10c_static.py: syntactic obligations on IdManager.prepare and BIOGEME.__init__ (ast)']
ASSUMPTIONS = ['A-STR-TOK', 'ENGINE-SPEC',
               'A-NDARRAY-C10 A1-A3 (assumed array model, sampled)', 'A-NATIVE-TABLE (the native generator table is one pre-existing dict object; content: C11)',
               'A-CALLABLE: a stored generator is a deterministic, effect-free function of (generator object, sample size, number of draws) -- the random state is not modelled',
               'A-DICT-WF for IdManager.draws.expressions (Optional[dict] field, once None is excluded)',
               'generate_draws / _generate_draws under contract: Database.typesOfDraws is an object of its own (not the draw_types argument, the names list, '
               'the user generator dictionary, the native table or the id manager\'s dictionary); every name handed over has a declared type',
               'set_id_manager under contract: the id manager has been prepared (tables not None, the name is numbered) and satisfies the proved '
               'post-condition of expressions_names_indices (indices[names[q]] == q)']
EXPLANATION = ('Proved: the signature lines of Derive and Integrate carry the index of the element named in the operator (looked up by name in the id manager) and the id of their '
               'argument.  Averaging over draws, quadrature accuracy and differentiation are engine-internal: assumed, sampled by the bounded harness with coded deterministic draws.  '
               'Round 2 (c10c): Database.generate_draws is proved for all inputs (assumed array model): position k of the third axis of the table holds the series of the generator '
               'registered for the type of names[k] (native table first, then user generators), shape (sample size, draws, names), BiogemeError iff a type is unknown or a series is '
               'wrongly shaped, types recorded; IdManager.draw_types, BIOGEME._generate_draws (sorted draw names in id order, declared types, requested number) and '
               'bioDraws/RandomVariable.set_id_manager + get_signature (the id in the signature is the position of the name in that same list) are proved; Database.set_random_number_generators is proved to refuse exactly the reserved (native) names, so a declared type is registered in one table only; the numbering inside '
               'IdManager.prepare, the seeding and the setDraws hand-over in BIOGEME.__init__ and in calculator.calculate_function_and_derivatives are static (ast) obligations.')
LEVEL_TEXT = ('Index hand-over of Derive/Integrate proved; averaging/quadrature/differentiation assumed (external engine) with a bounded stand-in.  '
              'The draws table (variable <-> column <-> signature index, generator per declared type, shape, errors) is proved for all inputs under an assumed, sampled numpy array model.')
LEVEL_NOTE = 'Trusted: pyvc, z3, ENGINE-SPEC; A-NDARRAY-C10 / A-NATIVE-TABLE / A-CALLABLE (pyvc/libext/c10c_numpy.py).'
TECHNIQUE = ('contract-based deductive verification (signature positions; draws table, hand-over and numbering under an assumed numpy array model) '
             '+ static ast obligations + bounded stand-ins (coded draws, closed-form integrals; sample test of the assumed array model)')
DESIGN_REF = 'DESIGN.md section 3 / C10'


try:
    from contracts.c10c_static import CHECKS as _C10C_CHECKS, REPLAY_STATIC as _C10C_REPLAY
    REPLAYS = {name: _C10C_REPLAY for name, _ in _C10C_CHECKS}
except ImportError:      # pragma: no cover  (tools that only read the metadata)
    REPLAYS = {}


def extra(tier, seed):
    from pyvc.bounded import run_native
    from contracts.c10c_static import extras as c10c_static
    return c10c_static(tier, seed) + [
        run_native('C10:bounded:numpy-axioms', 'c10c_numpy_axioms.py', [tier, str(seed)],
                   bound='sample test of the ASSUMED array model: 6 (thorough 55) 2-d shapes x 1,2,3,5 stacked arrays; list repetition; 21 native entries', timeout=300),
        run_native('C10:bounded:integrals', 'c10_integrals.py', [tier, str(seed)],
                       bound='see the harness bound string: 48 MC formulas with 2-3 draw variables of different types, R in {1,2,5}; seeds; 56 Gaussian integrals; 16 Derive cases', timeout=1500)]
