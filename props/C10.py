"""C10 - simulated and numerical integrals equal the average / integral they denote."""
CONTRACT_MODULES = ['c01_values', 'c01_signatures']
LEVEL = 'other'
TRUSTED = ['pyvc', 'z3 5.1.0', 'ENGINE-SPEC: MonteCarlo = mean over draws, Integrate = Gauss-Hermite quadrature, Derive = partial derivative (assumed; sampled)']
ASSUMPTIONS = ['A-STR-TOK', 'ENGINE-SPEC']
EXPLANATION = ('Proved: the signature lines of Derive and Integrate carry the index of the element named in the operator (looked up by name in the id manager) and the id of their '
               'argument.  Averaging over draws, quadrature accuracy and differentiation are engine-internal: assumed, sampled by the bounded harness with coded deterministic draws.')
LEVEL_TEXT = 'Index hand-over of Derive/Integrate proved; averaging/quadrature/differentiation assumed (external engine) with a bounded stand-in.'
LEVEL_NOTE = 'Trusted: pyvc, z3, ENGINE-SPEC.'
TECHNIQUE = 'contract-based deductive verification (signature positions) + bounded stand-in with coded draws and closed-form integrals'
DESIGN_REF = 'DESIGN.md section 3 / C10'


def extra(tier, seed):
    from pyvc.bounded import run_native
    return [run_native('C10:bounded:integrals', 'c10_integrals.py', [tier, str(seed)],
                       bound='see the harness bound string: 48 MC formulas with 2-3 draw variables of different types, R in {1,2,5}; seeds; 56 Gaussian integrals; 16 Derive cases', timeout=1500)]
