"""C19 - sampled choice sets follow the protocol; full sampling equals the full model."""
import time

CONTRACT_MODULES = ['c19_sampling', 'c19_partition']
LEVEL = 'other'
TRUSTED = ['pyvc (VC generator, Python semantics of the stated subset) + libext c19_sets / c19_listrep / c19_modglobal (scoped to C19)',
           'z3 5.1.0 / cvc5',
           'LIBSPEC pandas (pyvc/libext/c19_pandas.py): column selection, masks, filter, copy, column assignment, '
           'sample(n, replace=False) and concat are free constructors with projections; sample returns a fresh table of n '
           'distinct rows of its operand and does not raise; concat(..., ignore_index=b) carries the label renumbered == b '
           '(row labels are the positions 0..n-1 iff b)',
           'LIBSPEC numpy.log: pure uninterpreted function',
           'LIBSPEC set iteration: bijection between members and positions [0, len)',
           'induction principle over the naturals (LEMMA balanced-sum: base and step are discharged by z3)']
ASSUMPTIONS = ['A-REAL: floats are mathematical reals',
               'A-PANDAS-FREE: pandas operations are uninterpreted constructors; the row-level meaning of filter / sample / concat '
               '(n distinct rows of the frame, concatenation in order) is assumed, exercised only by the bounded stand-ins',
               'A-NO-CNL: the contracts on SamplingOfAlternatives cover contexts without cross-nested-logit nests '
               '(cnl_nests is None); the CNL alpha columns are covered by the bounded stand-in full-cnl only',
               'A-COVER: the partition covers the table of alternatives (the chosen alternative belongs to a stratum); '
               'check_partition does not establish it (reported as a remark)',
               'sample_alternatives is verified under strata pairwise disjoint (established by Partition.__init__, proved)']
EXPLANATION = ('Deductive, all inputs: generate_segment_size (closed form of every size, sizes differ by <= 1, length; the sum by '
               'LEMMA balanced-sum), SamplingContext.check_partition (raises BiogemeError iff some stratum is empty, has a requested '
               'size outside 1..n or an unknown id), Partition.__init__/validate_partition/validate_segments (accepted iff the segments '
               'are non-empty, pairwise disjoint and cover the full set), SamplingOfAlternatives.sample_alternatives and '
               'sample_mev_alternatives over an abstract pandas model: for EVERY stratum the frame put into the choice set is '
               'sample(n = requested size, minus one in the stratum of the chosen alternative) of the rows whose id is in the stratum '
               'with the chosen id removed, carries the column _log_proba = log(k) - log(n) with k the requested size (weight n/k in the '
               'second sample), and the result is concat([chosen row with the correction of its stratum, concat(per-stratum frames)]) '
               'with its rows relabelled by position (ignore_index=True on the outer concatenation: process_row names columns by row label). '
               'Static (AST): column naming <col>_<position>, renaming of exactly the alternatives\' attributes by position in the '
               'combined variables and in the utilities, utility_p - _log_proba_p with the chosen at position 0, each sample reads its '
               'own columns.  Lemma (z3): complete sampling makes every correction 0 and every weight 1.  Bounded (real pandas + '
               'engine): protocol of the generated choice sets, combined variables, equality of the sampled and the full-choice-set '
               'log likelihood for logit / nested / cross-nested logit under complete sampling.')
LEVEL_TEXT = ('Mixed: deductive proofs (all inputs) for the integer/set functions and for the call protocol of the two sampling functions '
              'over an uninterpreted pandas; AST-static obligations for naming; bounded native stand-ins (labelled with their bounds, '
              'never counted as proved) for the row-level effect and for the likelihood equality.')
LEVEL_NOTE = ('Trusted: pyvc + the C19 libext modules, z3/cvc5, the assumed pandas/numpy LIBSPEC, floats as reals; bounded stand-ins cover '
              '<= 6 alternatives, <= 3 strata, <= 5 individuals (quick) only.')
TECHNIQUE = 'contract-based deductive verification (AST -> VCs -> z3/cvc5) + AST-static obligations + bounded stand-ins on the real code'
DESIGN_REF = 'DESIGN.md section 3 / C19'

_REPLAY_CNL = """
import sys
import numpy as np
sys.path.insert(0, '/verif/bounded')
import c19_native
n, bad = c19_native.run_full(np.random.default_rng(0), 12, (6, 3, 4), 1, 'cnl')
violated = bool(bad)
detail = f'{n} individuals, complete sampling, cross-nested logit; first mismatch: {bad[0] if bad else None}'
"""
_REPLAY_MODEL = """
import sys
import numpy as np
sys.path.insert(0, '/verif/bounded')
import c19_native
violated, detail = False, ''
for model in ('logit', 'nested', 'cnl'):
    n, bad = c19_native.run_full(np.random.default_rng(0), 10, (6, 3, 4), 1, model)
    if bad:
        violated, detail = True, f'{model}: {bad[0]}'
        break
"""
_REPLAY_ROWS = """
import sys
import numpy as np
sys.path.insert(0, '/verif/bounded')
import c19_native
violated, detail = False, ''
for what in ('protocol', 'combined'):
    n, bad = c19_native.run_protocol(np.random.default_rng(0), 20, (6, 3, 4), 2, what)
    if bad:
        violated, detail = True, f'{what}: {bad[0]}'
        break
"""
# replays of the static obligations (keyed by obligation name)
REPLAYS = {
    'C19:static:process_row:columns-named-col_position': _REPLAY_ROWS,
    'C19:static:define_new_variables:alternative-attributes-renamed-by-position': _REPLAY_ROWS,
    'C19:static:GenerateModel.utilities:attributes-renamed-by-position': _REPLAY_MODEL,
    'C19:static:GenerateModel.get_logit:utility-minus-log-proba-of-same-position': _REPLAY_MODEL,
    'C19:static:GenerateModel.get_nested_logit:utility-minus-log-proba-of-same-position': _REPLAY_MODEL,
    'C19:static:GenerateModel.get_cross_nested_logit:utility-minus-log-proba-of-same-position': _REPLAY_MODEL,
    'C19:static:GenerateModel.get_nested_logit:each-sample-reads-its-own-columns': _REPLAY_MODEL,
    'C19:static:GenerateModel.get_cross_nested_logit:each-sample-reads-its-own-columns': _REPLAY_CNL,
}


def _lemma(name, build):
    """z3 lemma: `build` returns a list of (label, hyps, goal); all must be valid."""
    import z3
    from pyvc.driver import Extra
    t0 = time.time()
    bad = []
    for label, hyps, goal in build(z3):
        s = z3.Solver()
        s.set('timeout', 20000)
        s.add(*hyps)
        s.add(z3.Not(goal))
        r = s.check()
        if r != z3.unsat:
            bad.append((label, str(r), str(s.model()) if r == z3.sat else ''))
    if not bad:
        return Extra(name, 'lemma', 'discharged', f'z3-{z3.get_version_string()}', time.time() - t0)
    status = 'failed' if any(r == 'sat' for _, r, _ in bad) else 'unknown'
    return Extra(name, 'lemma', status, f'z3-{z3.get_version_string()}', time.time() - t0, str(bad)[:600], {'cases': bad[:3]})


def _balanced_sum(z3):
    """sum_{q < n} (b + [q < r]) == n*b + r for 0 <= r <= n, by induction on the prefix length j:
    P(j): S(j) == j*b + min(j, r), with S(0) = 0 and S(j+1) = S(j) + b + [j < r].
    With b = s // n and r = s % n this is s (division identity), i.e. sum(generate_segment_size(s, n)) == s
    given the proved clause `values`."""
    S = z3.Function('S', z3.IntSort(), z3.IntSort())
    j, b, r, n, s = z3.Ints('j b r n s')
    mn = lambda a, c: z3.If(a < c, a, c)
    jb = z3.Int('jb')                      # stands for j*b (kept linear: (j+1)*b == j*b + b)
    rec = S(j + 1) == S(j) + b + z3.If(j < r, 1, 0)
    return [
        ('base', [S(0) == 0, r >= 0], S(0) == 0 * b + mn(0, r)),
        ('step', [j >= 0, r >= 0, rec, S(j) == jb + mn(j, r)], S(j + 1) == (jb + b) + mn(j + 1, r)),
        ('close', [n > 0, s >= 0, b == s / n, r == s % n], z3.And(r >= 0, r < n, n * b + mn(n, r) == s)),
    ]


def _full_sampling(z3):
    """Complete sampling (k == n in every stratum): the proved correction log(k) - log(n) is 0 for ANY function log, the
    proved MEV weight n/k is 1, hence the corrected utility V - 0 is V and weighted MEV terms are the plain terms."""
    L = z3.Function('log', z3.RealSort(), z3.RealSort())
    k, n, V, t = z3.Reals('k n V t')
    return [
        ('correction-zero', [k == n], L(k) - L(n) == 0),
        ('weight-one', [k == n, k > 0], n / k == 1),
        ('corrected-utility', [k == n], V - (L(k) - L(n)) == V),
        ('weighted-term', [k == n, k > 0], (n / k) * t == t),
    ]


def extra(tier, seed):
    from pyvc.bounded import run_native
    from pyvc.driver import Extra
    from pyvc.repo import get_repo
    from specs import c19_static
    out = [_lemma('C19:lemma:balanced-sum', _balanced_sum),
           _lemma('C19:lemma:full-sampling-correction-zero-weight-one', _full_sampling)]
    repo = get_repo()
    for name, (ok, detail) in c19_static.all_checks(repo):
        t0 = time.time()
        out.append(Extra(f'C19:static:{name}', 'static', 'discharged' if ok else 'failed', 'ast-static',
                         time.time() - t0, detail, None if ok else {'detail': detail}))
    quick = tier == 'quick'
    cases, dims, rep = (25, (6, 3, 5), 3) if quick else (200, (12, 4, 10), 4)
    bound = (f'<= {dims[0]} alternatives (non-contiguous ids, shuffled table), <= {dims[1]} strata, <= {dims[2]} individuals, '
             f'{cases} generated contexts x {rep} independent samplings, seed {seed}')
    args = [str(cases), str(seed)] + [str(d) for d in dims] + [str(rep)]
    out.append(run_native('C19:bounded:choice-set-protocol', 'c19_native.py', ['protocol'] + args, bound=bound))
    out.append(run_native('C19:bounded:combined-variables', 'c19_native.py', ['combined'] + args, bound=bound))
    for model in ('logit', 'nested', 'cnl'):
        out.append(run_native(f'C19:bounded:full-sampling-equals-full-model:{model}', 'c19_native.py', [f'full-{model}'] + args,
                              bound=bound + '; every stratum sampled completely; tolerance 1e-9'
                              + ('; every second case prepares another context first on the same table of alternatives (other alphas, same nest names)' if model == 'cnl' else '')))
    return out
