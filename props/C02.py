"""C02 - gradient, Hessian and BHHH returned with a value are its true derivatives."""
import ast
import time

CONTRACT_MODULES = ['c02_outputs', 'c15_iterations', 'c03_idmanager']
LEVEL = 'other'
TRUSTED = ['pyvc', 'z3 5.1.0 / cvc5 1.0.3', 'ENGINE-SPEC: the engine differentiates the formula it was given (assumed; sampled by the bounded harness)']
ASSUMPTIONS = ['A-REAL', 'ENGINE-SPEC derivatives (external compiled engine)',
               'assumed contracts (verify=False): Database.build_panel_map (individual map = panel.map_of(data, panel column) afterwards), Database.get_sample_size, BIOGEME._save_iterations_file_name and report_array (pure)',
               'precondition of calculate_likelihood_and_derivatives: the id manager numbers the free parameters (free_betas.indices is a dict, names as many as number_of_free_betas)']
EXPLANATION = ('That the engine derivatives are the derivatives of the value is engine-internal (assumed, sampled by a bounded finite-difference / closed-form harness). '
               'Proved on the Python side: entry i belongs to the i-th sorted name (numbering), name -> index conversion of named outputs, packaging of single observations, '
               'scaling by the sample size; static obligations: each named field is built from the field of the same name.')
LEVEL_TEXT = 'Python-side plumbing proved deductively; derivative correctness itself is an assumed dependency contract with a bounded stand-in.'
LEVEL_NOTE = 'Trusted: pyvc, z3/cvc5, ENGINE-SPEC; bounded harness bounds are reported in the evidence.'
TECHNIQUE = 'contract-based deductive verification + static AST obligations + bounded finite-difference/closed-form stand-in'
DESIGN_REF = 'DESIGN.md section 3 / C02'

REPLAYS = {'*': """
import subprocess, sys, json
r = subprocess.run([sys.executable, '/verif/bounded/c02_outputs_native.py'], capture_output=True, text=True)
d = json.loads(r.stdout.strip().splitlines()[-1])
violated = bool(d['failures'])
detail = str(d['failures'][:2])
""",
           'C02:static:calculate_likelihood_and_derivatives:output-arrays-allocated-by-this-call': """
import subprocess, sys
r = subprocess.run([sys.executable, '/verif/bounded/c02_sequences.py'], capture_output=True, text=True)
violated = r.returncode == 1
detail = (r.stdout + r.stderr)[-1500:]
"""}


def static_named_outputs():
    """Each self.X of the Named*Output classes is None iff function_output.X is None and is
    built only from function_output.X, converted with `mapping`."""
    from pyvc.driver import Extra
    from pyvc.repo import get_repo
    repo = get_repo()
    out = []
    plural = {'functions', 'gradients', 'hessians', 'bhhhs'}
    for cls in ('NamedFunctionOutput', 'NamedBiogemeFunctionOutput', 'NamedBiogemeDisaggregateFunctionOutput'):
        t0 = time.time()
        ci = repo.find_class(cls)
        init = ci.methods.get('__init__') if ci else None
        if init is None:
            out.append(Extra(f'C02:static:named-output:{cls}', 'static', 'unknown', 'ast-static', 0.0, 'class or __init__ not found'))
            continue
        for st_ in ast.walk(init.node):
            tgt = None
            if isinstance(st_, ast.AnnAssign):
                tgt, val = st_.target, st_.value
            elif isinstance(st_, ast.Assign) and len(st_.targets) == 1:
                tgt, val = st_.targets[0], st_.value
            if not (isinstance(tgt, ast.Attribute) and isinstance(tgt.value, ast.Name) and tgt.value.id == 'self'):
                continue
            x = tgt.attr
            if x.lstrip('_') in ('mapping', 'function_output') or val is None:
                continue
            used = {n.attr for n in ast.walk(val) if isinstance(n, ast.Attribute) and isinstance(n.value, ast.Name) and n.value.id == 'function_output'}
            maps = [c for c in ast.walk(val) if isinstance(c, ast.Call) and isinstance(c.func, ast.Name) and c.func.id == 'convert_to_dict']
            bad_map = [ast.unparse(c) for c in maps if not (len(c.args) == 2 and isinstance(c.args[1], ast.Name) and c.args[1].id == 'mapping')]
            ok = used == {x} and not bad_map
            detail = '' if ok else f'self.{x} is built from function_output.{sorted(used)} (expected only .{x}); bad mapping calls: {bad_map}'
            out.append(Extra(f'C02:static:named-output:{cls}.{x}', 'static', 'discharged' if ok else 'failed', 'ast-static',
                             round(time.time() - t0, 4), detail, {'class': cls, 'field': x, 'reads': sorted(used)}))
    return out


def static_fresh_workspaces(prop='C02'):
    """Ownership obligation: the arrays handed to the engine to receive the gradient, the Hessian and the BHHH matrix are
    allocated by THIS call (`np.empty(...)`, unconditionally, last assignment before the engine call), so the outputs of two
    calls never share storage (the engine returns the arrays it was given; np.asarray does not copy)."""
    from pyvc.driver import Extra
    from pyvc.repo import get_repo
    t0 = time.time()
    name = f'{prop}:static:calculate_likelihood_and_derivatives:output-arrays-allocated-by-this-call'
    ci = get_repo().find_class('BIOGEME')
    fi = ci.methods.get('calculate_likelihood_and_derivatives') if ci else None
    if fi is None:
        return [Extra(name, 'static', 'unknown', 'ast-static', 0.0, 'function not found')]
    body = fi.node.body
    call_idx, call = None, None
    for i, st_ in enumerate(body):
        for c in ast.walk(st_):
            if isinstance(c, ast.Call) and isinstance(c.func, ast.Attribute) and c.func.attr == 'calculateLikelihoodAndDerivatives' \
                    and ast.unparse(c.func.value) == 'self.theC':
                call_idx, call = i, c
                break
        if call is not None:
            break
    if call is None or len(call.args) < 6:
        return [Extra(name, 'static', 'unknown', 'ast-static', 0.0, 'engine call not found at the top level of the function')]
    problems = []
    for a in call.args[3:6]:
        if not isinstance(a, ast.Name):
            problems.append(f'argument {ast.unparse(a)} is not a local name')
            continue
        last = None
        for st_ in body[:call_idx]:
            # any binding of the name inside a compound statement is conditional: not accepted
            for sub in ast.walk(st_):
                if isinstance(sub, (ast.Name,)) and sub.id == a.id and isinstance(sub.ctx, ast.Store):
                    last = st_
        ok = (isinstance(last, ast.Assign) and len(last.targets) == 1 and isinstance(last.targets[0], ast.Name)
              and isinstance(last.value, ast.Call) and ast.unparse(last.value.func) in ('np.empty', 'np.zeros', 'numpy.empty', 'numpy.zeros'))
        if not ok:
            problems.append(f'{a.id} is not bound by an unconditional `{a.id} = np.empty(...)` before the engine call '
                            f'(last binding: {ast.unparse(last)[:80] if last is not None else None})')
    ok = not problems
    # another way of allocating is not a defect by itself: `unknown`, decided by the replay (histories of calls on one object)
    return [Extra(name, 'static', 'discharged' if ok else 'unknown', 'ast-static', round(time.time() - t0, 4),
                  'g, h, bh are fresh arrays of this call' if ok else '; '.join(problems), None if ok else {'problems': problems})]


# round 3 (m1): replay of the static obligation `locals-assigned-before-use` of the two entry points = the flag-combination harness
for _f in ('calculate_likelihood', 'calculate_likelihood_and_derivatives'):
    REPLAYS[f'C02:static:biogeme.BIOGEME.{_f}:locals-assigned-before-use'] = """
import subprocess, sys, json
r = subprocess.run([sys.executable, '/verif/bounded/m1_entrypoints.py'], capture_output=True, text=True, cwd='/tmp')
d = json.loads(r.stdout.strip().splitlines()[-1])
violated = bool(d['failures'])
detail = str([(f.get('check'), f.get('case'), f.get('got')) for f in d['failures'][:3]])
"""


def static_named_mapping():
    """Every construction of a Named*Output takes its name -> index mapping from the numbering of the id manager the engine
    used (`<...>.id_manager.free_betas.indices` / `self.free_betas.indices`), not from a numbering computed locally."""
    from pyvc.driver import Extra
    from pyvc.repo import get_repo
    t0 = time.time()
    repo = get_repo()
    sites, odd = 0, []
    for mname, mi in repo.modules.items():
        if mname.endswith('function_output'):
            continue
        for c in ast.walk(mi.tree):
            if isinstance(c, ast.Call) and ast.unparse(c.func).split('.')[-1] in ('NamedBiogemeFunctionOutput', 'NamedBiogemeDisaggregateFunctionOutput'):
                sites += 1
                m = next((k.value for k in c.keywords if k.arg == 'mapping'), c.args[1] if len(c.args) > 1 else None)
                txt = ast.unparse(m) if m is not None else ''
                if not txt.endswith('free_betas.indices'):
                    odd.append(f'{mi.file}:{c.lineno}: mapping={txt[:60]}')
    name = 'C02:static:named-outputs:mapping-is-the-numbering-of-the-id-manager'
    if sites == 0:
        return [Extra(name, 'static', 'unknown', 'ast-static', 0.0, 'no construction of a named output found')]
    # another expression is not a defect by itself: unknown, decided by the replay (named outputs under a shared numbering)
    return [Extra(name, 'static', 'discharged' if not odd else 'unknown', 'ast-static', round(time.time() - t0, 4),
                  f'{sites} constructions inspected' + ('' if not odd else '; not recognised: ' + '; '.join(odd[:3])), {'sites': odd} if odd else None)]


def extra(tier, seed):
    from pyvc.bounded import run_native
    from contracts import m1_static
    out = static_named_outputs() + static_fresh_workspaces() + static_named_mapping() + m1_static.extras('C02')
    out.append(run_native('C02:bounded:entry-points', 'm1_entrypoints.py', [], bound='1 cross-sectional model (2 free parameters, 4 rows) x scaled x hessian x bhhh x save_iterations; wrong lengths 0/1/3 -> ValueError; batch -> BiogemeError; 1 panel model (2 individuals) whose individual map is made stale after construction; debug logging on'))
    out.append(run_native('C02:bounded:outputs-native', 'c02_outputs_native.py', [],
                          bound='unique_entry for K in 1..3 incl. zero gradients; named outputs under 3 name->index maps; named outputs of an auxiliary formula sharing the numbering of a BIOGEME object (aggregated and per observation)'))
    out.append(run_native('C02:bounded:output-histories', 'c02_sequences.py', [],
                          bound='binary logit, 12 rows: all orders of 3 evaluation points x scaled/unscaled; every kept output re-checked against closed forms'))
    out.append(run_native('C02:bounded:derivatives', 'c02_derivatives.py', [tier, str(seed)],
                          bound='see the harness bound string: formulas with 1-4 free parameters, closed forms, forward AD and Richardson differences', timeout=1500))
    return out
