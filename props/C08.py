"""C08 - reported statistics obey their defining formulas."""
import os as _os
import sys as _sys

# thorough tier: get_general_statistics also on results objects with Monte-Carlo draws (several seconds per clause)
_THOROUGH = _os.environ.get('VERIF_TIER') == 'thorough' or any(a in ('thorough', '--tier=thorough') for a in _sys.argv)
CONTRACT_MODULES = ['results', 'c08_lrtest', 'c08_tables'] + (['c08_tables_mc'] if _THOROUGH else [])
LEVEL = 'proof'
TRUSTED = ['pyvc (VC generator, Python semantics of the stated subset)', 'z3 5.1.0',
           'LIBSPEC: numpy/scipy members are pure uninterpreted functions (incl. scipy.stats.chi2.ppf)',
           'static label->quantity analysis of the pandas table builders (specs/c08_static.py): pandas semantics of '
           '`frame.loc[row] = Series(dict)`, `frame.loc[row, column] = v`, `frame.at[row, column] = v` (a cell holds the value stored under its labels)',
           'assumed contract: bioResults.number_of_free_parameters is pure (compared natively in bounded/c08_tables.py)']
ASSUMPTIONS = ['A-REAL: floats are mathematical reals']
EXPLANATION = ('Contracts on the real functions of results.py and tools/likelihood_ratio.py; every obligation regenerated from the current AST. '
               'Tabular views: get_general_statistics is proved label by label (results objects without Monte-Carlo draws in the quick tier, all in the thorough tier); the pandas-based views (get_estimated_parameters, '
               'get_correlation_results, get_*_var_covar, compile_estimation_results, compile_results_in_directory) and the pairwise record of '
               '_calculate_stats are decided by one static obligation per label (AST dataflow label -> quantity) and, independently, by bounded '
               'stand-ins that compare every cell of every table with the raw fields on the real code.')
REPLAYS = {'*': '''
# replay of a static / assumed obligation of C08: every cell of the view against the raw fields, on the real code
import sys, warnings, logging
warnings.simplefilter('ignore')
logging.disable(logging.CRITICAL)
sys.path.insert(0, '/verif/bounded')
import c08_tables, c08_native
ob = payload.get('obligation', '')
match = ''
if ':compile_estimation_results:' in ob:
    n, bad = c08_tables.run_compiled(cases=3, seed=0, directory='directory' in ob)
    for key, m in (('unformatted:(std)', 'unformatted:(std)'), ('unformatted:(ttest)', 'unformatted:(ttest)'), ('unformatted:value', 'unformatted:value'),
                   ('formatted:', 'compile:formatted'), ('statistics-row', 'compile:statistic'), ('directory', '')):
        if key in ob:
            match = m
            break
elif ':_calculate_stats:' in ob:
    n, bad = c08_native.run(cases=24, seed=0)
    bad = [{'check': 'secondOrderTable', 'case': b} for b in bad]
else:
    n, bad = c08_tables.run_views(cases=8, seed=0)
    for key, m in (('get_general_statistics', 'general_statistics'), ('get_estimated_parameters', 'estimated_parameters'), ('get_correlation_results', 'correlation_results'),
                   ('get_var_covar', 'get_var_covar'), ('get_robust_var_covar', 'get_robust_var_covar'),
                   ('get_bootstrap_var_covar', 'get_bootstrap_var_covar')):
        if ':' + key + ':' in ob:
            match = m
bad = [f for f in bad if match in str(f.get('check'))]
violated = bool(bad)
detail = f'{n} cells compared with the raw fields; first mismatch: {bad[0] if bad else None}'
'''}
LEVEL_TEXT = ('Deductive proof per function against sidecar contracts: every obligation (post, frame, safety, loop invariant) is generated '
              'from the current AST of results.py / tools/likelihood_ratio.py and discharged by z3 for all inputs; numpy/scipy routines are '
              'uninterpreted, so what is proved is which formula is applied to which input in each family. The pandas-based tables are decided by '
              'static obligations over the real AST (one per label: the cell expression is the quantity the label names), which hold for all inputs '
              'given the trusted pandas cell semantics; bounded stand-ins re-check every cell natively and are never counted as proved.')
LEVEL_NOTE = ('Trusted: pyvc and its Python semantics, z3; LIBSPEC (numpy/scipy members pure and uninterpreted); floats as reals (A-REAL); '
              'pandas cell-store semantics for the static table obligations.')
TECHNIQUE = 'contract-based deductive verification (AST -> VCs -> z3/cvc5) + AST label->quantity analysis + bounded stand-ins on the real code'
DESIGN_REF = 'DESIGN.md section 3 / C08'


def extra(tier, seed):
    import time
    from pyvc.bounded import run_native
    from pyvc.driver import Extra
    from pyvc.repo import get_repo
    from specs import c08_static
    cases = 12 if tier == 'quick' else 200
    out = [run_native('C08:bounded:native-recomputation', 'c08_native.py', [str(cases), str(seed)],
                      bound=f'{cases} generated raw outcomes, K in 1..4, with/without null likelihood and bootstrap, singular Hessians')]
    # tabular views: one static obligation per label (label -> quantity on the real AST)
    t0 = time.time()
    checks = c08_static.all_checks(get_repo())
    dt = round((time.time() - t0) / max(1, len(checks)), 4)
    for name, status, detail, _group in checks:
        out.append(Extra(f'C08:static:{name}', 'static', status, 'ast-static', dt, detail,
                         None if status == 'discharged' else {'detail': detail}))
    # round 3 (m1): every local bound before it is read (incl. reads in dropped logger calls / exception messages)
    from contracts import m1_static
    out += m1_static.extras('C08')
    # ... and every cell of every table against the raw fields, natively
    quick = tier == 'quick'
    nv, nc, nl = (8, 3, 6) if quick else (60, 24, 100)
    out.append(run_native('C08:bounded:tabular-views', 'c08_tables.py', ['views', str(nv), str(seed)],
                          bound=f'{nv} generated results objects x (sentinel fields, computed fields), K in 1..4, with/without bootstrap, null '
                                'likelihood, active bounds, Monte-Carlo rows: every cell of get_estimated_parameters (only_robust True/False), '
                                'get_correlation_results (all / subsets), get_general_statistics (+ printed form), get_var_covar / robust / bootstrap'))
    out.append(run_native('C08:bounded:compiled-tables', 'c08_tables.py', ['compiled', str(nc), str(seed)],
                          bound=f'{nc} triples of models (K in 1..3, different parameter sets) x 16 combinations of formatted / include_robust_stderr / '
                                'include_robust_ttest / use_short_names, two statistics lists; compile_results_in_directory on 2 pickled models x 6 combinations'))
    out.append(run_native('C08:bounded:likelihood-ratio-test', 'c08_tables.py', ['lrtest', str(nl), str(seed)],
                          bound=f'4 fixed + {nl} random pairs (L in -500..-50, K in 1..14) x both argument orders x 3 significance levels, function and '
                                'bioResults method, against scipy chi2; ties in L or K excluded (decided deductively)'))
    return out
