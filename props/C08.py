"""C08 - reported statistics obey their defining formulas."""
CONTRACT_MODULES = ['results']
LEVEL = 'proof'
TRUSTED = ['pyvc (VC generator, Python semantics of the stated subset)', 'z3 5.1.0',
           'LIBSPEC: numpy/scipy members are pure uninterpreted functions']
ASSUMPTIONS = ['A-REAL: floats are mathematical reals']
EXPLANATION = 'Contracts on the real functions of results.py; every obligation regenerated from the current AST.'
REPLAYS = {}
LEVEL_TEXT = ('Deductive proof per function against sidecar contracts: every obligation (post, frame, safety, loop invariant) is generated '
              'from the current AST of results.py and discharged by z3 for all inputs; numpy/scipy routines are uninterpreted, so what is proved '
              'is which formula is applied to which input in each family.')
LEVEL_NOTE = 'Trusted: pyvc and its Python semantics, z3; LIBSPEC (numpy/scipy members pure and uninterpreted); floats as reals (A-REAL).'
TECHNIQUE = 'contract-based deductive verification (AST -> VCs -> z3/cvc5)'
DESIGN_REF = 'DESIGN.md section 3 / C08'


def extra(tier, seed):
    from pyvc.bounded import run_native
    cases = 12 if tier == 'quick' else 200
    return [run_native('C08:bounded:native-recomputation', 'c08_native.py', [str(cases), str(seed)],
                       bound=f'{cases} generated raw outcomes, K in 1..4, with/without null likelihood and bootstrap, singular Hessians')]
