"""C04 - the sample log likelihood is the weighted sum of per-observation values."""
CONTRACT_MODULES = ['c02_outputs', 'c15_iterations']
LEVEL = 'other'
TRUSTED = ['pyvc', 'z3 5.1.0 / cvc5 1.0.3', 'ENGINE-SPEC: weighted sum over observations, thread- and order-independent (assumed; sampled)']
ASSUMPTIONS = ['A-REAL', 'concurrency inside the compiled engine is outside this family: assumed, sampled by the bounded harness']
EXPLANATION = ('Proved: calculate_likelihood returns the engine value divided by the sample size iff scaled, refuses wrong vector lengths, and hands the '
               'engine the free vector and the fixed-parameter vector of the id manager.  The summation itself and its independence of threads, row '
               'order and partition are properties of the compiled multi-threaded engine: assumed, sampled by the bounded harness.')
LEVEL_TEXT = 'Scaling and hand-over proved deductively; summation/thread/order independence assumed (external engine) with a bounded stand-in.'
LEVEL_NOTE = 'Trusted: pyvc, z3/cvc5, ENGINE-SPEC.'
TECHNIQUE = 'contract-based deductive verification + bounded aggregation stand-in (threads, permutations, partitions)'
DESIGN_REF = 'DESIGN.md section 3 / C04'


def extra(tier, seed):
    from pyvc.bounded import run_native
    return [run_native('C04:bounded:aggregation', 'c04_aggregation.py', [tier, str(seed)],
                       bound='see the harness bound string: logit/regression scenarios, weights incl. zeros, threads 1/2/3/7/N+3, all permutations of <= 4 rows, partitions', timeout=1500)]
