"""C04 - the sample log likelihood is the weighted sum of per-observation values."""
CONTRACT_MODULES = ['c02_outputs', 'c15_iterations']
LEVEL = 'other'
TRUSTED = ['pyvc', 'z3 5.1.0 / cvc5 1.0.3', 'ENGINE-SPEC: weighted sum over observations, thread- and order-independent (assumed; sampled)']
ASSUMPTIONS = ['A-REAL', 'concurrency inside the compiled engine is outside this family: assumed, sampled by the bounded harness',
               'assumed contract (verify=False) Database.build_panel_map: afterwards the individual map is panel.map_of(data, panel column) (uninterpreted; what the map is belongs to C09)',
               'assumed contract (verify=False) Database.get_sample_size: a function of the database object (C09)']
EXPLANATION = ('Proved: calculate_likelihood returns the engine value divided by the sample size iff scaled, refuses wrong vector lengths, and hands the '
               'engine the free vector and the fixed-parameter vector of the id manager; an empty sample is refused with BiogemeError (no implicit ZeroDivisionError: safe:div is an obligation, check_safe=False removed in round 3); for panel data the individual map is rebuilt from the data the database holds now (Database.is_panel proved from its body).  Static: every local of the two entry points is bound before it is read, including the reads inside dropped logger calls (contracts/m1_static.py); bounded: every flag combination of the two entry points returns / raises what the contract says (bounded/m1_entrypoints.py).  The summation itself and its independence of threads, row '
               'order and partition are properties of the compiled multi-threaded engine: assumed, sampled by the bounded harness.')
LEVEL_TEXT = 'Scaling and hand-over proved deductively; summation/thread/order independence assumed (external engine) with a bounded stand-in.'
LEVEL_NOTE = 'Trusted: pyvc, z3/cvc5, ENGINE-SPEC.'
TECHNIQUE = 'contract-based deductive verification + bounded aggregation stand-in (threads, permutations, partitions)'
DESIGN_REF = 'DESIGN.md section 3 / C04'


# round 3 (m1): replay of the static obligation `locals-assigned-before-use` of the two entry points = the flag-combination harness
_ENTRY_REPLAY = """
import subprocess, sys, json
r = subprocess.run([sys.executable, '/verif/bounded/m1_entrypoints.py'], capture_output=True, text=True, cwd='/tmp')
d = json.loads(r.stdout.strip().splitlines()[-1])
violated = bool(d['failures'])
detail = str([(f.get('check'), f.get('case'), f.get('got')) for f in d['failures'][:3]])
"""
REPLAYS = {f'C04:static:biogeme.BIOGEME.{f}:locals-assigned-before-use': _ENTRY_REPLAY for f in ('calculate_likelihood', 'calculate_likelihood_and_derivatives')}
REPLAYS['*'] = _ENTRY_REPLAY


def extra(tier, seed):
    from pyvc.bounded import run_native
    from contracts import m1_static
    return m1_static.extras('C04') + [
            run_native('C04:bounded:entry-points', 'm1_entrypoints.py', [], bound='1 cross-sectional model (2 free parameters, 4 rows) x scaled x hessian x bhhh x save_iterations; wrong lengths 0/1/3 -> ValueError; batch -> BiogemeError; 1 panel model (2 individuals) whose individual map is made stale after construction; debug logging on'),
            run_native('C04:bounded:likelihood-after-simulation-on-the-same-object', 'c04_history.py', [],
                       bound='weighted regression-type formula, 12 and 7 rows, 1/2/3/5 threads, 3 histories (likelihood / derivatives / nothing before the simulation); 4 points inside / outside declared bounds'),
            run_native('C04:bounded:aggregation', 'c04_aggregation.py', [tier, str(seed)],
                       bound='see the harness bound string: logit/regression scenarios, weights incl. zeros, threads 1/2/3/7/N+3, all permutations of <= 4 rows, partitions', timeout=1500)]
