"""C06 - the model family is consistent: special cases and generating functions agree."""
from props.C05 import nests_extra, tv_extras

CONTRACT_MODULES = ['c05_nests', 'c05_logit', 'c05c_nodes', 'c05c_builders', 'c05c_nested']
LEVEL = 'other'
TRUSTED = ['pyvc (VC generator, Python semantics of the stated subset)', 'z3 5.1.0 / cvc5',
           'mpmath 30-digit arithmetic and sympy differentiation (checking half of the translation validation)',
           'SEM: per-class semantics of the expression classes used by the checking half (validated at every point '
           'against the real Python evaluator and, for a subset, the compiled engine)',
           'textbook generating function of the nested logit written in bounded/c05_tv.py']
ASSUMPTIONS = ['A-REAL: floats are mathematical reals (native values are compared with 1e-8 relative / 1e-11 absolute tolerance)',
               'availabilities take the values 0 and 1; comparisons are made for available alternatives',
               'nest and scale parameters >= 1, allocation parameters in (0, 1] (or exactly 0 / 1 for the reduction to the nested logit)',
               'alternatives outside every nest enter the generating function as y_i (scale one) and are not conditioned on availability']
EXPLANATION = ('Shape-bounded translation validation: for every nest structure up to the bound the real builders are run on real '
               'Expression leaves; the serialised real trees are (a) compared structurally - the legacy tuple syntax gives the identical '
               'tree, which decides that clause for all values of the leaves - and (b) evaluated through per-class semantics in 30-digit '
               'arithmetic: nested logit with all nest parameters one = logit, cross-nested logit with 0/1 allocations = nested logit, '
               'scale one = unscaled, published generating function = textbook G, published terms = log of the partial derivatives '
               '(sympy) of the textbook G and of the published G.  biogeme.nests conversion of the tuple syntax is compared field-wise '
               'on every small structure; OneNestForNestedLogit.intersection is proved for all inputs.  Deductive part (contracts/'
               'c05c_nested.py, all numbers of nests and alternatives): models.lognested / nested are proved to return a tree whose value '
               'is the MEV kernel with h_k = V_k + c05c_lng(nests, util, av, k) (closed form of ln dG/dy_k as published: the term of the '
               'nest of k, 0 outside every nest); when there is no nest or every nest parameter has value one that value is proved to be '
               'the logit kernel - the very formula proved for models.loglogit (lemma C06:lemma:nested-with-unit-nest-parameters:...).')
LEVEL_TEXT = ('Bounded: shape-bounded translation validation of the real builders (random points, 30-digit arithmetic, sympy derivatives); '
              'the set-intersection helper and the reduction nested(mu = 1 or no nest) = logit (term equality over uninterpreted exp / log) '
              'are deductive proofs; cross-nested = nested, scale one = unscaled and lnG = log dG/dy stay bounded.  Nothing bounded is counted as proved.')
LEVEL_NOTE = ('Trusted: pyvc, z3/cvc5, mpmath/sympy, the SEM table and the textbook formulas; bounded checks cover <= 4 alternatives and '
              '<= 3 nests (thorough: 6 / 4) at random points only.')
TECHNIQUE = 'contract-based deductive verification (AST -> VCs -> z3/cvc5) + shape-bounded translation validation of the real builders'
DESIGN_REF = 'DESIGN.md section 3 / C06'

_F04 = '''
# F-04: generating function of the nested logit with an alternative outside every nest
import logging, math, warnings
logging.disable(logging.CRITICAL); warnings.filterwarnings('ignore')
from biogeme.expressions import Beta
from biogeme.models import get_mev_generating_for_nested, get_mev_for_nested
from biogeme.nests import NestsForNestedLogit, OneNestForNestedLogit
V = {1: Beta('V1', 0.3, None, None, 0), 2: Beta('V2', -0.2, None, None, 0), 3: Beta('V3', 1.1, None, None, 0)}
nests = NestsForNestedLogit([1, 2, 3], (OneNestForNestedLogit(Beta('mu1', 1.5, None, None, 0), [1, 2]),))
got = get_mev_generating_for_nested(V, None, nests).get_value()
want = (math.exp(1.5 * 0.3) + math.exp(1.5 * -0.2)) ** (1 / 1.5) + math.exp(1.1)
violated = bool(abs(got - want) > 1e-9)
detail = (f'G for nests ([1,2] with mu=1.5), alternative 3 alone, V=(0.3,-0.2,1.1): published {got!r}, '
          f'textbook (sum_m (sum y^mu_m)^(1/mu_m) + y_3) {want!r}; d/dy_3 of the published G is 1/y_3, '
          f'but the published term ln G_3 is {get_mev_for_nested(V, None, nests)[3].get_value()!r}')
'''

_ZERO = '''
# cross-nested logit with explicit zero allocations, a nest whose only non-zero member is unavailable:
# the real Python evaluator returns nan (0 ** negative = inf, 0 * inf), the compiled engine returns the right value
import logging, math, warnings
logging.disable(logging.CRITICAL); warnings.filterwarnings('ignore')
from biogeme.expressions import Beta
from biogeme.models import cnl
from biogeme.nests import NestsForCrossNestedLogit, OneNestForCrossNestedLogit
V = {1: Beta('V1', 0.3, None, None, 0), 3: Beta('V3', -0.2, None, None, 0)}
av = {1: Beta('AV1', 1.0, None, None, 0), 3: Beta('AV3', 0.0, None, None, 0)}
nests = NestsForCrossNestedLogit([1, 3], (OneNestForCrossNestedLogit(Beta('MU1', 1.5, None, None, 0), {1: 1.0, 3: 0.0}),
                                          OneNestForCrossNestedLogit(Beta('MU2', 2.5, None, None, 0), {1: 0.0, 3: 1.0})))
p = cnl(V, av, nests, 1).get_value()
violated = bool(not abs(p - 1.0) < 1e-12)
detail = f'cnl with 0/1 allocations, alternative 3 unavailable: P(1) = {p!r} through the Python evaluator (nested logit gives 1.0)'
'''

REPLAYS = {
    'C06:bounded:tv:get_mev_generating_for_nested:equals-textbook-G': _F04,
    'C06:bounded:tv:nested:lnG-is-log-derivative-of-published-G': _F04,
    'C06:bounded:python-evaluator:cnl-explicit-zero-allocation:agrees-with-sem': _ZERO,
}

EXPECTED = [
    'C06:bounded:tv:nested:nest-parameters-one-equals-logit',
    'C06:bounded:tv:nested_mu:nest-parameters-and-scale-one-equals-logit',
    'C06:bounded:tv:nested_mu:scale-one-equals-unscaled',
    'C06:bounded:tv:cnl_mu:scale-one-equals-unscaled',
    'C06:bounded:tv:get_mev_for_nested_mu:scale-one-equals-unscaled',
    'C06:bounded:tv:cnl-with-0-1-allocations-equals-nested',
    'C06:bounded:tv:cnl-with-0-1-allocations-given-as-parameters-equals-nested',
    'C06:bounded:tv:cnlmu-with-0-1-allocations-equals-nested_mev_mu',
    'C06:bounded:tv:cnl-with-explicit-zero-allocations-equals-nested',
    'C06:bounded:tv:cnlmu-with-explicit-zero-allocations-equals-nested_mev_mu',
    'C06:bounded:tv:nested:tuple-syntax-equals-object-syntax',
    'C06:bounded:tv:cnl:tuple-syntax-equals-object-syntax',
    'C06:bounded:tv:get_mev_generating_for_nested:equals-textbook-G',
    'C06:bounded:tv:get_mev_for_nested:terms-are-log-derivatives-of-textbook-G',
    'C06:bounded:tv:get_mev_for_nested_mu:terms-are-log-derivatives-of-textbook-G',
    'C06:bounded:tv:nested:lnG-is-log-derivative-of-published-G',
    'C06:bounded:tv:nested:independent-of-nest-names-and-object-reuse',
    'C06:bounded:tv:lognested:independent-of-nest-names-and-object-reuse',
    'C06:bounded:tv:nested_mev_mu:independent-of-nest-names-and-object-reuse',
    'C06:bounded:tv:get_mev_for_nested:independent-of-nest-names-and-object-reuse',
    'C06:bounded:tv:get_mev_for_nested_mu:independent-of-nest-names-and-object-reuse',
    'C06:bounded:tv:get_mev_generating_for_nested:independent-of-nest-names-and-object-reuse',
    'C06:bounded:tv:cnl:independent-of-nest-names-and-object-reuse',
    'C06:bounded:tv:logcnl:independent-of-nest-names-and-object-reuse',
    'C06:bounded:tv:cnlmu:independent-of-nest-names-and-object-reuse',
    'C06:bounded:python-evaluator:agrees-with-sem',
    'C06:bounded:compiled-engine:agrees-with-sem',
    'C06:bounded:python-evaluator:cnl-explicit-zero-allocation:agrees-with-sem',
    'C06:bounded:compiled-engine:cnl-explicit-zero-allocation:agrees-with-sem',
]


def c05c_lemmas():
    """round 3 (agent c05c): lemma over the proved closed forms (specs/c05c_static.py)"""
    from specs.c05c_static import c06_extras
    return c06_extras()


def c06_lean_extra(tier):
    """thorough tier: the published term ln G_i (closed form c05c_lng) is the logarithm of dG/dy_i of the textbook generating
    function (lean/C06Lemmas.lean: real analysis over the specification, not over the code)"""
    import os
    import subprocess
    import time
    from pyvc.driver import Extra
    name = 'C06:lean:published-nested-term-is-the-log-of-the-partial-derivative-of-G'
    path = os.path.join(os.path.dirname(os.path.dirname(os.path.abspath(__file__))), 'lean', 'C06Lemmas.lean')
    if tier != 'thorough' or not os.path.exists(path):
        return []
    t0 = time.time()
    try:
        r = subprocess.run(['lake', 'env', 'lean', path], capture_output=True, text=True, timeout=900, cwd='/opt/veriftools/mathlib4')
    except Exception as ex:       # pragma: no cover
        return [Extra(name, 'lean', 'unknown', 'lean4/mathlib', time.time() - t0, str(ex)[:300])]
    txt = r.stdout + r.stderr
    ok = r.returncode == 0 and 'error' not in txt and 'sorry' not in txt
    return [Extra(name, 'lean', 'discharged' if ok else 'unknown', 'lean4/mathlib', time.time() - t0, '' if ok else txt[-600:])]


def extra(tier, seed):
    return (c05c_lemmas() + c06_lean_extra(tier) + nests_extra('C06', 'tuple', 'C06:bounded:nests:tuple-syntax-field-wise-equals-object-syntax', tier)
            + tv_extras('C06', tier, seed, EXPECTED))
