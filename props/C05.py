"""C05 - choice models return proper probability distributions over the available alternatives."""
import ast
import json
import os
import shutil
import subprocess
import tempfile
import time

CONTRACT_MODULES = ['c05_nests', 'c05_logit', 'c05c_nodes', 'c05c_builders', 'c05c_nested', 'c05d_nodes', 'c05d_cnl']
LEVEL = 'other'
TRUSTED = ['pyvc (VC generator, Python semantics of the stated subset)', 'z3 5.1.0 / cvc5',
           'mpmath 30-digit arithmetic and sympy differentiation (checking half of the translation validation)',
           'SEM: per-class semantics of the expression classes used by the checking half (validated at every point '
           'against the real Python evaluator and, for a subset, the compiled engine)',
           'textbook closed forms of logit / nested / cross-nested / ordered models written in bounded/c05_tv.py',
           'engine extension pyvc/libext/c05c_tree.py (nodes built inside comprehensions of symbolic length as terms mk!K(args) '
           'governed by the verified constructor contracts; NamedTuple._replace; isinstance with a tuple of classes; iteration '
           'over an object through its __iter__; set enumeration; hypothesis-subset discharge strategy) and the spec functions of '
           'specs/c05c_specs.py (value function, dispatch link, cut rule, nest sum)',
           'engine extension pyvc/libext/c05d_ext.py (float.is_integer, float(x), `lst += [a]` as append, set(Optional set), named '
           'membership array of a set difference, class of an untyped receiver by entailment inside Expression.__pow__, type of the '
           'local gi_terms) and the spec functions of specs/c05d_specs.py (inner sum of a cross-nested nest, frame invariant)']
ASSUMPTIONS = ['A-REAL: floats are mathematical reals (native values are compared with 1e-8 relative / 1e-11 absolute tolerance)',
               'LIBSPEC: numpy.exp / numpy.log are uninterpreted over the reals with exp > 0 and log(0) = -inf (pyvc/libext/c05_loginf.py)',
               'Expression.get_value of an operand is a pure function of the operand (abstract contract, trusted, not verified here)',
               'LogLogit: utilities and availabilities are given for the same alternatives (checked by LogLogit.audit)',
               'availabilities take the values 0 and 1',
               'nest and scale parameters >= 1, allocation parameters in (0, 1]',
               "the engine's normal cdf is an approximation (absolute error about 3e-11): ordered probit through the engine is "
               'compared to 1e-9 absolute; in the far tails the engine can return probabilities like -1.5e-11',
               'the finite-sum facts sum_i e^{h_i}/sum_j e^{h_j} = 1, each term in [0,1], shift invariance are proved in Lean '
               '(lean/C05Lemmas.lean, thorough tier) over the specification, not over the code',
               'builder semantics (contracts/c05c_*.py): expression nodes are immutable once built, so that the value of a node is a '
               'function of the node (static obligation: the builders store to no attribute; frame obligations modifies=[])',
               'DISPATCH LINK: the value of a node whose class K is known is what K.get_value returns (its verified contract is '
               'instantiated at the node); behavioural subtyping for the abstract Expression.get_value',
               'LEMMA sum-congruence (induction, not proved here): two sums over the same range with pointwise equal terms are equal; '
               'the pointwise premise is always a proof obligation',
               'operator overloads / validate_and_convert are applied as PURE contracts (the node they build is a function of the '
               'operands: allocation abstracted; identity of two separately built nodes is not modelled)',
               'builder semantics covers dictionaries of Expression objects and Expression nest parameters of non-zero value; plain '
               'numbers in the dictionaries / float nest parameters stay with the bounded translation validation',
               'ASSUMED (bounded stand-in C05:bounded:nests:...): NestsForNestedLogit.check_partition accepts only pairwise disjoint '
               'nests that do not meet `alone`',
               'c05c_lng / c05c_nestsum / c05c_partition are functions of the nest objects and dictionaries read in the entry state of '
               'the function under proof; caller and callee agree on them because no builder mutates its arguments (frame obligations); '
               'the defining axioms of c05c_lng (choice functions nestof / posof: a conservative extension) are hypotheses of the named '
               'lemma steps only (c05c_cut_with)',
               'products of two symbolic reals in get_mev_for_nested / lognested / nested are uninterpreted (commutative rmul): the '
               'obligations are equalities of terms; exp(-log s) = 1/s and exp(-inf) = 0 are not used',
               'cross-nested builder (contracts/c05d_cnl.py): nest and allocation parameters are Expression objects, nest parameters of '
               'value != 0, allocation parameters of value > 0; ASSUMED (check_safe=False): no KeyError / None dereference inside '
               'get_mev_for_cross_nested (every alternative of a nest has a utility, an availability and a term list); ASSUMED: '
               'NestsForCrossNestedLogit.check_validity is a pure function of the nests (no fact about its result is used); A-ANNOT '
               'c05d: the local gi_terms is typed dict[int, list[Expression]] (its source annotation dict[int, Expression] is wrong)']
EXPLANATION = ('Deductive part: the log-logit kernel LogLogit.get_value (availability filter, log-sum-exp, unavailable chosen '
               'alternative) and OneNestForNestedLogit.intersection are proved against contracts for all inputs; the probability '
               'versions are shown by AST analysis to be exp(.) of the log versions.  Bounded part (shape-bounded translation '
               'validation): the real builders are run on real Expression leaves for every nest structure / availability pattern up '
               'to the bound, the real trees are serialised, evaluated through per-class semantics in 30-digit arithmetic and '
               'compared with independent textbook formulas: probabilities in [0,1], sum to one, zero when unavailable, shift '
               'invariance, log version = log of the probability version; the real Python evaluator and the compiled engine are '
               'compared with the semantics at every point.  Round 2 (contracts/c05c_*.py): a DEDUCTIVE builder semantics for every '
               'number of alternatives and nests: the value c05c_val(e) of a tree is the abstract Expression.get_value; the node '
               'constructors, the operator overloads, validate_and_convert, bioMultSum, ConditionalSum and the LogLogit constructors are '
               'verified on their real bodies (value of the new node = defining equation over the numeric meaning of the arguments); '
               'models.loglogit, logmev, mev are proved to return a tree whose value is the textbook log-sum-exp kernel written with '
               'sum_range over the dictionaries (logit: exp of a log-logit node on the same dictionaries), get_mev_for_nested to return '
               'for every nest q and alternative i of it a tree of value (mu_q-1)V_i + (1/mu_q-1) log sum_{j in q, av_j != 0} exp(mu_q V_j) '
               'and 0 for the alternatives left alone.  Round 3: models.lognested / nested are proved to return a tree whose value is ONE closed '
               'form over util / availability / nests: the MEV kernel with h_k = V_k + c05c_lng(nests, util, av, k), where c05c_lng is '
               'DEFINED (specs/c05c_specs.py) as the nested-logit term of the nest of k and 0 outside every nest; BiogemeError is raised '
               'exactly when check_partition rejects the nests.  Round 3 (agent c05d, contracts/c05d_*.py): the power nodes '
               '(PowerConstant, the three branches of Expression.__pow__) are verified for C05 and, for the CROSS-NESTED builder '
               'get_mev_for_cross_nested, for every number of nests and alternatives: the node biosum of nest m has the value '
               'sum_j [av_j *] alpha_mj^mu_m exp(mu_m V_j) (both availability branches), the node appended to the term list of '
               'alternative i has the value alpha_mi^mu_m exp((mu_m - 1) V_i) biosum^((1 - mu_m)/mu_m), and no entry container is written.')
LEVEL_TEXT = ('Mixed: deductive proof (all inputs) for the log-logit kernel and the static exp-of-log obligations; the model builders '
              '(nested, cross-nested, MEV, ordered) are decided by shape-bounded translation validation on the real code, labelled '
              'bounded and never counted as proved.  Round 2: logit / loglogit / logmev / mev / get_mev_for_nested (and the composition '
              'in lognested / nested, with its closed form) are additionally proved for all shapes as term equalities over uninterpreted exp / log; '
              'cross-nested, the mu variants, ordered models and the numeric clauses (unit interval, sum to one, shift invariance) '
              'remain bounded.  Round 3: per-nest sum, per-iteration term and frame of get_mev_for_cross_nested are discharged for all '
              'shapes; the sum of the terms per alternative (logzero(bioMultSum(G))), logcnl / cnl and the mu variants remain bounded.')
LEVEL_NOTE = ('Trusted: pyvc, z3/cvc5, mpmath/sympy, the SEM table and the textbook formulas; bounded checks cover <= 4 alternatives, '
              '<= 3 nests, <= 5 ordered levels (thorough: 6 / 4 / 7) at random points only.')
TECHNIQUE = 'contract-based deductive verification (AST -> VCs -> z3/cvc5) + shape-bounded translation validation of the real builders'
DESIGN_REF = 'DESIGN.md section 3 / C05'

VERIF = os.path.dirname(os.path.dirname(os.path.abspath(__file__)))
VENV_PY = '/venv/bin/python'

_F03 = '''
# F-03: probability of an UNAVAILABLE alternative through the real Python evaluator must be 0 (log: -inf)
import logging, warnings
logging.disable(logging.CRITICAL); warnings.filterwarnings('ignore')
from biogeme.expressions import Beta, Numeric
from biogeme.models import logit, loglogit
V = {1: Beta('V1', 0.3, None, None, 0), 3: Beta('V3', -0.2, None, None, 0)}
av = {1: Numeric(1), 3: Numeric(0)}
p, lp = logit(V, av, 3).get_value(), loglogit(V, av, 3).get_value()
violated = bool(not (p == 0.0 and lp == float('-inf')))
detail = f'logit(V, av, 3) with av[3] = 0: probability {p!r} (expected 0.0), log-probability {lp!r} (expected -inf)'
'''

REPLAYS = {
    'C05:bounded:python-evaluator:unavailable-alternative-has-probability-zero': _F03,
    'C05:expressions.logit_expressions.LogLogit.get_value:post:unavailable_choice': _F03,
}

BOUND_Q = ('every shape with <= 4 alternatives (ids 1,3,4,7), <= 3 nests (every partial partition; cross-nested: every family of '
           'distinct overlapping nests, 4 alternatives up to relabelling), availability absent/present with every 0/1 pattern, '
           '<= 5 ordered levels; 1-2 random points per pattern; engine on 2 patterns per shape')
BOUND_T = ('every shape with <= 6 alternatives (5-6: random third / twelfth of the structures), <= 4 nests, cross-nested <= 5 '
           'alternatives, <= 7 ordered levels; 4 random points per pattern; engine on 4 patterns per shape')

# obligations the translation validation must produce (vacuity guard for the bounded part)
EXPECTED = (
    [f'C05:bounded:tv:{fam}:{cl}' for fam in ('logit', 'mev', 'mev_endogenous_sampling', 'nested', 'nested_mu', 'cnl', 'cnl_mu')
     for cl in ('probabilities-in-unit-interval', 'probabilities-sum-to-one', 'zero-for-unavailable', 'equals-textbook',
                'log-version-is-log-of-probability')] +
    [f'C05:bounded:tv:{fam}:invariant-under-common-shift-of-utilities' for fam in ('logit', 'nested', 'nested_mu', 'cnl', 'cnl_mu')] +
    [f'C05:bounded:tv:{fam}:independent-of-nest-names-and-object-reuse' for fam in ('nested', 'nested_mu', 'cnl', 'cnl_mu')] +
    [f'C05:bounded:tv:ordered_{k}:{cl}' for k in ('logit', 'probit')
     for cl in ('probabilities-in-unit-interval', 'probabilities-sum-to-one', 'equals-textbook')] +
    ['C05:bounded:python-evaluator:agrees-with-sem', 'C05:bounded:compiled-engine:agrees-with-sem',
     'C05:bounded:python-evaluator:unavailable-alternative-has-probability-zero',
     'C05:bounded:compiled-engine:unavailable-alternative-has-probability-zero',
     'C05:bounded:compiled-engine:ordered_probit:agrees-with-sem-to-1e-9'])


def load_tv():
    import importlib.util
    spec = importlib.util.spec_from_file_location('c05_tv', os.path.join(VERIF, 'bounded', 'c05_tv.py'))
    mod = importlib.util.module_from_spec(spec)
    import sys
    sys.modules['c05_tv'] = mod          # the worker pool pickles its functions by module name
    spec.loader.exec_module(mod)
    return mod


def tv_extras(prop, tier, seed, expected):
    """Native dump (real builders, real evaluators) + checking half; one bounded Extra per obligation."""
    from pyvc.driver import Extra
    bound = BOUND_Q if tier == 'quick' else BOUND_T
    t0 = time.time()
    work = tempfile.mkdtemp(prefix='verif-c05-')
    out = os.path.join(work, 'trees.json')
    e = dict(os.environ)
    e.pop('PYTHONPATH', None)
    repo = os.environ.get('VERIF_REPO')
    if repo and repo != '/repo':
        e['PYTHONPATH'] = os.path.join(repo, 'src')
    jobs = os.environ.get('VERIF_TV_JOBS', '6')
    extras = []
    try:
        try:
            r = subprocess.run([VENV_PY, os.path.join(VERIF, 'bounded', 'c05_dump.py'), prop, tier, str(seed), out, jobs],
                               capture_output=True, text=True, timeout=1500, cwd='/tmp', env=e)
        except subprocess.TimeoutExpired:
            return [Extra(f'{prop}:bounded:builders-accept-every-valid-shape', 'bounded', 'unknown', 'native', time.time() - t0,
                          'timeout of the native dump', bound=bound)]
        line = (r.stdout.strip().splitlines() or [''])[-1]
        try:
            d = json.loads(line)
        except Exception:
            return [Extra(f'{prop}:bounded:builders-accept-every-valid-shape', 'bounded', 'error', 'native', time.time() - t0,
                          (r.stdout + r.stderr)[-1500:], bound=bound)]
        name = f'{prop}:bounded:builders-accept-every-valid-shape'
        if d.get('failures'):
            extras.append(Extra(name, 'bounded', 'failed', 'native', time.time() - t0, json.dumps(d['failures'][:3])[:1500],
                                witness={'failures': d['failures'][:5]}, bound=bound, cases=d.get('shapes', 0)))
        else:
            extras.append(Extra(name, 'bounded', 'discharged', 'native', time.time() - t0, '', bound=bound, cases=d.get('shapes', 0)))
        t1 = time.time()
        res, _ = load_tv().run(out, prop, int(jobs))
        secs = (time.time() - t1) / max(1, len(res))
        for nm in sorted(res):
            o = res[nm]
            if o['nfail']:
                extras.append(Extra(nm, 'bounded', 'failed', 'native+mpmath', secs,
                                    f"{o['nfail']} of {o['cases']} cases; first: " + json.dumps(o['failures'][:2])[:1300],
                                    witness={'failures': o['failures'][:4]}, bound=bound, cases=o['cases']))
            elif o['cases'] == 0:
                extras.append(Extra(nm, 'bounded', 'unknown', 'native+mpmath', secs, 'no case was checked (all skipped)', bound=bound))
            else:
                extras.append(Extra(nm, 'bounded', 'discharged', 'native+mpmath', secs, '', bound=bound, cases=o['cases']))
        have = {x.name for x in extras}
        for nm in expected:
            if nm not in have:
                extras.append(Extra(nm, 'bounded', 'unknown', 'native+mpmath', 0.0,
                                    'obligation was not generated by the translation validation (vacuity guard)', bound=bound))
    finally:
        shutil.rmtree(work, ignore_errors=True)
    return extras


# --------------------------------------------------------------------------- static obligations (AST of the real source)
def _body(fn):
    b = list(fn.node.body)
    if b and isinstance(b[0], ast.Expr) and isinstance(b[0].value, ast.Constant) and isinstance(b[0].value.value, str):
        b = b[1:]
    return b


def _params(fn):
    a = fn.node.args
    return [x.arg for x in a.posonlyargs + a.args]


def _returned(fn):
    """The returned expression with single-assignment locals inlined; None when the body is not straight-line."""
    env = {}
    for st in _body(fn):
        if isinstance(st, ast.Assign) and len(st.targets) == 1 and isinstance(st.targets[0], ast.Name):
            env[st.targets[0].id] = _subst(st.value, env)
        elif isinstance(st, ast.Return) and st.value is not None:
            return _subst(st.value, env)
        else:
            return None
    return None


class _Sub(ast.NodeTransformer):
    def __init__(self, env):
        self.env = env

    def visit_Name(self, node):
        if isinstance(node.ctx, ast.Load) and node.id in self.env:
            return self.env[node.id]
        return node


def _subst(e, env):
    import copy
    return _Sub(env).visit(copy.deepcopy(e))


def _is_exp_of_call(e, callee, args):
    """e == exp(callee(args...)) with positional or keyword arguments naming exactly `args` in order."""
    if not (isinstance(e, ast.Call) and isinstance(e.func, ast.Name) and e.func.id == 'exp' and len(e.args) == 1 and not e.keywords):
        return False
    c = e.args[0]
    if not (isinstance(c, ast.Call) and isinstance(c.func, ast.Name) and c.func.id == callee):
        return False
    return c


def static_extras():
    """`P = exp(log P)` by construction: every probability function returns exp(.) of its log version on the same arguments."""
    from pyvc.driver import Extra
    from pyvc.repo import get_repo
    repo = get_repo()
    out = []
    pairs = [('biogeme.models.mev.mev', 'biogeme.models.mev.logmev'),
             ('biogeme.models.mev.mev_endogenous_sampling', 'biogeme.models.mev.logmev_endogenous_sampling'),
             ('biogeme.models.cnl.cnl', 'biogeme.models.cnl.logcnl'),
             ('biogeme.models.cnl.cnlmu', 'biogeme.models.cnl.logcnlmu'),
             ('biogeme.models.nested.nested_mev_mu', 'biogeme.models.nested.lognested_mev_mu')]
    for pq, lq in pairs:
        t0 = time.time()
        name = f"C05:static:{pq.split('biogeme.')[1]}:returns-exp-of-{lq.split('.')[-1]}-on-the-same-arguments"
        pf, lf = repo.function(pq), repo.function(lq)
        if pf is None or lf is None:
            out.append(Extra(name, 'static', 'unknown', 'ast-static', time.time() - t0, 'function not found'))
            continue
        e = _returned(pf)
        c = _is_exp_of_call(e, lf.name, None) if e is not None else False
        ok, why = False, 'return value is not exp(<log version>(...))'
        if c:
            lp, pp = _params(lf), _params(pf)
            bound_args = {}
            good = True
            for k, a in enumerate(c.args):
                if isinstance(a, ast.Name) and k < len(lp):
                    bound_args[lp[k]] = a.id
                else:
                    good = False
            for kw in c.keywords:
                if kw.arg and isinstance(kw.value, ast.Name):
                    bound_args[kw.arg] = kw.value.id
                else:
                    good = False
            # same parameter list, each log-version parameter bound to the probability version's parameter of the same position
            ok = good and len(lp) == len(pp) and all(bound_args.get(lp[k]) == pp[k] for k in range(len(lp)))
            why = '' if ok else f'arguments {bound_args} do not map parameters {pp} onto {lp} in order'
        out.append(Extra(name, 'static', 'discharged' if ok else 'failed', 'ast-static', time.time() - t0, why,
                         None if ok else {'function': pq, 'returned': ast.unparse(e) if e is not None else None}))
    # logit / loglogit: same body, every returned expression wrapped in exp(.)
    t0 = time.time()
    name = 'C05:static:models.logit.logit:returns-exp-of-the-loglogit-kernel-on-every-path'
    pf, lf = repo.function('biogeme.models.logit.logit'), repo.function('biogeme.models.logit.loglogit')
    if pf is None or lf is None:
        out.append(Extra(name, 'static', 'unknown', 'ast-static', time.time() - t0, 'function not found'))
    else:
        class Wrap(ast.NodeTransformer):
            def visit_Return(self, node):
                return ast.Return(value=ast.Call(func=ast.Name(id='exp', ctx=ast.Load()), args=[node.value], keywords=[]))
        import copy
        want = [ast.dump(Wrap().visit(copy.deepcopy(s))) for s in _body(lf)]
        got = [ast.dump(s) for s in _body(pf)]
        ok = want == got and _params(pf) == _params(lf)
        if not ok:          # equally fine: logit returns exp(loglogit(<its own parameters in order>))
            e = _returned(pf)
            c = _is_exp_of_call(e, 'loglogit', None) if e is not None else False
            ok = bool(c) and not c.keywords and [a.id if isinstance(a, ast.Name) else None for a in c.args] == _params(pf) \
                and len(_params(pf)) == len(_params(lf))
        out.append(Extra(name, 'static', 'discharged' if ok else 'failed', 'ast-static', time.time() - t0,
                         '' if ok else 'body of logit is not the body of loglogit with each returned value wrapped in exp(.)',
                         None if ok else {'logit': [ast.unparse(s) for s in _body(pf)], 'loglogit': [ast.unparse(s) for s in _body(lf)]}))
    return out


def lean_extra(tier):
    from pyvc.driver import Extra
    name = 'C05:lean:softmax-is-a-distribution-and-shift-invariant'
    path = os.path.join(VERIF, 'lean', 'C05Lemmas.lean')
    if tier != 'thorough' or not os.path.exists(path):
        return []
    t0 = time.time()
    try:
        r = subprocess.run(['lake', 'env', 'lean', path], capture_output=True, text=True, timeout=900, cwd='/opt/veriftools/mathlib4')
    except Exception as ex:       # pragma: no cover
        return [Extra(name, 'lean', 'unknown', 'lean4/mathlib', time.time() - t0, str(ex)[:300])]
    txt = (r.stdout + r.stderr)
    ok = r.returncode == 0 and 'error' not in txt and 'sorry' not in txt
    return [Extra(name, 'lean', 'discharged' if ok else 'unknown', 'lean4/mathlib', time.time() - t0, '' if ok else txt[-600:])]


def nests_extra(prop, mode, name, tier):
    from pyvc.bounded import run_native
    return [run_native(name, 'c05_nests_native.py', [mode, tier],
                       bound='every family of <= 3 nests (overlapping, repeated, foreign alternative included) over a choice set of 3 '
                             'alternatives' + ('' if tier == 'quick' else ' (also 2 and 4 alternatives)') + ', nested and cross-nested')]


def c05c_extras():
    """round 2: static obligations supporting the deductive builder semantics (specs/c05c_static.py)"""
    from specs.c05c_static import extras
    return extras()


def extra(tier, seed):
    return (static_extras() + c05c_extras() + lean_extra(tier)
            + nests_extra('C05', 'partition', 'C05:bounded:nests:accepted-structures-are-partitions-and-alone-is-the-complement', tier)
            + tv_extras('C05', tier, seed, EXPECTED))
