"""C14 - what is written to disk reads back unchanged and never overwrites earlier output."""
import ast
import os
import time

CONTRACT_MODULES = ['c14_files', 'c14_writers']
LEVEL = 'other'
TRUSTED = ['pyvc (VC generator, Python semantics of the stated subset)', 'z3 5.1.0 / cvc5',
           'LIBSPEC ghost file system (pyvc/libext/c14_fs.py): Path(s) is its string, is_file/exists are predicates over '
           'path strings, open(w)/to_csv/os.rename/shutil.copy are write events with the precondition "target is not an existing file"; '
           'file content is a ghost string per path: open(w) empties it, f.write(s) appends s, pickle.dump / to_csv store the uninterpreted '
           'images c14_pickled(obj) / c14_csv(frame), rename / copy carry the content of the source (what the images mean is bounded)',
           'assumed contracts: get_html / get_latex / get_f12 / flatten_database are pure (their file-system purity is the static obligation fs-pure)']
ASSUMPTIONS = ['A-STR-ATOM: strings are atoms; f-strings / concatenations are uninterpreted functions of their parts',
               'partial correctness only: get_new_file_name / create_backup do not terminate in a directory holding every candidate name',
               'no other process changes the directory between get_new_file_name and the write (the code has the same race)']
EXPLANATION = ('Deductive: get_new_file_name (result is not an existing file; name.ext or name~NN.ext; loop invariant), create_backup, '
               'parse_boolean (boolean coding round trip), and the writers write_pickle/write_html/write_latex/write_f12/dump_on_file/'
               'generate_flat_panel_dataframe against a ghost file system (the write sink carries the never-overwrite precondition; '
               'round 3: the new file holds exactly the text of the report generator called with the writer\'s own argument / the image of '
               'self.data / of the returned flat frame; create_backup takes the smallest free number >= 1 of its naming scheme, moves the '
               'original iff rename, changes no other file; generate_flat_panel_dataframe raises iff the data is not panel). '
               'Static: every write sink of results.py, database.py, biogeme.py, parameters.py takes its name from get_new_file_name '
               '(two documented allowlisted sinks). Bounded on the real code: pickle round trip, parameter-file round trip, reports list every '
               'parameter, histories of output generation never overwrite.')
LEVEL_TEXT = ('Mixed: deductive proof for all inputs (all directory contents) of the file-naming functions and of the writers over a ghost '
              'file system; AST dataflow for the sink inventory; pickle / TOML round trips and report contents are decided by bounded '
              'stand-ins on the real code (labelled bounded, never counted as proved).')
LEVEL_NOTE = ('Trusted: pyvc, z3/cvc5, the ghost file system model of pathlib/os/open/pandas writers. tomlkit, pickle and the report '
              'generators (pandas string building) are out of the engine\'s reach: bounded only.')
TECHNIQUE = 'contract-based deductive verification (AST -> VCs -> z3/cvc5) + AST dataflow + bounded stand-ins on the real code'
DESIGN_REF = 'DESIGN.md section 3 / C14'

# ------------------------------------------------------------------------------------------------
# static obligations: inventory of write sinks
# ------------------------------------------------------------------------------------------------
SCAN = ['biogeme.results', 'biogeme.database', 'biogeme.biogeme', 'biogeme.parameters']
FRAME_WRITERS = ('to_csv', 'to_pickle', 'to_json', 'to_excel', 'to_parquet', 'to_feather', 'to_stata', 'to_hdf')
FRAME_RENDERERS = ('to_latex', 'to_html', 'to_string', 'to_markdown')     # sinks only when given a buffer / file name
TWO_NAME = {('os', 'rename'), ('os', 'replace'), ('shutil', 'copy'), ('shutil', 'copyfile'), ('shutil', 'copy2'), ('shutil', 'move')}
NUMPY_WRITERS = ('save', 'savetxt', 'savez', 'savez_compressed')
FRESH_SOURCE = 'get_new_file_name'

# sinks that by design rewrite one fixed file and are not "result, report and data-dump files"
ALLOW = {
    ('biogeme.biogeme', 'BIOGEME.calculate_likelihood_and_derivatives', 'open'): (
        'tmp_name',
        'temporary file "<iteration file>.tmp": the complete new content of the iteration file is written here first '
        '(reviewed after the C15 repair: write to a temporary name, then os.replace); not a result/report/data-dump file'),
    ('biogeme.biogeme', 'BIOGEME.calculate_likelihood_and_derivatives', 'os.replace'): (
        'file_name',
        'iteration file __<model>.iter: a restart point that is replaced on purpose, atomically, with the best iterate so far; '
        'its soundness is property C15, it is not a result/report/data-dump file'),
    ('biogeme.parameters', 'Parameters.dump_file', 'open'): (
        'file_name',
        'parameter file (biogeme.toml): configuration written under the name the caller asked for (read_file creates it when '
        'it is missing); not a result/report/data-dump file'),
}

REPLAYS = {}
_SINK_REPLAY = """
import sys
sys.path.insert(0, '/verif/bounded')
import c14_native
n, bad = c14_native.run_histories(max_len=3, n_random=0, seed=0)
violated = bool(bad)
detail = f'{n} histories of output generation in one directory; first overwrite: {bad[0] if bad else None}'
"""


HELPERS: set = set()     # names of functions of the scanned module that only return get_new_file_name(...) (one level)


def _is_fresh_call(e):
    if not isinstance(e, ast.Call):
        return False
    f = e.func
    nm = f.id if isinstance(f, ast.Name) else (f.attr if isinstance(f, ast.Attribute) else None)
    if nm == FRESH_SOURCE:
        return True
    # helper of the same module / class: self.helper(...) or helper(...)
    if nm in HELPERS and (isinstance(f, ast.Name) or (isinstance(f.value, ast.Name) and f.value.id in ('self', 'cls'))):
        return True
    return False


def _fresh_helpers(tree):
    out = set()
    for q, fn in _functions(tree):
        rets = [n for n in ast.walk(fn) if isinstance(n, ast.Return)]
        if rets and all(r.value is not None and isinstance(r.value, ast.Call)
                        and (r.value.func.id if isinstance(r.value.func, ast.Name) else getattr(r.value.func, 'attr', None)) == FRESH_SOURCE
                        for r in rets):
            out.add(fn.name)
    return out


def _key(e):
    try:
        return ast.unparse(e)
    except Exception:
        return None


def _mode_of(call):
    m = call.args[1] if len(call.args) > 1 else next((k.value for k in call.keywords if k.arg == 'mode'), None)
    if m is None:
        return 'r'
    if isinstance(m, ast.Constant) and isinstance(m.value, str):
        return m.value
    return None        # computed


def sinks_in_expr(e):
    """Yield (kind, name-expression or None, node) for every write sink call inside expression e."""
    for n in ast.walk(e):
        if not isinstance(n, ast.Call):
            continue
        f = n.func
        if isinstance(f, ast.Name) and f.id == 'open':
            mode = _mode_of(n)
            if mode is None or any(c in mode for c in 'wax+'):
                yield ('open', n.args[0] if n.args else None, n)
        elif isinstance(f, ast.Attribute):
            base = f.value.id if isinstance(f.value, ast.Name) else None
            kw = {k.arg: k.value for k in n.keywords}
            if f.attr in FRAME_WRITERS:
                yield (f.attr, n.args[0] if n.args else kw.get('path_or_buf', kw.get('path')), n)
            elif f.attr in FRAME_RENDERERS:
                tgt = n.args[0] if n.args else kw.get('buf')
                if tgt is not None:
                    yield (f.attr, tgt, n)
            elif (base, f.attr) in TWO_NAME:
                yield (f'{base}.{f.attr}', n.args[1] if len(n.args) > 1 else kw.get('dst'), n)
            elif base in ('np', 'numpy') and f.attr in NUMPY_WRITERS:
                yield (f'numpy.{f.attr}', n.args[0] if n.args else None, n)
            elif f.attr in ('write_text', 'write_bytes'):
                yield (f.attr, f.value, n)
            elif base == 'pickle' and f.attr == 'dump':
                yield ('pickle.dump', n.args[1] if len(n.args) > 1 else kw.get('file'), n)


class SinkScan:
    """Source-order walk of one function: `fresh` = expressions (as text) whose current value was returned by
    get_new_file_name in this block or an enclosing one, with no later assignment to them."""

    def __init__(self):
        self.found = []     # (kind, name_text, ok, why, lineno)

    def _targets(self, stmt):
        out = []
        if isinstance(stmt, ast.Assign):
            out = list(stmt.targets)
        elif isinstance(stmt, (ast.AugAssign, ast.AnnAssign)):
            out = [stmt.target]
        elif isinstance(stmt, (ast.For, ast.AsyncFor)):
            out = [stmt.target]
        elif isinstance(stmt, (ast.With, ast.AsyncWith)):
            out = [i.optional_vars for i in stmt.items if i.optional_vars is not None]
        flat = []
        for t in out:
            flat += list(t.elts) if isinstance(t, (ast.Tuple, ast.List)) else [t]
        return flat

    def _headers(self, stmt):
        """Expressions evaluated by the statement itself (not by nested blocks)."""
        if isinstance(stmt, (ast.With, ast.AsyncWith)):
            return [i.context_expr for i in stmt.items]
        if isinstance(stmt, (ast.If, ast.While)):
            return [stmt.test]
        if isinstance(stmt, (ast.For, ast.AsyncFor)):
            return [stmt.iter]
        if isinstance(stmt, ast.Try):
            return []
        if isinstance(stmt, (ast.FunctionDef, ast.AsyncFunctionDef, ast.ClassDef)):
            return []
        return [stmt]

    def _blocks(self, stmt):
        bl = []
        for fld in ('body', 'orelse', 'finalbody'):
            b = getattr(stmt, fld, None)
            if isinstance(b, list) and b and isinstance(b[0], ast.stmt):
                bl.append(b)
        for h in getattr(stmt, 'handlers', []) or []:
            bl.append(h.body)
        return bl

    def block(self, stmts, fresh, files):
        fresh = dict(fresh)
        files = dict(files)
        for stmt in stmts:
            if isinstance(stmt, (ast.FunctionDef, ast.AsyncFunctionDef, ast.ClassDef)):
                continue       # scanned as functions of their own
            for h in self._headers(stmt):
                for kind, name, node in sinks_in_expr(h):
                    self.sink(kind, name, node, fresh, files)
            # facts established / destroyed by this statement
            if isinstance(stmt, ast.Assign) and _is_fresh_call(stmt.value) and len(stmt.targets) == 1:
                k = _key(stmt.targets[0])
                if k:
                    fresh[k] = stmt.lineno
            else:
                for t in self._targets(stmt):
                    k = _key(t)
                    for fk in list(fresh):
                        if fk == k or fk.startswith(k + '.') or fk.startswith(k + '['):
                            del fresh[fk]
            inner_files = dict(files)
            if isinstance(stmt, (ast.With, ast.AsyncWith)):
                for i in stmt.items:
                    c = i.context_expr
                    if isinstance(c, ast.Call) and isinstance(c.func, ast.Name) and c.func.id == 'open' and i.optional_vars is not None:
                        inner_files[_key(i.optional_vars)] = c
            for b in self._blocks(stmt):
                self.block(b, fresh, inner_files)
            # an assignment anywhere inside a nested block kills the fact afterwards
            if self._blocks(stmt):
                for n in ast.walk(stmt):
                    if isinstance(n, ast.stmt) and n is not stmt:
                        for t in self._targets(n):
                            k = _key(t)
                            for fk in list(fresh):
                                if fk == k or fk.startswith(k + '.') or fk.startswith(k + '['):
                                    del fresh[fk]

    def sink(self, kind, name, node, fresh, files):
        text = _key(name) if name is not None else None
        if kind == 'pickle.dump':
            # writes to an already opened file: accounted for by the enclosing `with open(...) as f` sink
            if text in files:
                return
            self.found.append((kind, text, False, 'target is not a file opened by an enclosing with-open in this function', node.lineno))
            return
        if name is None:
            self.found.append((kind, None, False, 'no target expression', node.lineno))
        elif _is_fresh_call(name):
            self.found.append((kind, text, True, 'name is a direct call of get_new_file_name', node.lineno))
        elif text in fresh:
            self.found.append((kind, text, True, f'name assigned from get_new_file_name at line {fresh[text]}, not reassigned since', node.lineno))
        else:
            self.found.append((kind, text, False, 'name does not come from get_new_file_name in this function', node.lineno))


def _functions(tree):
    """(qualified name inside the module, node) for every function, methods as Class.method."""
    out = []

    def rec(body, prefix):
        for n in body:
            if isinstance(n, (ast.FunctionDef, ast.AsyncFunctionDef)):
                out.append((prefix + n.name, n))
                rec(n.body, prefix + n.name + '.')
            elif isinstance(n, ast.ClassDef):
                rec(n.body, prefix + n.name + '.')
    rec(tree.body, '')
    return out


def static_sinks(repo):
    from pyvc.driver import Extra
    t0 = time.time()
    extras = []
    seen = {}
    used_allow = set()
    for modname in SCAN:
        mi = repo.modules.get(modname)
        if mi is None:
            extras.append(Extra(f'C14:static:sink:{modname}', 'static', 'unknown', 'ast-static', 0.0, 'module not found'))
            continue
        short = modname.split('.', 1)[1]
        HELPERS.clear()
        HELPERS.update(_fresh_helpers(mi.tree))
        # module-level statements
        units = [('<module>', [s for s in mi.tree.body])] + [(q, f.body) for q, f in _functions(mi.tree)]
        for qual, body in units:
            sc = SinkScan()
            sc.block(body, {}, {})
            for kind, text, ok, why, line in sc.found:
                base = f'C14:static:sink:{short}.{qual}:{kind}'
                k = seen.get(base, 0)
                seen[base] = k + 1
                name = base if k == 0 else f'{base}#{k}'
                allow = ALLOW.get((modname, qual, kind))
                detail = f'{os.path.basename(mi.file)}:{line} {kind}({text}): {why}'
                if not ok and allow is not None and allow[0] == text:
                    used_allow.add((modname, qual, kind))
                    extras.append(Extra(name, 'static', 'discharged', 'ast-static', 0.0,
                                        f'{detail}; ALLOWLISTED sink: {allow[1]}'))
                    continue
                extras.append(Extra(name, 'static', 'discharged' if ok else 'failed', 'ast-static', 0.0, detail,
                                    None if ok else {'file': mi.file, 'line': line, 'sink': kind, 'target': text, 'function': qual}))
                if not ok:
                    REPLAYS[base] = _SINK_REPLAY
    # vacuity: the allowlisted sinks must still exist in the form that was reviewed
    for key, (text, why) in ALLOW.items():
        nm = f'C14:static:allowlist:{key[0].split(".", 1)[1]}.{key[1]}'
        ok = key in used_allow
        extras.append(Extra(nm, 'static', 'discharged' if ok else 'failed', 'ast-static', 0.0,
                            f'allowlisted sink {key[2]}({text}) ' + ('present as reviewed' if ok else 'no longer has the reviewed form: review the allowlist')))
    dt = time.time() - t0
    for e in extras:
        e.seconds = round(dt / max(1, len(extras)), 4)
    return extras


# ------------------------------------------------------------------------------------------------
# static obligations: the functions assumed pure in contracts/c14_writers.py reach no write sink
# ------------------------------------------------------------------------------------------------
PURE = [('biogeme.results', 'bioResults.get_html'), ('biogeme.results', 'bioResults.get_latex'),
        ('biogeme.results', 'bioResults.get_f12'), ('biogeme.tools.database', 'flatten_database')]


def static_pure(repo):
    from pyvc.driver import Extra
    out = []
    for modname, qual in PURE:
        t0 = time.time()
        name = f'C14:static:fs-pure:{modname.split(".", 1)[1]}.{qual}'
        mi = repo.modules.get(modname)
        funcs = dict(_functions(mi.tree)) if mi is not None else {}
        if qual not in funcs:
            out.append(Extra(name, 'static', 'failed', 'ast-static', 0.0, f'function {modname}.{qual} not found'))
            continue
        cls = qual.split('.')[0] + '.' if '.' in qual else ''
        todo, done, offending = [qual], set(), []
        while todo:
            q = todo.pop()
            if q in done:
                continue
            done.add(q)
            fn = funcs[q]
            for kind, target, node in sinks_in_expr(fn):
                offending.append(f'{q}: {kind}({_key(target) if target is not None else ""}) at line {node.lineno}')
            for n in ast.walk(fn):
                if isinstance(n, ast.Call):
                    f = n.func
                    callee = None
                    if isinstance(f, ast.Attribute) and isinstance(f.value, ast.Name) and f.value.id == 'self':
                        callee = cls + f.attr
                    elif isinstance(f, ast.Name):
                        callee = f.id if f.id in funcs else (q + '.' + f.id if q + '.' + f.id in funcs else None)
                    if callee in funcs and callee not in done:
                        todo.append(callee)
                    if isinstance(f, ast.Attribute) and f.attr.startswith('write_') and cls + f.attr in funcs:
                        offending.append(f'{q}: calls writer {f.attr} at line {n.lineno}')
        ok = not offending
        out.append(Extra(name, 'static', 'discharged' if ok else 'failed', 'ast-static', round(time.time() - t0, 4),
                         f'{len(done)} functions reachable inside the module, no write sink' if ok else '; '.join(offending[:4]),
                         None if ok else {'offending': offending[:6]}))
    return out


def extra(tier, seed):
    from pyvc.bounded import run_native
    from pyvc.repo import get_repo
    repo = get_repo()
    out = static_sinks(repo) + static_pure(repo)
    t, s = tier, str(seed)
    out.append(run_native('C14:bounded:output-histories-never-overwrite', 'c14_native.py', ['histories', t, s],
                          bound='histories of write_pickle/write_html/write_latex/write_f12/dump_on_file/generate_flat_panel_dataframe in one '
                                'directory: all of length <= ' + ('3' if tier == 'thorough' else '2') + ', each operation repeated up to 5 times, '
                                + ('100' if tier == 'thorough' else '6') + ' random histories of length 5; empty and pre-populated directory'))
    out.append(run_native('C14:bounded:recycled-results-are-those-of-the-same-model', 'c14_recycle.py', [],
                          bound='3 pairs of model names sharing a prefix, both orders of estimation: files_of_type lists only own files, estimate(recycle=True) returns own estimates'))
    out.append(run_native('C14:bounded:pickle-round-trip', 'c14_native.py', ['pickle', t, s],
                          bound=('100' if tier == 'thorough' else '8') + ' generated results objects (K in 1..4, with/without null model and bootstrap, '
                                'singular Hessian): raw data, statistics, estimates and reports after write_pickle + bioResults(pickle_file)'))
    out.append(run_native('C14:bounded:reports-list-every-parameter', 'c14_native.py', ['reports', t, s],
                          bound=('150' if tier == 'thorough' else '10') + ' generated results objects (K in 1..5, names up to 27 characters, values from 0 to 3e300): '
                                'get_html/get_latex/get_f12/__str__ and the written files'))
    out.append(run_native('C14:bounded:parameter-file-round-trip', 'c14_native.py', ['toml', t, s],
                          bound='all default parameters x value grid per type (bool, int, float incl. 1e-300 and 1e300, strings with quotes / '
                                'unicode / # / backslash) filtered by the parameter\'s own checks, one at a time, plus '
                                + ('200' if tier == 'thorough' else '5') + ' combined assignments'))
    return out
