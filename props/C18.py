"""C18 - MDCEV forecasts solve the consumer problem and model pieces agree."""
import time

CONTRACT_MODULES = ['c18_mdcev']
LEVEL = 'other'
TRUSTED = ['pyvc (VC generator, Python semantics of the stated subset)', 'z3 5.1.0 / cvc5',
           'specs/c18_diff.py: reference utilities of the four variants and the symbolic differentiator (cross-checked with sympy at every run)',
           'pyvc/libext/c18_transc.py: ground instances of exp/log/pow identities (A-TRANSC)',
           'contracts/c18_sorts.py: Key / Index sort declarations of the mdcev fields and parameters',
           'pyvc/libext/m3_c18_sets.py (round 3): LIBSPEC set iteration facts (members <-> enumerated positions) for C18; '
           'sum(dict.values()) as ONE uninterpreted function of the dictionary content; specification name c18_total']
ASSUMPTIONS = ['A-REAL: floats are mathematical reals (overflow clamp MAX_EXP_ARGUMENT of the translated model: stated for unclamped multipliers)',
               'A-TRANSC: exp(x)>0, log(exp x)=x, exp(log x)=x for x>0, exp(sum)=prod exp, exp(ite)=ite exp, b**c=exp(c log b) for b>0 '
               '(ground instances only, at the applications met in code and contracts)',
               'A-VALUE: Expression.get_value(), calculate_baseline_utility(), calculate_mu_utility() are pure functions of their arguments',
               'ASSUMED contract Mdcev.identification_chosen_alternatives (A-VALUE): its answer (choice set, lower, upper) is a deterministic '
               'function of model, row, budget and draw',
               'ASSUMED contract Mdcev.optimal_consumption: a NEW dict with exactly one entry per alternative of the given set, whose total is a '
               'function of (model, set, multiplier, draw, row); the call is recorded in ghost fields of the model that no code reads',
               'parameter domain: gamma>0, price>0, scale>0, 0<alpha<1, consumption>=0 (>0 for the outside good), multiplier>0 '
               '(> mu+epsilon for the non-monotonic model)']
EXPLANATION = ('For the four MDCEV variants and every configuration at once (outside good / prices / scale are symbolic inputs), the real '
               'utility_one_alternative is proved equal to the reference utility, derivative_utility_one_alternative to its symbolic x-derivative, '
               'and optimal_consumption_one_alternative to invert that derivative; the bisection keeps an ordered bracket and stops only within '
               'tolerance; round 3: it refuses IFF the identified bracket is empty, an end of the bracket only moves to a tried multiplier '
               '(upper end: one that underspends the budget, lower end: one that overspends it) and the multiplier tried last did become '
               'the end on its side, the consumptions returned are those of ONE call of optimal_consumption for the identified choice set at a '
               'multiplier inside the identified bracket, completed with 0 for exactly the other alternatives of the model; a static sort analysis of the real AST separates alternative labels (Key) from positions (Index). '
               'Forecast feasibility/KKT/optimality/label-invariance, numeric==symbolic utility and Mdcev.__init__ are bounded stand-ins.')
LEVEL_TEXT = ('Mixed: deductive proof (all parameter values, all configurations) for the 12 per-variant methods and the bisection bracket; '
              'static AST obligation for Key/Index sorts; bounded native stand-ins (labelled, with bounds) for the forecasts, the symbolic '
              'utility expression and the constructor.')
LEVEL_NOTE = ('Trusted: pyvc, z3/cvc5, floats as reals, the exp/log/pow identities (ground instances), the reference utilities and the '
              'differentiator (sympy cross-check), purity of expression values; bounded stand-ins cover the stated grids only.')
TECHNIQUE = 'contract-based deductive verification (AST -> VCs -> z3/cvc5) + static sort analysis of the AST + bounded stand-ins on the real code'
DESIGN_REF = 'DESIGN.md section 3 / C18'

_REPLAY_GAMMA = """
# F-26: alternative label compared with the POSITION of the outside good (gamma_profile.py, derivative at zero)
import sys
sys.path.insert(0, '/verif/bounded')
import c18_pieces
n, bad = c18_pieces.run(variants=['gamma_profile'], what='derivative', cases=6, seed=0)
violated = bool(bad)
detail = f'{n} native cases; first mismatch: {bad[0] if bad else None}'
"""

_REPLAY_COMPARISON = """
# forecast_comparison_one_draw hands sum_of_utilities a vector ordered by SORTED label, sum_of_utilities reads it by POSITION
import sys, warnings
sys.path.insert(0, '/verif/bounded')
import numpy as np
import c18_models as M
spec = M.Spec('gamma_profile', [3, 7, 10], False, False, False)
model, row = spec.build(), M.one_row()
seen = []
orig = model.sum_of_utilities
def spy(consumptions, epsilon, data_row):
    seen.append(np.array(consumptions, dtype=float))
    return orig(consumptions=consumptions, epsilon=epsilon, data_row=data_row)
model.sum_of_utilities = spy
eps = np.array([0.3, -0.2, 0.1])
with warnings.catch_warnings():
    warnings.simplefilter('ignore')
    model.forecast_comparison_one_draw(one_row_of_database=row, total_budget=10.0, epsilon=eps)
    sol = model.forecast_bisection_one_draw(one_row_of_database=row, total_budget=10.0, epsilon=eps)
aligned = np.array([sol[k] for k in model.index_to_key])
got = [v for v in seen if len(v) == 3][-1]
violated = not np.allclose(got, aligned, rtol=1e-6, atol=1e-9)
detail = f'index_to_key={model.index_to_key}: consumptions evaluated {got.tolist()} but position-wise forecast is {aligned.tolist()}'
"""

REPLAYS = {
    'C18:static:key-vs-index-sorts:mdcev.gamma_profile': _REPLAY_GAMMA,
    'C18:static:key-vs-index-sorts:mdcev.mdcev': _REPLAY_COMPARISON,
}

MIN_SORT_CHECKED = 40      # vacuity guard of the static analysis (172 sort-checked sites on the reference tree)


def _static_sorts():
    from pyvc.driver import Extra
    from pyvc.repo import get_repo
    from contracts import c18_sorts as S
    t0 = time.time()
    out = []
    repo = get_repo()
    nfun, checked, vio = S.analyse(repo)
    for mod in S.MODULES:
        mi = repo.modules.get(mod)
        name = f'C18:static:key-vs-index-sorts:{mod.replace("biogeme.", "")}'
        if mi is None:
            out.append(Extra(name, 'static', 'unknown', 'ast-static', time.time() - t0, f'module {mod} not found'))
            continue
        mine = [v for v in vio if v['file'] == mi.file]
        if mine:
            detail = '; '.join(f"{v['file'].split('/biogeme/')[-1]}:{v['line']} {v['function']}: {v['what']} [{v['code']}]" for v in mine)
            out.append(Extra(name, 'static', 'failed', 'ast-static', time.time() - t0, detail[:900], {'violations': mine}))
        else:
            out.append(Extra(name, 'static', 'discharged', 'ast-static', time.time() - t0, ''))
    status = 'discharged' if checked >= MIN_SORT_CHECKED else 'unknown'
    out.append(Extra('C18:static:key-vs-index-sorts:coverage', 'static', status, 'ast-static', time.time() - t0,
                     f'{checked} comparisons/subscripts/keyword arguments sort-checked in {nfun} functions (minimum {MIN_SORT_CHECKED})'))
    return out


def _lemma_differentiator():
    """specs/c18_diff.d against sympy.diff on the eight reference utilities (exact simplification, then 40-digit points)."""
    from pyvc.driver import Extra
    t0 = time.time()
    try:
        import mpmath
        import sympy
        from specs import c18_diff as D
        syms = {n: sympy.Symbol(n, positive=True) for n in ('x', 'V', 'e', 'p', 'g', 'a', 'mu')}
        loc = dict(syms, exp=sympy.exp, log=sympy.log)
        bad = []
        for variant, pair in D.UTILITIES.items():
            for which, src in zip(('outside', 'regular'), pair):
                mine = sympy.sympify(D.d(src), locals=loc)
                ref = sympy.diff(sympy.sympify(src, locals=loc), syms['x'])
                diff = sympy.simplify(mine - ref)
                if diff != 0:
                    mpmath.mp.dps = 40
                    pts = [{syms[n]: sympy.Rational(3 + 7 * k + 2 * j, 11 + j) for j, n in enumerate(syms)} for k in range(3)]
                    for pt in pts:
                        pt[syms['a']] = sympy.Rational(2, 5)
                        val = abs(sympy.N(diff.subs(pt), 40))
                        if not val < sympy.Float('1e-30'):
                            bad.append(f'{variant}/{which}: d/dx differs from sympy by {val}')
                            break
        if bad:
            return Extra('C18:lemma:differentiator-vs-sympy', 'lemma', 'failed', 'sympy', time.time() - t0, '; '.join(bad)[:600])
        return Extra('C18:lemma:differentiator-vs-sympy', 'lemma', 'discharged', 'sympy', time.time() - t0,
                     '8 reference utilities: specs/c18_diff.d == sympy.diff')
    except Exception as e:     # pragma: no cover
        return Extra('C18:lemma:differentiator-vs-sympy', 'lemma', 'error', 'sympy', time.time() - t0, f'{type(e).__name__}: {e}')


def extra(tier, seed):
    from pyvc.bounded import run_native
    quick = tier == 'quick'
    out = _static_sorts()
    out.append(_lemma_differentiator())
    cases = 8 if quick else 40
    out.append(run_native('C18:bounded:pieces-agree-natively', 'c18_pieces.py', [str(cases), str(seed)],
                          bound=f'4 variants x all configurations x 3 labellings x 3 alternatives x {cases} (x, epsilon) points, x in (0,100], '
                                f'|epsilon|<=2: numeric utility == symbolic utility expression == reference; derivative == d/dx reference == '
                                f'engine gradient == finite difference; derivative(optimal_consumption(lambda)) == lambda'))
    draws, brute = (20, 3) if quick else (500, 25)
    out.append(run_native('C18:bounded:forecast-solves-consumer-problem', 'c18_forecast.py', [str(draws), str(seed), str(brute)],
                          bound=f'4 variants x all configurations x labellings {{1,2,3}},{{3,7,10}},{{5,0,2}} x {draws} Gumbel draws x budgets '
                                f'0.5/5/50: consumptions >= 0, budget exhausted, outside good consumed, KKT residual <= 1e-6, >= SLSQP '
                                f'brute force on {brute} draws, identical under relabelling; sample test of the ASSUMED contracts of '
                                f'identification_chosen_alternatives / optimal_consumption on every forecast; histories per model: a second observation in a '
                                f'one-row database of the same name, the first observation again, new estimation results then the same observation object', timeout=1500))
    out.append(run_native('C18:bounded:init-label-position-maps', 'c18_init.py', [str(10 if quick else 200), str(seed)],
                          bound='3 + N random label sets (2..6 integers in [-50,200]), every position of the outside good: '
                                'key_to_index o index_to_key = id, one outside good, malformed inputs rejected'))
    return out
