"""C13 - data-set transformations keep rows and values intact."""
import json
import os
import subprocess
import time

CONTRACT_MODULES = ['c13_database']
LEVEL = 'other'
TRUSTED = ['pyvc (VC generator, Python semantics of the stated subset)', 'z3 5.1.0 / cvc5',
           'LIBSPEC-pd (pyvc/libext/c13_pandas.py): assumed contracts of df.iloc[list] (positional), pd.concat, '
           'np.array_split (k consecutive chunks covering x), np.random.randint (values in [lo, hi)), np.random.shuffle, '
           'df[col], df[mask], Series.isin, Series.unique, DataFrame.sample(frac=1) as pure uninterpreted members',
           'assumed contract of Database.__init__ (stores the frame it is given; may reject it)',
           'bounded stand-in: the row-level oracle of bounded/c13_native.py (plain Python)']
ASSUMPTIONS = ['A-REAL: floats are mathematical reals',
               'LIBSPEC-pd: what is proved for split / extract_rows / sample_* is WHICH positions / chunks are handed to the '
               'pandas members; that array_split partitions its argument, that isin selects every row of a listed group and that '
               'sample(frac=1) is a permutation are assumed (and exercised natively by the bounded stand-in)',
               'functions that mutate a frame in place (remove, add_column, define_variable, scale_column, panel/build_panel_map) '
               'and the pandas-heavy ones (count, flatten_database, generate_flat_panel_dataframe) are decided by the bounded '
               'stand-in only: bounded, never counted as proved']
EXPLANATION = ('split, extract_rows, sample_with_replacement and sample_individual_map_with_replacement are verified deductively against '
               'contracts over an assumed pandas model: fold i validates on chunk i and estimates on the concatenation of exactly the '
               'other chunks, in order (loop invariant); extract_rows raises IndexError iff a position lies outside the table and otherwise '
               'takes exactly the requested positions; bootstrap positions lie inside the table / the individual map. remove, add_column, '
               'define_variable, scale_column, panel, count and flattening are compared with a row-level oracle by a bounded stand-in '
               'on the real code (operation sequences on small tables with default / shifted / permuted / duplicate / gapped index labels).')
LEVEL_TEXT = ('Mixed: deductive proof (all inputs) of the row-selection arithmetic of four functions over an assumed pandas model; '
              'every in-place transformation is decided by a bounded stand-in on the real code, labelled bounded with its bound.')
LEVEL_NOTE = 'Trusted: pyvc, z3/cvc5, LIBSPEC-pd, the plain-Python oracle of the bounded stand-in.'
TECHNIQUE = 'contract-based deductive verification (AST -> VCs -> z3/cvc5) + bounded stand-ins on the real code'
DESIGN_REF = 'DESIGN.md section 3 / C13'
_BOUNDED_REPLAY = """
# re-run the recorded witnesses (table + operation sequence) of the bounded stand-in on the real code
import sys
sys.path.insert(0, '/verif/bounded')
import c13_native
bad = []
for f in (m or {}).get('failures') or []:
    bad += c13_native.run_case(f['table'], f['ops'], f.get('seed', 0))
violated = bool(bad)
detail = str(bad[:2])
"""

# clause of the bounded stand-in -> (obligation name, what it decides)
CLAUSES = {
    'remove.rows-and-count': 'Database.remove on a table with pairwise distinct index labels: rows kept = rows with zero indicator '
                             '(order, labels, values), count reported, temporary column gone',
    'remove.rows-and-count.duplicate-labels': 'the same on a table whose index carries duplicate labels (after extract_rows with repeated '
                                              'positions, bootstrap samples, concatenated files)',
    'remove.individual-map-current': 'Database.remove on panel data: individualMap describes the table that is left',
    'add_column.values': 'Database.add_column: new column holds the formula value of each row, everything else unchanged',
    'define_variable.values': 'Database.define_variable: same as add_column, returns the variable',
    'scale_column.one-column': 'Database.scale_column: exactly one column multiplied',
    'panel.map': 'Database.panel/build_panel_map: rows kept, sorted by individual, one [first, last] range per individual',
    'extract_rows.positional': 'Database.extract_rows: rows at the requested positions (repeats allowed), range errors, source untouched',
    'count.value': 'Database.count: number of rows holding the value',
    'sample_with_replacement.existing-rows': 'Database.sample_with_replacement: only rows of the table, requested size',
    'sample_individual_map.existing-individuals': 'sample_individual_map_with_replacement: only individuals (ranges) of the current table, requested size',
    'split.folds': 'Database.split: validation parts disjoint and covering, estimation = complement, groups never separated',
    'flatten.values': 'flatten_database / generate_flat_panel_dataframe: one line per individual, values of the k-th observation',
    'harness': 'harness self-check (initial table equals its model; no unexpected exception)',
}


REPLAYS = {f'C13:bounded:{c}': _BOUNDED_REPLAY for c in CLAUSES}


def _run_native(tier, seed, timeout):
    from pyvc.driver import VENV_PY, VERIF
    e = dict(os.environ)
    e.pop('PYTHONPATH', None)
    repo = os.environ.get('VERIF_REPO')
    if repo and repo != '/repo':
        e['PYTHONPATH'] = os.path.join(repo, 'src')
    r = subprocess.run([VENV_PY, os.path.join(VERIF, 'bounded', 'c13_native.py'), tier, str(seed)],
                       capture_output=True, text=True, timeout=timeout, cwd='/tmp', env=e)
    line = (r.stdout.strip().splitlines() or [''])[-1]
    return json.loads(line), (r.stdout + r.stderr)[-1500:]


def extra(tier, seed):
    from pyvc.driver import Extra
    bound = ('tables <= 6 rows, <= 3 groups, index labels default/shifted/permuted/duplicate/all-equal/gapped/string '
             '(10 fixed + 12 generated); ALL sequences of length <= 2 of 18 state-changing operations (remove x7, add_column x2, '
             'define_variable, scale_column x2, panel, extract_rows x5) on 4 tables, length <= 1 on the others, 250 random sequences of '
             'length 3; all observers (count, sample_*, split 2/3/4 slices with/without groups, flatten) after the last operation'
             if tier == 'quick' else
             'as quick, with ALL sequences of length <= 3 on 3 tables (default, duplicate, every-label-twice index) and <= 2 on the other 7, '
             '200 generated tables (sequences of length <= 1), 4000 random sequences of length 3, 40 tables of 40 rows / 7 groups with '
             '5 fixed sequences each')
    t0 = time.time()
    try:
        d, raw = _run_native(tier, seed, 300 if tier == 'quick' else 3000)
    except subprocess.TimeoutExpired:
        return [Extra('C13:bounded:native-sequences', 'bounded', 'unknown', 'native', time.time() - t0, 'timeout', bound=bound)]
    except Exception as e:                                   # noqa: BLE001
        return [Extra('C13:bounded:native-sequences', 'bounded', 'error', 'native', time.time() - t0, f'{e}', bound=bound)]
    secs = time.time() - t0
    out = []
    fails = d.get('failures', [])
    for clause, what in CLAUSES.items():
        mine = [f for f in fails if f['clause'] == clause]
        n = d.get('by_clause', {}).get(clause, 0)
        name = f'C13:bounded:{clause}'
        if mine:
            w = mine[0]
            detail = (f"{n} failing cases; first: {w['detail']} | table labels={w['table']['labels']} g={w['table']['g']} "
                      f"x={w['table']['x']} y={w['table']['y']} | operations={w['ops']} | "
                      f"re-run: /venv/bin/python /verif/bounded/c13_native.py --case '<witness json>'")
            out.append(Extra(name, 'bounded', 'failed', 'native', secs / len(CLAUSES), detail[:1500],
                             witness={'what': what, 'failures': mine[:3],
                                      'rerun': "/venv/bin/python /verif/bounded/c13_native.py --case '" +
                                               json.dumps({'table': w['table'], 'ops': w['ops'], 'seed': w.get('seed', 0)}) + "'"},
                             bound=bound, cases=d.get('cases', 0)))
        else:
            out.append(Extra(name, 'bounded', 'discharged', 'native', secs / len(CLAUSES), '', bound=bound,
                             cases=d.get('cases', 0) if clause == 'remove.rows-and-count' else 0))
    return out
