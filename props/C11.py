"""C11 - every named draw type delivers the distribution and structure it advertises."""
import time

CONTRACT_MODULES = []          # the contracts of C11 are discharged through the element-wise executor (see extra())
LEVEL = 'other'
TRUSTED = ['pyvc.repo (AST extraction of the real source) + pyvc/libext/c11_elemwise.py (element-wise symbolic executor for numpy mask code)',
           'z3 5.1.0 (branch conditions, shapes, strata, mirror images); sympy 1.14 exact rational polynomial algebra (coefficients, formula identity)',
           'specs/c11_ppnd16.py: transcription of Wichura (1988) AS241/PPND16, cross-checked against mpmath (50 digits) and scipy.stats.norm.ppf',
           'LIBSPEC: numpy.random.uniform yields values in [0,1); numpy.random.shuffle permutes positions; reshape keeps the flat (C) order']
ASSUMPTIONS = ['A-REAL: floats are mathematical reals',
               'A-ELEMWISE: numpy arithmetic, comparisons, ufuncs and boolean-mask loads/stores act position by position',
               'A-TRANSC: sqrt and log are uninterpreted real functions; only (sqrt(-log t) <= 5) <=> (t >= exp(-25)) and positivity are used',
               'A-PUBLISHED: PPND16 itself approximates the normal quantile to about 1e-16 (Wichura 1988); sanity-checked on a grid only',
               'A-CATALOGUE-MODULAR: the catalogue is resolved with the contracts of the five primitives of draws.py as transfer functions']
EXPLANATION = ('get_normal_wichura_draws is proved point-wise equal to the published PPND16 algorithm for every u in (0,1) '
               '(branch conditions, tail argument, split, sign, each of the 45 coefficients, the formula of each of the 5 regions), '
               'get_uniform / get_latin_hypercube_draws / get_antithetic / the symmetric antithetic helpers are proved for all sizes '
               '(support, 2u-1 map, one point per stratum before shuffling, mirror halves, shapes for even R); the 21 catalogue entries are '
               'resolved statically to call shapes and compared with what key and description advertise.  Halton vs the radical inverse, '
               'the end-to-end structure of the 21 generators, the quantile accuracy on a grid and Database.generate_draws are bounded stand-ins.')
LEVEL_TEXT = ('Mixed: deductive proof (all inputs, all sizes; element-wise semantics) for the normal-quantile transform, the uniform, Latin-hypercube '
              'and antithetic generators and the catalogue wiring; bounded stand-ins on the real code for Halton sequences, end-to-end structure, '
              'floating-point accuracy and generate_draws, labelled bounded and never counted as proved.')
LEVEL_NOTE = ('Trusted: the element-wise executor and its numpy model, z3, sympy, the PPND16 transcription, floats as reals; '
              'get_halton_draws (while loop over slice copies) is only checked up to the stated lengths.')
TECHNIQUE = 'contract-based deductive verification (AST -> element-wise VCs -> z3 / exact polynomial algebra) + static AST resolution + bounded stand-ins on the real code'
DESIGN_REF = 'DESIGN.md section 3 / C11'

_NORMAL_REPLAY = """
# get_normal_wichura_draws on the solver's u and on fixed candidates, against scipy's normal quantile and
# the PPND16 transcription (specs/c11_ppnd16.py)
import sys
sys.path.insert(0, '/verif')
import numpy as np
from scipy.stats import norm
from biogeme import draws
from specs import c11_ppnd16 as S
cands = []
if isinstance(m.get('u'), (int, float)) and 0.0 < float(m['u']) < 1.0:
    cands.append(float(m['u']))
cands += [1e-5, 0.5, 0.46, 0.01, 0.2, 0.8, 0.9, 0.95, 0.999, 1e-12, 1e-9, 1e-100, 1 - 1e-9, 0.07, 0.08, 0.93]
violated, worst = False, 0.0
for u in cands:
    got = float(draws.get_normal_wichura_draws(1, 1, uniform_numbers=np.array([u]))[0, 0])
    want, ref = float(norm.ppf(u)), S.ppnd16(u)
    dev = max(abs(got - want), abs(got - ref)) / max(1.0, abs(want))
    if dev > 1e-13 and dev > worst:
        worst, violated = dev, True
        detail = f'get_normal_wichura_draws(u={u!r}) = {got!r}; standard normal quantile = {want!r}; PPND16 = {ref!r}'
if not violated:
    detail = f'no deviation above 1e-13 on {len(cands)} candidates'
"""

_CATALOGUE_REPLAY = """
# the generator of the catalogue entry against the scheme its key advertises, rebuilt from the primitives of draws.py
# under the same seed (Halton: deterministic), sizes (3, 6) and (2, 10)
import re
import numpy as np
from scipy.stats import norm
from biogeme import draws
from biogeme.native_draws import native_random_number_generators as cat
keys = [m['key']] if isinstance(m.get('key'), str) and m['key'] in cat else list(cat)
violated = False
detail = ''
for key in keys:
    dist, scheme, base, anti = re.fullmatch(r'(UNIFORMSYM|UNIFORM|NORMAL)(?:_(HALTON(\\d+)|MLHS))?(_ANTI)?', key).groups()
    for n, r in ((3, 6), (2, 10)):
        rr = r // 2 if anti else r
        np.random.seed(11)
        if scheme is None:
            u = draws.get_uniform(n, rr)
        elif scheme == 'MLHS':
            u = draws.get_latin_hypercube_draws(n, rr)
        else:
            u = draws.get_halton_draws(n, rr, base=int(base), skip=10)
        x = u if dist == 'UNIFORM' else (2.0 * u - 1.0 if dist == 'UNIFORMSYM' else norm.ppf(u))
        if anti:
            x = np.concatenate((x, 1.0 - x if dist == 'UNIFORM' else -x), axis=1)
        np.random.seed(11)
        got = cat[key].generator(n, r)
        if got.shape != x.shape or not np.allclose(got, x, rtol=1e-12, atol=1e-12):
            violated = True
            detail = f'{key} ({cat[key].description}) with sample_size={n}, number_of_draws={r}: got {got.flatten()[:4]}..., advertised scheme gives {x.flatten()[:4]}...'
            break
    if violated:
        break
"""

_STRUCTURE_REPLAY = """
# end-to-end structure of the 21 generators on the real code (shape, support, antithetic halves, 2u-1, strata)
import sys
sys.path.insert(0, '/verif/bounded')
import c11_native
n, bad = c11_native.mode_structure('quick', 0)
violated = bool(bad)
detail = f'{n} cases; first mismatch: {bad[0] if bad else None}'
"""


def _replays():
    import os
    import sys
    sys.path.insert(0, os.path.dirname(os.path.dirname(os.path.abspath(__file__))))
    from specs import c11_ppnd16 as S
    from contracts.c11_catalogue import EXPECTED_KEYS
    r = {}
    p = 'C11:draws.get_normal_wichura_draws:'
    for n in (['ppnd16:branch:central-condition', 'ppnd16:branch:tail-argument', 'ppnd16:branch:tail-split', 'ppnd16:branch:tail-sign',
               'ppnd16:pointwise-equal', 'ppnd16:regions-cover-unit-interval', 'internal-uniform:same-transform', 'in-subset',
               'antithetic:first-half']
              + [f'ppnd16:region:{x}' for x in ('central', 'near-tail-lower', 'near-tail-upper', 'far-tail-lower', 'far-tail-upper')]
              + [f'ppnd16:coef:{c[0]}' for c in S.coefficient_names()]):
        r[p + n] = _NORMAL_REPLAY
    for k in EXPECTED_KEYS + ['keys', 'distinct-schemes']:
        r[f'C11:static:catalogue:{k}'] = _CATALOGUE_REPLAY
    return r


REPLAYS = _replays()


_MLHS_REPLAY = """
# get_latin_hypercube_draws on supplied uniform numbers: the result must be a permutation of (i + u_i)/T, i = 0..T-1
# (2x-1 when symmetric), one point per stratum
import numpy as np
from biogeme import draws
violated, detail = False, ''
for n, r in ((1, 4), (3, 10), (5, 7)):
    for symmetric in (False, True):
        np.random.seed(3)
        u = np.random.uniform(size=n * r)
        x = draws.get_latin_hypercube_draws(n, r, symmetric=symmetric, uniform_numbers=u.copy())
        want = (np.arange(n * r) + u) / (n * r)
        want = 2.0 * want - 1.0 if symmetric else want
        if x.shape != (n, r) or not np.allclose(np.sort(x.flatten()), np.sort(want), rtol=0, atol=1e-15):
            violated = True
            detail = f'sample_size={n}, number_of_draws={r}, symmetric={symmetric}: sorted result {np.sort(x.flatten())[:4]}..., (i+u_i)/T gives {np.sort(want)[:4]}...'
            break
    if violated:
        break
"""


class _Default(dict):
    """Obligations without a dedicated replay are replayed by the end-to-end structure check on the real code."""

    def get(self, k, default=None):
        if k.startswith('C11:draws.get_latin_hypercube_draws'):
            return _MLHS_REPLAY
        return dict.get(self, k, _STRUCTURE_REPLAY)


REPLAYS = _Default(REPLAYS)


def _mpmath_accuracy(tier):
    """PPND16 (the transcription, evaluated in 50-digit arithmetic) against the true normal quantile: bounded sanity
    check of the published accuracy claim (A-PUBLISHED)."""
    from pyvc.driver import Extra
    import mpmath as mp
    from specs import c11_ppnd16 as S
    t0 = time.time()
    mp.mp.dps = 50

    def spec(p):
        q = p - mp.mpf(1) / 2
        H = lambda tab, r: sum(mp.mpf(S.fl(t)) * r ** k for k, t in enumerate(S.TABLES[tab]))
        if abs(q) <= mp.mpf(S.fl(S.SPLIT1)):
            r = mp.mpf(S.fl(S.CONST1)) - q * q
            return q * H('a', r) / H('b', r)
        r = mp.sqrt(-mp.log(p if q < 0 else 1 - p))
        if r <= 5:
            r -= mp.mpf(S.fl(S.CONST2))
            z = H('c', r) / H('d', r)
        else:
            r -= 5
            z = H('e', r) / H('f', r)
        return -z if q < 0 else z
    pts = [mp.mpf(10) ** e for e in (-300, -200, -100, -50, -30, -20, -15, -12, -11, -10, -8, -6, -5, -4, -3, -2)]
    pts += [mp.mpf(k) / 40 for k in range(1, 40) if k != 20] + [mp.mpf('0.074'), mp.mpf('0.076'), mp.mpf('0.924'), mp.mpf('0.926'),
                                                              mp.mpf('0.4999'), mp.mpf('0.5001'), 1 - mp.mpf(10) ** -6, 1 - mp.mpf(10) ** -12]
    if tier != 'quick':
        pts += [mp.mpf(k) / 1000 for k in range(1, 1000) if k != 500]
    worst, at, fails = mp.mpf(0), None, []
    for p in pts:
        s = spec(p)
        f = (lambda x: mp.ncdf(x) - p) if p < 0.5 else (lambda x: (1 - p) - mp.ncdf(-x))
        t = mp.findroot(f, s)
        rel = abs((s - t) / t)
        if rel > worst:
            worst, at = rel, p
        if rel > mp.mpf('1e-15'):
            fails.append({'p': mp.nstr(p, 20), 'relative_error': mp.nstr(rel, 5)})
    return Extra('C11:bounded:ppnd16-accuracy-mpmath', 'bounded', 'failed' if fails else 'discharged', 'mpmath-50-digits', time.time() - t0,
                 f'worst relative error {mp.nstr(worst, 3)} at p={mp.nstr(at, 8)}' if not fails else str(fails[:3]),
                 witness={'failures': fails[:5]} if fails else None,
                 bound=f'{len(pts)} probabilities from 1e-300 to 1-1e-12; PPND16 in exact rational/50-digit arithmetic vs the true quantile, tolerance 1e-15 relative',
                 cases=len(pts))


def extra(tier, seed):
    from pyvc.driver import Extra
    from pyvc.bounded import run_native
    from pyvc.repo import get_repo
    from contracts import c11_catalogue, c11_draws
    repo = get_repo()
    out = []
    timeout = 20000 if tier == 'quick' else 60000
    # 1. catalogue wiring (static AST analysis)
    t0 = time.time()
    cat = c11_catalogue.catalogue(repo)
    dt = (time.time() - t0) / max(1, len(cat))
    for name, status, detail, witness in cat:
        out.append(Extra(name, 'static', status, 'ast-static', dt, detail, witness))
    # 2. contracts through the element-wise executor
    for fn in (c11_draws.wichura_obligations, c11_draws.uniform_obligations, c11_draws.mlhs_obligations,
               c11_draws.antithetic_obligations):
        t0 = time.time()
        try:
            obs = fn(repo, timeout)
        except Exception as e:                       # an executor crash is an undecided obligation, not a proof
            import traceback
            obs = [c11_draws.Ob(f'C11:{fn.__name__}:executor', 'error', 'elemwise', traceback.format_exc()[-800:])]
        for o in obs:
            out.append(Extra(o.name, 'static', o.status, o.backend, o.seconds, o.detail, o.witness))
    # 3. bounded stand-ins on the real code
    lmax = 400 if tier == 'quick' else 5000
    out.append(run_native('C11:bounded:halton-radical-inverse', 'c11_native.py', ['halton', tier, str(seed)],
                          bound=f'bases 2,3,5,7 x skips 0,1,10 x every length 1..{lmax} (one rows x columns factorisation each)'))
    out.append(run_native('C11:bounded:catalogue-structure', 'c11_native.py', ['structure', tier, str(seed)],
                          bound='21 catalogue entries x sizes (1,2),(2,4),(3,10),(7,50)' + (',(13,200),(1,1000),(50,20)' if tier != 'quick' else '')
                                + ' x seeded repetitions: shape, support, antithetic halves, 2u-1, quantile of the underlying scheme (1e-13), strata, distinct bases'))
    out.append(run_native('C11:bounded:normal-draws-are-quantiles-of-their-scheme', 'c11_native.py', ['structure_quantile', tier, str(seed)],
                          bound='the NORMAL_* catalogue entries on the sizes of catalogue-structure: draws equal the standard normal quantile of the underlying uniform scheme to 1e-13; NORMAL_MLHS strata'))
    out.append(run_native('C11:bounded:normal-quantile-grid', 'c11_native.py', ['quantile', tier, str(seed)],
                          bound=('u in {1e-300..1e-5 per decade, 41 points around exp(-25), ' + ('4001' if tier == 'quick' else '400001')
                                 + ' equispaced points of (0,1), branch boundaries, 1-1e-16..1-1e-5}: 4e-15 relative vs scipy.stats.norm.ppf, 1e-15 vs the PPND16 transcription')))
    out.append(run_native('C11:bounded:ppnd16-transcription-vs-scipy', 'c11_native.py', ['transcription', tier, str(seed)],
                          bound='same grid: the transcription of Wichura (1988) in double precision vs scipy.stats.norm.ppf, 4e-15 relative'))
    out.append(run_native('C11:bounded:generate-draws-shape', 'c11_native.py', ['generate_draws', tier, str(seed)],
                          bound='databases of 1,3,8 rows x draws 2,6,5 x 21 native types + user generators returning 6 shapes (only (rows, draws) accepted) + unknown type'))
    try:
        out.append(_mpmath_accuracy(tier))
    except Exception as e:
        out.append(Extra('C11:bounded:ppnd16-accuracy-mpmath', 'bounded', 'error', 'mpmath', 0.0, repr(e)[:300]))
    return out
