"""C17 - specification helpers equal their documented closed forms."""
# round 3 (agent c17d): contracts/c17d_piecewise.py supersedes contracts/c17_builders.py (same clauses + values; a qualified name
# can carry one contract only, and the verified node contracts of contracts/c05c_nodes.py replace its trivial assumed ones)
# round 3 (agent c17e): contracts/c17e_segmentation.py (segmented parameters; lemmas / static obligations in contracts/c17e_obligations.py)
CONTRACT_MODULES = ['piecewise', 'c17d_nodes', 'c17d_piecewise', 'c17d_builders', 'c17e_segmentation']
LEVEL = 'other'
TRUSTED = ['pyvc (VC generator, Python semantics of the stated subset)', 'z3 5.1.0 / cvc5 1.0.3',
           'LEMMA sum-zero-tail (finite sums; induction)',
           'contracts/c17_obligations.py: symbolic execution of the straight-line builder tails (ast + sympy), region samples',
           'sympy (term equality), scipy.stats / scipy.integrate.quad and the decimal module (oracles of the bounded stand-ins)',
           'round 3: engine extensions pyvc/libext/c05c_tree.py (nodes built under a binder, sum-congruence lemma, hypothesis-subset '
           'discharge strategy) and pyvc/libext/c17d_ext.py (re-typing of an untyped operand by ENTAILMENT from the path condition, '
           "`lst += [x]` as append, f'{s}' of a string, float()/isinstance() facts for untyped numbers, unfolding of sums over list "
           'displays, separate paths for the default-parameter loop), spec functions specs/c05c_specs.py, specs/c17d_specs.py']
ASSUMPTIONS = ['A-REAL: floats are mathematical reals',
               'A-NLA-UF: products of two symbolic reals are an uninterpreted commutative function with 0/1 laws',
               'A-NODE (C01): Expression operators denote real arithmetic, comparisons 0/1 indicators, exp/log the real functions, '
               'Elem selection, bioMultSum a sum (used by the static tree == textbook obligations; checked natively by the bounded stand-ins)',
               'piecewise builders under contract: at least two thresholds (a single threshold is outside the documented use); coefficients '
               'are Expression objects (plain numbers as coefficients: bounded stand-in); frame of piecewise_variables decided by '
               'C17:static:piecewise_variables:mutates-only-own-list',
               'round 3 value semantics: the value c05c_val(e) of a tree is the abstract (pure, trusted) Expression.get_value; nodes are '
               'immutable once built; DISPATCH LINK: the value of a node of known class K is what the verified contract of K.get_value says; '
               'operator overloads / validate_and_convert are applied as pure contracts (allocation abstracted)',
               'A-VARIABLE: the value of a Variable node is VARVAL(its name), the value of that data column in the current row (Variable has no '
               'Python get_value; specs/c17d_specs.py); LEMMA sum-congruence (induction): sums with pointwise equal terms are equal',
               'A-TOTAL-VALUE: every operand has a value (get_value does not raise): the argument checks of the distributions '
               '(`try: v = e.get_value() except NotImplementedError: v = None`) are decided on the value; natively they are skipped for an '
               'operand without a Python value (bounded stand-ins)',
               'x ** y, exp, log are uninterpreted over the reals (term equality); the coded literals 2.506628275 and 0.9189385332 are '
               'compared exactly, their distance from sqrt(2 pi) and log(2 pi)/2 is decided by the static obligations',
               'default parameters of piecewise_formula / piecewise_as_variable (betas=None): only safety (no exception, indexing) is proved, '
               'their value stays bounded; boxcox / loglikelihoodregression under contract for Expression arguments; '
               'Segmentation.segmented_beta stays bounded (<= 3 x 4) [superseded by round 3 / c17e below]',
               'round 3 (c17e) segmentation: the value of a parameter node (Beta) stays ABSTRACT (the current value of the parameter of that '
               'name; no contract on Beta.get_value in this run); beta_name / beta_expression / list_of_expressions are applied as PURE '
               'verified contracts (the node / the list as a function of the segmentation object and the category, allocation abstracted; the '
               'objects are not modified: frame obligations); OneSegmentation.__init__ requires `self is not segmentation_tuple` (objects of '
               'two classes); Segmentation.__init__ (generator of objects built under a binder) and the text of segmented_code are decided by '
               'static AST obligations and the bounded stand-in (exec of the generated code), not by VCs; an empty mapping with no '
               'reference escapes as StopIteration (stated in the raises clause of DiscreteSegmentationTuple.__init__)']
EXPLANATION = ('piecewise_function is proved equal to the documented closed form for all arguments, threshold lists and '
               'coefficient lists (unbounded, loop invariant over a recursive sum).  piecewise_variables is proved to return one variable per '
               'interval without TypeError/IndexError for every well-formed threshold list, piecewise_formula / piecewise_as_variable to refuse '
               'exactly the wrong numbers of coefficients and to index the variables safely (all list lengths).  The trees of boxcox, '
               'normalpdf, lognormalpdf, uniformpdf, triangularpdf, logisticcdf and loglikelihoodregression are compared with the textbook terms '
               'symbolically, region by region, for all real values (static, ast + sympy; constants within 1e-9), and the textbook densities are '
               'integrated to one symbolically (lemma, sympy).  Values of all builders '
               '(piecewise K<=6, Box-Cox around the switching point, densities on grids and their integrals, segmentations <= 3 x 4, '
               'nested-logit correlations and their labels) are decided by bounded stand-ins on the real code, labelled bounded.  '
               'Round 3 (contracts/c17d_*.py): the VALUE of the trees is now proved for all inputs on the real node constructors / operator '
               'overloads (verified contracts of contracts/c05c_nodes.py, re-discharged here, plus bioMin, bioMax, UnaryMinus, the comparison '
               'nodes, PowerConstant / __pow__, Elem): every variable of piecewise_variables equals max(0, min(x - t_q, t_q+1 - t_q)) (open ends: '
               'min(x, t_1), max(0, x - t_q)) for every threshold list, x given by name or as a node, malformed input refused exactly; '
               'piecewise_formula == sum_q value(beta_q) x_q and piecewise_as_variable == x_1 + sum_{q>=2} value(beta_q) x_q for given '
               'coefficients; boxcox == 0 at x = 0, the McLaurin series iff ell < 1e-5 and ell > -1e-5, (x^ell - 1)/ell otherwise; '
               'normalpdf, lognormalpdf, uniformpdf, triangularpdf (five regions), logisticcdf and loglikelihoodregression == the textbook '
               'terms, argument checks raise exactly when documented.  '
               'Round 3 (contracts/c17e_*.py): segmented parameters for EVERY number of segmentations and categories: '
               'DiscreteSegmentationTuple refuses exactly a reference that is not a category and defaults to the first category; '
               'OneSegmentation keeps exactly the non-reference entries; every term of list_of_expressions has the value '
               'parameter(name_category) * [variable == code]; segmented_beta == the sum over its term list, position 0 the reference '
               'parameter (name / start value / bounds / status of the given one), one position per (segmentation, category) pair - also '
               'when labels are shared between segmentations; lemmas (z3, induction base / step) turn the position sum into reference + '
               'sum_s sum_q shift * indicator; static AST obligations: segmented_code enumerates the same positions and renders the same '
               'terms, Segmentation.__init__ builds one OneSegmentation per tuple.')
LEVEL_TEXT = ('Mixed: deductive proof (all inputs, all list lengths) for piecewise_function and the threshold handling of the three piecewise '
              'builders and (round 3) for the values of the trees built by the piecewise builders (given coefficients), boxcox, the five '
              'distribution helpers and the regression likelihood, as equalities of terms over uninterpreted exp / log / pow; static symbolic comparison (all real values) of the density / Box-Cox / regression trees with the textbook terms; '
              'bounded stand-ins on the real code with independent oracles (scipy.stats, quadrature, 50-digit decimal arithmetic, closed '
              'forms) for the values, labelled bounded with their bounds and never counted as proved.  Round 3 (c17e): deductive proof '
              '(all numbers of segmentations / categories) for the segmentation builders up to segmented_beta; static AST obligations for the '
              'generated code and Segmentation.__init__; the bounded stand-in (<= 3 x 4, compiled engine, exec of the code) is kept.')
LEVEL_NOTE = ('Trusted: pyvc, z3/cvc5, floats as reals, the finite-sum lemma, the meaning of expression nodes (C01), sympy; '
              'bounded stand-ins cover the stated shapes and grids only.')
TECHNIQUE = ('contract-based deductive verification (AST -> VCs -> z3/cvc5) + static symbolic execution of builder tails (ast + sympy) '
             '+ bounded stand-ins on the real code')
DESIGN_REF = 'DESIGN.md section 3 / C17'

try:      # replay code of every static / bounded obligation (tools that only read the metadata may lack the path)
    from contracts.c17_obligations import REPLAYS
except ImportError:      # pragma: no cover
    REPLAYS = {}
try:      # round 3 (c17e): replays of the static segmentation obligations
    from contracts.c17e_obligations import REPLAYS as _SEG_REPLAYS
    REPLAYS = dict(REPLAYS, **_SEG_REPLAYS)
except ImportError:      # pragma: no cover
    pass


def extra(tier, seed):
    from contracts.c17_obligations import extras
    from contracts.c17d_lemmas import lemma_extras      # round 3: max/min form of the piecewise variables == case form
    from contracts.c17e_obligations import lemma_extras as seg_lemmas, static_extras as seg_static      # round 3 (c17e)
    return lemma_extras() + seg_lemmas() + seg_static() + extras(tier, seed)
