"""C17 - specification helpers equal their documented closed forms."""
# round 3 (agent c17d): contracts/c17d_piecewise.py supersedes contracts/c17_builders.py (same clauses + values; a qualified name
# can carry one contract only, and the verified node contracts of contracts/c05c_nodes.py replace its trivial assumed ones)
CONTRACT_MODULES = ['piecewise', 'c17d_nodes', 'c17d_piecewise', 'c17d_builders']
LEVEL = 'other'
TRUSTED = ['pyvc (VC generator, Python semantics of the stated subset)', 'z3 5.1.0 / cvc5 1.0.3',
           'LEMMA sum-zero-tail (finite sums; induction)',
           'contracts/c17_obligations.py: symbolic execution of the straight-line builder tails (ast + sympy), region samples',
           'sympy (term equality), scipy.stats / scipy.integrate.quad and the decimal module (oracles of the bounded stand-ins)',
           'contracts/c17_builders.py: constructors/operators of expression nodes are assumed fresh and effect-free']
ASSUMPTIONS = ['A-REAL: floats are mathematical reals',
               'A-NLA-UF: products of two symbolic reals are an uninterpreted commutative function with 0/1 laws',
               'A-NODE (C01): Expression operators denote real arithmetic, comparisons 0/1 indicators, exp/log the real functions, '
               'Elem selection, bioMultSum a sum (used by the static tree == textbook obligations; checked natively by the bounded stand-ins)',
               'piecewise builders under contract: `variable` given by name (str), coefficients given (not None), thresholds well formed, '
               'not a single threshold; frame of piecewise_variables decided by C17:static:piecewise_variables:mutates-only-own-list']
EXPLANATION = ('piecewise_function is proved equal to the documented closed form for all arguments, threshold lists and '
               'coefficient lists (unbounded, loop invariant over a recursive sum).  piecewise_variables is proved to return one variable per '
               'interval without TypeError/IndexError for every well-formed threshold list, piecewise_formula / piecewise_as_variable to refuse '
               'exactly the wrong numbers of coefficients and to index the variables safely (all list lengths).  The trees of boxcox, '
               'normalpdf, lognormalpdf, uniformpdf, triangularpdf, logisticcdf and loglikelihoodregression are compared with the textbook terms '
               'symbolically, region by region, for all real values (static, ast + sympy; constants within 1e-9), and the textbook densities are '
               'integrated to one symbolically (lemma, sympy).  Values of all builders '
               '(piecewise K<=6, Box-Cox around the switching point, densities on grids and their integrals, segmentations <= 3 x 4, '
               'nested-logit correlations and their labels) are decided by bounded stand-ins on the real code, labelled bounded.')
LEVEL_TEXT = ('Mixed: deductive proof (all inputs, all list lengths) for piecewise_function and the threshold handling of the three piecewise '
              'builders; static symbolic comparison (all real values) of the density / Box-Cox / regression trees with the textbook terms; '
              'bounded stand-ins on the real code with independent oracles (scipy.stats, quadrature, 50-digit decimal arithmetic, closed '
              'forms) for the values, labelled bounded with their bounds and never counted as proved.')
LEVEL_NOTE = ('Trusted: pyvc, z3/cvc5, floats as reals, the finite-sum lemma, the meaning of expression nodes (C01), sympy; '
              'bounded stand-ins cover the stated shapes and grids only.')
TECHNIQUE = ('contract-based deductive verification (AST -> VCs -> z3/cvc5) + static symbolic execution of builder tails (ast + sympy) '
             '+ bounded stand-ins on the real code')
DESIGN_REF = 'DESIGN.md section 3 / C17'

try:      # replay code of every static / bounded obligation (tools that only read the metadata may lack the path)
    from contracts.c17_obligations import REPLAYS
except ImportError:      # pragma: no cover
    REPLAYS = {}


def extra(tier, seed):
    from contracts.c17_obligations import extras
    return extras(tier, seed)
