"""C17 - specification helpers equal their documented closed forms."""
CONTRACT_MODULES = ['piecewise']
LEVEL = 'other'
TRUSTED = ['pyvc (VC generator, Python semantics of the stated subset)', 'z3 5.1.0 / cvc5 1.0.3',
           'LEMMA sum-zero-tail (finite sums; induction)']
ASSUMPTIONS = ['A-REAL: floats are mathematical reals',
               'A-NLA-UF: products of two symbolic reals are an uninterpreted commutative function with 0/1 laws']
EXPLANATION = ('piecewise_function is proved equal to the documented closed form for all arguments, threshold lists and '
               'coefficient lists (unbounded, loop invariant over a recursive sum).  Builders (piecewise_variables/formula, '
               'boxcox, distributions, segmentation, nests.correlation) are decided by bounded/shape-bounded stand-ins.')
LEVEL_TEXT = ('Mixed: deductive proof (all inputs, all list lengths) for piecewise_function; the expression builders are compared with '
              'their closed forms by bounded stand-ins on the real code, labelled bounded and never counted as proved.')
LEVEL_NOTE = 'Trusted: pyvc, z3/cvc5, floats as reals, the finite-sum lemma; bounded stand-ins cover the stated shapes only.'
TECHNIQUE = 'contract-based deductive verification (AST -> VCs -> z3/cvc5) + bounded stand-ins on the real code'
DESIGN_REF = 'DESIGN.md section 3 / C17'
