"""C09 - panel likelihood is the product over each individual's rows, with shared draws."""
CONTRACT_MODULES = []
LEVEL = 'other'
TRUSTED = ['ENGINE-SPEC: the engine multiplies over the rows [first,last] of each individual and reuses the individual draw (assumed; sampled)']
ASSUMPTIONS = ['pandas sort_values/unique semantics (LIBSPEC-pd) are exercised, not proved']
EXPLANATION = ('The contiguity check and the individual->rows map are pandas code outside the verified subset; the product over rows and the reuse of draws happen '
               'inside the compiled engine.  No contract within reach decides the clauses of this property; it is covered by a bounded stand-in on the real code '
               '(all orders of individuals and rows on small panels) and is labelled bounded.')
LEVEL_TEXT = 'Bounded stand-in only (pandas + external engine): exploration of small panels with an independent oracle; nothing is counted as proved.'
LEVEL_NOTE = 'Trusted: the oracle (plain Python products), ENGINE-SPEC.'
TECHNIQUE = 'bounded stand-in on the real code (no contract within reach: pandas / compiled engine)'
DESIGN_REF = 'DESIGN.md section 3 / C09'


def extra(tier, seed):
    from pyvc.bounded import run_native
    return [run_native('C09:bounded:panel', 'c09_panel.py', [tier, str(seed)],
                       bound='see the harness bound string: 1-4 (6) individuals x 1-3 (4) rows, all orders, MC draws coded by (individual, draw)', timeout=1500)]
