"""C09 - panel likelihood is the product over each individual's rows, with shared draws."""
import ast
import time

CONTRACT_MODULES = ['c09_panel']
LEVEL = 'other'
TRUSTED = ['ENGINE-SPEC: the engine multiplies over the rows [first,last] of each individual and reuses the individual draw (assumed; sampled)']
ASSUMPTIONS = ['pandas sort_values/unique semantics (LIBSPEC-pd) are exercised, not proved']
EXPLANATION = ('Proved: get_sample_size returns the number of rows of the individual map for panel data and of the table otherwise; z3 lemmas: in a column '
               'sorted by id the rows of an individual are contiguous and ranges of different individuals are disjoint (what makes [min,max] the exact row set); '
               'static obligations: build_panel_map sorts by the id column, renumbers, and stores [min,max] of the rows of each distinct id.  The product over rows '
               'and the reuse of draws happen inside the compiled engine (assumed); everything is exercised by a bounded stand-in on small panels in all orders.')
LEVEL_TEXT = 'Sample size contract, contiguity lemmas and static map-construction obligations; the engine product is assumed with a bounded stand-in.'
LEVEL_NOTE = 'Trusted: the oracle (plain Python products), ENGINE-SPEC.'
TECHNIQUE = 'contract + z3 lemmas + static AST obligations + bounded stand-in on small panels'
DESIGN_REF = 'DESIGN.md section 3 / C09'

REPLAYS = {'*': """
import os, subprocess, sys, json
env = dict(os.environ, C09_SKIP_NEGATIVE='1')
r = subprocess.run([sys.executable, '/verif/bounded/c09_panel.py', 'quick', '0'], capture_output=True, text=True, env=env)
d = json.loads(r.stdout.strip().splitlines()[-1])
violated = bool(d['failures'])
detail = str(d['failures'][:1])[:1500]
"""}


def lemmas():
    """z3 lemmas about a column sorted by individual id (what justifies [min, max] as the row range)."""
    import z3
    from pyvc.driver import Extra
    out = []
    a = z3.Array('a', z3.IntSort(), z3.IntSort())
    n = z3.Int('n')
    i, j, k = z3.Ints('i j k')
    srt = z3.ForAll([i, j], z3.Implies(z3.And(0 <= i, i <= j, j < n), z3.Select(a, i) <= z3.Select(a, j)))
    goals = {
        # every row between two rows of the same individual belongs to that individual
        'sorted-column:rows-of-an-individual-are-contiguous':
            z3.ForAll([i, j, k], z3.Implies(z3.And(0 <= i, i <= k, k <= j, j < n, z3.Select(a, i) == z3.Select(a, j)),
                                            z3.Select(a, k) == z3.Select(a, i))),
        # ranges [first,last] of two different individuals do not overlap
        'sorted-column:ranges-of-different-individuals-are-disjoint':
            z3.ForAll([i, j, k], z3.Implies(z3.And(0 <= i, i <= k, k <= j, j < n, z3.Select(a, i) == z3.Select(a, j)),
                                            z3.Not(z3.Select(a, k) != z3.Select(a, i)))),
    }
    for name, g in goals.items():
        t0 = time.time()
        s = z3.Solver()
        s.set('timeout', 20000)
        s.add(srt, z3.Not(g))
        r = str(s.check())
        out.append(Extra(f'C09:lemma:{name}', 'lemma', {'unsat': 'discharged', 'sat': 'failed'}.get(r, 'unknown'),
                         f'z3-{z3.get_version_string()}', round(time.time() - t0, 3), ''))
    return out


def static_map():
    """AST obligations on Database.build_panel_map: sort by the id column, renumber, then
    [min, max] of the positions of each distinct id."""
    from pyvc.driver import Extra
    from pyvc.repo import get_repo
    t0 = time.time()
    fi = get_repo().function('biogeme.database.Database.build_panel_map')
    if fi is None:
        return [Extra('C09:static:build_panel_map', 'static', 'unknown', 'ast-static', 0.0, 'function not found')]
    body = list(ast.walk(fi.node))
    src = {n.lineno: ast.unparse(n) for n in body if isinstance(n, (ast.Assign, ast.AugAssign, ast.AnnAssign, ast.Expr))}
    def first_line(pred):
        ls = [ln for ln, t in src.items() if pred(t)]
        return min(ls) if ls else None
    l_sort = first_line(lambda t: t.startswith('self.data = self.data.sort_values(by=self.panelColumn)'))
    l_renum = first_line(lambda t: t.startswith('self.data.index = range(len(self.data.index))'))
    l_uniq = first_line(lambda t: 'self.data[self.panelColumn].unique()' in t and '=' in t)
    l_rng = first_line(lambda t: '[min(' in t and 'max(' in t and t.strip().startswith('local_map['))
    l_rows = first_line(lambda t: 'self.data[self.panelColumn] == ' in t and '.index' in t)
    checks = {
        'sorted-by-the-id-column-first': l_sort is not None and all(x is None or l_sort < x for x in (l_renum, l_uniq, l_rng)),
        'rows-renumbered-after-sorting': l_renum is not None and l_sort is not None and l_sort < l_renum and (l_rows is None or l_renum < l_rows),
        'one-entry-per-distinct-id': l_uniq is not None,
        'range-is-min-max-of-the-rows-with-that-id': l_rng is not None and l_rows is not None and l_rows < l_rng,
    }
    # the analysis recognises the CURRENT shape of build_panel_map; another shape is not a defect by itself: `unknown`, and the
    # replay (the bounded panel harness incl. the append-after-panel history) decides whether it is a violation
    return [Extra(f'C09:static:build_panel_map:{k}', 'static', 'discharged' if ok else 'unknown', 'ast-static', round(time.time() - t0, 4),
                  '' if ok else f'pattern not found in build_panel_map (lines: sort {l_sort}, renumber {l_renum}, unique {l_uniq}, rows {l_rows}, range {l_rng})')
            for k, ok in checks.items()]


def extra(tier, seed):
    from pyvc.bounded import run_native
    return lemmas() + static_map() + [run_native('C09:bounded:panel', 'c09_panel.py', [tier, str(seed)],
                       bound='see the harness bound string: 1-4 (6) individuals x 1-3 (4) rows, all orders, MC draws coded by (individual, draw)', timeout=1500)]
