"""C15 - the saved-iteration file is always a sound restart point."""
import ast
import time

CONTRACT_MODULES = ['c02_outputs', 'c15_iterations']
LEVEL = 'other'
TRUSTED = ['LIBSPEC-os: os.replace is atomic; a file opened with "w" may hold any prefix of what was written until it is closed']
ASSUMPTIONS = ['no other process writes the iteration file',
               'assumed contracts (verify=False): Database.build_panel_map (individual map = panel.map_of(data, panel column) afterwards), Database.get_sample_size, BIOGEME._save_iterations_file_name and report_array (pure)',
               'precondition of calculate_likelihood_and_derivatives: the id manager numbers the free parameters (free_betas.indices is a dict, names as many as number_of_free_betas)']
EXPLANATION = ('Proved (pyvc, all inputs): calculate_likelihood_and_derivatives raises the best-so-far marker to f exactly when it saves (finite gradient norm, finite f, '
               'marker None or f >= marker) and keeps it otherwise; a file is installed by os.replace iff it saves, under the iteration-file name, holding one complete '
               '"name = value" line per free parameter in name order (loop invariant on the lines written to the temporary file); results are scaled by the sample size. '
               'Model: a file opened for writing is the list of lines printed to it; only os.replace changes the content of a name (so a crash leaves the old or the new complete file). '
               'Static obligations over the AST of biogeme.py: the iteration file is only ever produced by os.replace from a temporary file that was '
               'completely written, flushed and closed (crash-point clause); the best-so-far marker is assigned the value just saved under the guard '
               '"marker is None or f >= marker" (best-point clause).  The history clauses (bit-exact values, best finite point, restart, names) are '
               'explored by a bounded stand-in on the real code: all orderings of 3-4 points, non-finite points, every kill point of the rewrite.')
LEVEL_TEXT = 'Deductive proof of the save protocol of one evaluation (marker, content, atomic installation model) + static AST obligations + bounded histories / kill points on the real code.'
LEVEL_NOTE = 'Trusted: os.replace atomicity, the AST patterns recognised by the static obligations.'
TECHNIQUE = 'contract-based deductive verification (ghost file content) + static AST obligations + bounded history / crash-point stand-in'
DESIGN_REF = 'DESIGN.md section 3 / C15'

REPLAYS = {'*': """
import subprocess, sys, json
violated, detail = False, ''
for script, args in (('c15_zero_best.py', []), ('c15_iterations.py', ['quick', '0'])):
    r = subprocess.run([sys.executable, '/verif/bounded/' + script] + args, capture_output=True, text=True)
    d = json.loads(r.stdout.strip().splitlines()[-1])
    if d['failures']:
        violated = True
        detail = script + ': ' + str([(f.get('clause') or f.get('check')) for f in d['failures'][:4]])
        break
"""}


def static_write_protocol():
    from pyvc.driver import Extra
    from pyvc.repo import get_repo
    t0 = time.time()
    repo = get_repo()
    fi = repo.function('biogeme.biogeme.BIOGEME.calculate_likelihood_and_derivatives')
    out = []
    if fi is None:
        return [Extra('C15:static:write-protocol', 'static', 'unknown', 'ast-static', 0.0, 'function not found')]
    src = fi.node
    # 1. no open(..., 'w') whose first argument is (a variable bound to) the iteration file name itself
    final_names, tmp_names = set(), set()
    for n in ast.walk(src):
        if isinstance(n, ast.Assign) and len(n.targets) == 1 and isinstance(n.targets[0], ast.Name):
            v = n.value
            if isinstance(v, ast.Call) and ast.unparse(v.func).endswith('_save_iterations_file_name'):
                final_names.add(n.targets[0].id)
    for n in ast.walk(src):
        if isinstance(n, ast.Assign) and len(n.targets) == 1 and isinstance(n.targets[0], ast.Name):
            names_in = {x.id for x in ast.walk(n.value) if isinstance(x, ast.Name)}
            if names_in & final_names and n.targets[0].id not in final_names and not isinstance(n.value, ast.Name):
                tmp_names.add(n.targets[0].id)          # derived (different) name, e.g. f"{file_name}.tmp"
    direct = []
    opens = []
    for n in ast.walk(src):
        if isinstance(n, ast.Call) and isinstance(n.func, ast.Name) and n.func.id == 'open' and n.args:
            mode = ast.unparse(n.args[1]) if len(n.args) > 1 else next((ast.unparse(k.value) for k in n.keywords if k.arg == 'mode'), "'r'")
            if 'w' in mode or 'a' in mode:
                a0 = n.args[0]
                opens.append(ast.unparse(a0))
                if (isinstance(a0, ast.Name) and a0.id in final_names) or (isinstance(a0, ast.Call) and ast.unparse(a0.func).endswith('_save_iterations_file_name')):
                    direct.append(n.lineno)
    ok1 = not direct and bool(opens)
    out.append(Extra('C15:static:iteration-file-never-opened-for-writing-in-place', 'static', 'discharged' if ok1 else 'failed', 'ast-static',
                     round(time.time() - t0, 4), '' if ok1 else f'open(<iteration file>, "w") at lines {direct}; write opens: {opens}',
                     {'direct_opens': direct, 'opens': opens}))
    # 2. the final name is produced by os.replace(tmp, final) placed after the with-block that writes tmp
    repl = [n for n in ast.walk(src) if isinstance(n, ast.Call) and ast.unparse(n.func) in ('os.replace', 'os.rename') and len(n.args) == 2]
    ok2 = any(isinstance(r.args[0], ast.Name) and r.args[0].id in tmp_names and isinstance(r.args[1], ast.Name) and r.args[1].id in final_names for r in repl)
    withs = [w for w in ast.walk(src) if isinstance(w, ast.With) and any(isinstance(i.context_expr, ast.Call) and ast.unparse(i.context_expr.func) == 'open' for i in w.items)]
    ordered = bool(repl) and bool(withs) and all(r.lineno > max(getattr(w, 'end_lineno', w.lineno) for w in withs) for r in repl)
    out.append(Extra('C15:static:iteration-file-installed-by-atomic-replace-after-close', 'static', 'discharged' if (ok2 and ordered) else 'failed', 'ast-static',
                     round(time.time() - t0, 4), '' if (ok2 and ordered) else f'no os.replace(<temporary>, <iteration file>) after the writing block (replace calls: {[ast.unparse(r) for r in repl]})',
                     {'replace_calls': [ast.unparse(r) for r in repl]}))
    # 3. marker protocol: `self.bestIteration = f` directly under `if self.bestIteration is None or f >= self.bestIteration`
    ok3 = False
    for n in ast.walk(src):
        if isinstance(n, ast.If):
            test = ast.unparse(n.test).replace(' ', '')
            if 'self.bestIterationisNone' in test and ('>=self.bestIteration' in test or '>self.bestIteration' in test) and 'or' in ast.unparse(n.test):
                assigns = [s for s in n.body if isinstance(s, ast.Assign) and ast.unparse(s.targets[0]) == 'self.bestIteration']
                writes = [s for s in ast.walk(n) if isinstance(s, ast.With)]
                if assigns and writes:
                    ok3 = True
    out.append(Extra('C15:static:marker-raised-whenever-a-point-is-saved', 'static', 'discharged' if ok3 else 'failed', 'ast-static',
                     round(time.time() - t0, 4), '' if ok3 else 'the best-so-far marker is not assigned in the branch that saves a point under the guard (None or f >= marker)', {}))
    return out


# round 3 (m1): replay of the static obligation `locals-assigned-before-use` = the flag-combination harness of the entry points
REPLAYS['C15:static:biogeme.BIOGEME.calculate_likelihood_and_derivatives:locals-assigned-before-use'] = """
import subprocess, sys, json
r = subprocess.run([sys.executable, '/verif/bounded/m1_entrypoints.py'], capture_output=True, text=True, cwd='/tmp')
d = json.loads(r.stdout.strip().splitlines()[-1])
violated = bool(d['failures'])
detail = str([(f.get('check'), f.get('case'), f.get('got')) for f in d['failures'][:3]])
"""


def extra(tier, seed):
    from pyvc.bounded import run_native
    from contracts import m1_static
    out = static_write_protocol() + m1_static.extras('C15')
    out.append(run_native('C15:bounded:entry-points', 'm1_entrypoints.py', [], bound='1 cross-sectional model (2 free parameters, 4 rows) x scaled x hessian x bhhh x save_iterations; wrong lengths 0/1/3 -> ValueError; batch -> BiogemeError; 1 panel model (2 individuals) whose individual map is made stale after construction; debug logging on'))
    out.append(run_native('C15:bounded:best-value-exactly-zero', 'c15_zero_best.py', [],
                          bound='3 histories on a model whose maximum log likelihood is exactly 0.0; file checked after every evaluation'))
    out.append(run_native('C15:bounded:iterations', 'c15_iterations.py', [tier, str(seed)],
                          bound='see the harness bound string: all orderings of 3-4 points, non-finite points, optimiser runs, bootstrap (then an evaluation at a worse point), names, every kill point of the rewrite', timeout=1500))
    return out
