"""C07 - estimation returns a feasible point that is a maximum of the stated likelihood."""
CONTRACT_MODULES = ['c07_negative']
LEVEL = 'other'
TRUSTED = ['pyvc', 'z3 5.1.0 / cvc5 1.0.3', 'OPT-SPEC: biogeme_optimization / scipy.optimize respect bounds, improve, stop at stationary points (assumed; sampled)']
ASSUMPTIONS = ['A-CALLABLE: the likelihood callbacks are deterministic functions of their arguments', 'OPT-SPEC (external optimisers)']
EXPLANATION = ('Proved: the function handed to the optimisers is exactly minus the unscaled likelihood, with gradient and Hessian negated and requested only when needed. '
               'Feasibility, improvement, stationarity and cross-algorithm agreement are properties of external optimisers (assumed), sampled together with the final evaluation, '
               'packaging and write-back by a bounded estimation harness on generated concave problems.')
LEVEL_TEXT = 'Sign flips and derivative pass-through proved; optimiser behaviour assumed (dependency) with a bounded estimation stand-in.'
LEVEL_NOTE = 'Trusted: pyvc, z3/cvc5, OPT-SPEC.'
TECHNIQUE = 'contract-based deductive verification + bounded estimation stand-in (8 algorithms x bound configurations x starts)'
DESIGN_REF = 'DESIGN.md section 3 / C07'

REPLAYS = {'*': """
import warnings; warnings.simplefilter('ignore')
import numpy as np
from biogeme.negative_likelihood import NegativeLikelihood
from biogeme.function_output import FunctionOutput
calls = []
def like(x, scaled, batch):
    calls.append(('like', scaled, batch)); return 3.5
def like_d(x, scaled, hessian, bhhh, batch):
    calls.append(('d', scaled, hessian, bhhh, batch))
    return FunctionOutput(function=3.5, gradient=np.array([1.0, -2.0]), hessian=np.array([[1.0, 2.0], [2.0, 5.0]]) if hessian else None)
nl = NegativeLikelihood(2, like, like_d)
nl.set_variables(np.array([0.1, 0.2]))
f = nl._f(); fg = nl._f_g(); fgh = nl._f_g_h()
ok = (f == -3.5 and fg.function == -3.5 and np.array_equal(fg.gradient, [-1.0, 2.0]) and fg.hessian is None
      and fgh.function == -3.5 and np.array_equal(fgh.gradient, [-1.0, 2.0]) and np.array_equal(fgh.hessian, [[-1.0, -2.0], [-2.0, -5.0]])
      and calls == [('like', False, None), ('d', False, False, False, None), ('d', False, True, False, None)])
violated = not ok
detail = f'f={f} fg={fg} fgh={fgh} calls={calls}'
"""}


def extra(tier, seed):
    from pyvc.bounded import run_native
    return [run_native('C07:bounded:bounds-handover', 'c07_handover.py', [],
                       bound='4 bound-supporting algorithms x 6 bound lists mixing None / 0 / negative / positive / one- and two-sided entries; underlying optimiser spied'),
            run_native('C07:bounded:estimation', 'c07_estimation.py', [tier, str(seed)],
                       bound='see the harness bound string: generated concave logit problems x bound configurations x 3 starts x 8 algorithms', timeout=1500)]
