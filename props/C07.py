"""C07 - estimation returns a feasible point that is a maximum of the stated likelihood."""
CONTRACT_MODULES = ['c07_negative', 'c07c_optimization', 'c07c_biogeme']
LEVEL = 'other'
TRUSTED = ['pyvc', 'z3 5.1.0 / cvc5 1.0.3', 'OPT-SPEC: biogeme_optimization / scipy.optimize respect bounds, improve, stop at stationary points (assumed; sampled)',
           'pyvc/libext/c07c_opt.py: opaque optimiser calls recorded in ghost state, LIBSPEC of FunctionToMinimize (set_variables / f_g / __init__), '
           'algorithm table read from the AST; specs/c07c_specs.py: predicates over the ghost record',
           'contracts/c07c_static.py: def-use analysis of estimate / quick_estimate (ast)']
ASSUMPTIONS = ['A-CALLABLE: the likelihood callbacks are deterministic functions of their arguments', 'OPT-SPEC (external optimisers)',
               'A-PARAM: the TOML-backed attributes of BIOGEME (optimization_algorithm, max_iterations, initial_radius, ...) are dynamic properties that return the stored value: read as plain fields',
               'assumed contracts (verify=False): BIOGEME.is_model_complex and Expression.requires_draws (pure, boolean; they only select a message / the automatic Hessian proportion)',
               'bio_newton / bio_bfgs: the parameter dict is not the same object as the bounds list or the list of names (a dict is not a list)',
               'biogeme_optimization.bounds.Bounds(list) and scipy turn None into -/+ infinity themselves (inside the dependency)',
               'precondition of NegativeLikelihood._f_g / _f_g_h (round 3, replaces check_safe=False): the derivative callback returns the gradient (and the Hessian when asked); the callback installed by BIOGEME.optimize is calculate_likelihood_and_derivatives, whose contract gives arrays',
               'RawResults.__init__: the fields g, H, bhhh, bootstrap, gradientNorm, initLogLike, nullLogLike are typed by what is stored (Optional / any), not by the source annotation (which the stored value need not satisfy)']
EXPLANATION = ('Proved: the function handed to the optimisers is exactly minus the unscaled likelihood, with gradient and Hessian negated and requested only when needed. '
               'Feasibility, improvement, stationarity and cross-algorithm agreement are properties of external optimisers (assumed), sampled together with the final evaluation, '
               'packaging and write-back by a bounded estimation harness on generated concave problems. '
               'Round 2 (c07c): the optimisation glue is under contract for all inputs: each of the eight wrappers of biogeme.optimization makes exactly one optimiser call '
               'and hands over the caller\'s function object, starting point and bounds (None = absent; every other value, 0 and negative included, kept, in order), each '
               'configured parameter from the parameter dict or its default, and returns the optimiser\'s result unchanged; scipy\'s objective is f_g of the function object at the '
               'point supplied. BIOGEME.optimize selects the algorithm from the table by name (unknown name -> BiogemeError iff), builds the NegativeLikelihood from its own two '
               'likelihood methods and the number of free parameters, starts from the given point or the current free values, hands over id_manager.bounds and the dict built by '
               '_set_algorithm_parameters (one proved dict per algorithm name), and returns the algorithm\'s result. The data flow of estimate / quick_estimate between the optimiser '
               'and the results object (one solution vector, final evaluation at it with scaled=False, results built from both, write-back to every formula) is decided statically on the AST.')
LEVEL_TEXT = ('Sign flips and derivative pass-through proved; optimiser behaviour assumed (dependency) with a bounded estimation stand-in. '
              'Hand-over of function, start, bounds and parameters through biogeme.optimization and BIOGEME.optimize proved for all inputs (ghost record of the opaque optimiser call); '
              'estimate / quick_estimate data flow static.')
LEVEL_NOTE = 'Trusted: pyvc, z3/cvc5, OPT-SPEC.'
TECHNIQUE = 'contract-based deductive verification + bounded estimation stand-in (8 algorithms x bound configurations x starts)'
DESIGN_REF = 'DESIGN.md section 3 / C07'

_ESTIMATION_REPLAY = '''
import subprocess, sys, json
r = subprocess.run([sys.executable, '/verif/bounded/c07_estimation.py', 'quick', '0'], capture_output=True, text=True)
out = json.loads(r.stdout.strip().splitlines()[-1])
violated = bool(out['failures'])
detail = json.dumps(out['failures'][:3])
'''
_HANDOVER_REPLAY = '''
import subprocess, sys, json
r = subprocess.run([sys.executable, '/verif/bounded/c07_handover.py'], capture_output=True, text=True)
out = json.loads(r.stdout.strip().splitlines()[-1])
violated = bool(out['failures'])
detail = json.dumps(out['failures'][:3])
'''
try:
    from contracts.c07c_static import TABLE as _T
    _STATIC_REPLAYS = {f'C07:static:algorithms-table:{n}': _HANDOVER_REPLAY for n in list(_T) + ['no-other-name', 'never-written']}
    for _m, _cs in (('estimate', ['starting-point-is-the-current-free-values', 'solution-is-the-first-component-of-the-optimiser-output',
                                  'initial-likelihood-evaluated-before-the-optimisation', 'final-evaluation-at-the-solution-unscaled',
                                  'only-the-hessian-may-be-replaced', 'results-built-from-the-solution-and-the-final-evaluation',
                                  'returns-the-results-of-this-estimation', 'estimates-written-back-to-every-formula']),
                    ('quick_estimate', ['starting-point-is-the-current-free-values', 'solution-is-the-first-component-of-the-optimiser-output',
                                        'final-likelihood-at-the-solution-unscaled', 'results-built-from-the-solution-and-the-final-evaluation',
                                        'returns-the-results-of-this-estimation'])):
        for _c in _cs:
            _STATIC_REPLAYS[f'C07:static:{_m}:{_c}'] = _ESTIMATION_REPLAY
except ImportError:      # pragma: no cover
    _STATIC_REPLAYS = {}

REPLAYS = {**_STATIC_REPLAYS, '*': """
import warnings; warnings.simplefilter('ignore')
import numpy as np
from biogeme.negative_likelihood import NegativeLikelihood
from biogeme.function_output import FunctionOutput
calls = []
def like(x, scaled, batch):
    calls.append(('like', scaled, batch)); return 3.5
def like_d(x, scaled, hessian, bhhh, batch):
    calls.append(('d', scaled, hessian, bhhh, batch))
    return FunctionOutput(function=3.5, gradient=np.array([1.0, -2.0]), hessian=np.array([[1.0, 2.0], [2.0, 5.0]]) if hessian else None)
nl = NegativeLikelihood(2, like, like_d)
nl.set_variables(np.array([0.1, 0.2]))
f = nl._f(); fg = nl._f_g(); fgh = nl._f_g_h()
ok = (f == -3.5 and fg.function == -3.5 and np.array_equal(fg.gradient, [-1.0, 2.0]) and fg.hessian is None
      and fgh.function == -3.5 and np.array_equal(fgh.gradient, [-1.0, 2.0]) and np.array_equal(fgh.hessian, [[-1.0, -2.0], [-2.0, -5.0]])
      and calls == [('like', False, None), ('d', False, False, False, None), ('d', False, True, False, None)])
violated = not ok
detail = f'f={f} fg={fg} fgh={fgh} calls={calls}'
"""}


# round 3 (m1): replay of the static obligation of _set_algorithm_parameters: both branches of the automatic algorithm on the real code
REPLAYS['C07:static:biogeme.BIOGEME._set_algorithm_parameters:locals-assigned-before-use'] = """
import warnings; warnings.simplefilter('ignore')
import pandas as pd
from biogeme.expressions import Beta, Variable
from biogeme.database import Database
from biogeme.biogeme import BIOGEME
from biogeme.parameters import Parameters
db = Database('d', pd.DataFrame({'x': [1.0, 2.0, 4.0], 'y': [0.5, 0.1, 0.2]}))
f = -(Beta('b', 0.3, None, None, 0) * Variable('x') - Variable('y')) ** 2
violated, detail = False, ''
for algo in ('automatic', 'simple_bounds', 'simple_bounds_newton', 'simple_bounds_BFGS', 'TR-newton', 'TR-BFGS', 'LS-newton', 'LS-BFGS', 'scipy'):
    for complex_model in (False, True):
        p = Parameters()
        p.set_value('optimization_algorithm', algo, section='Estimation')
        b = BIOGEME(db, f, parameters=p)
        b.is_model_complex = lambda c=complex_model: c
        try:
            b._set_algorithm_parameters()
        except Exception as e:
            violated, detail = True, f'_set_algorithm_parameters with algorithm {algo!r} (complex model: {complex_model}) raises {type(e).__name__}: {e}'
            break
    if violated:
        break
"""


def extra(tier, seed):
    from pyvc.bounded import run_native
    from contracts.c07c_static import extras as static_extras
    from contracts import m1_static          # round 3 (m1): every local bound before it is read (incl. reads in dropped logger calls)
    # the matrices packaged into the results are fresh arrays of the final evaluation (ownership: shared with C02) and the results
    # object is not changed by what the BIOGEME object does afterwards
    from props.C02 import static_fresh_workspaces
    return static_extras(tier, seed) + m1_static.extras('C07') + static_fresh_workspaces('C07') + [
            run_native('C07:bounded:results-are-those-of-the-estimates-and-stay-so', 'c07_results_stability.py', [],
                       bound='logit, 150 observations, 2 algorithms: bootstrap (5 samples) between final evaluation and packaging; later evaluations on the same object'),
            run_native('C07:bounded:wrappers-handover', 'c07c_handover.py', ['all'],
                       bound='8 wrappers x 7 bound lists (None / 0 / -0.0 / negative / positive / one- and two-sided) x parameter dicts (None, {}, each documented key alone '
                             'with a non-default and with a zero / False value, all keys, unknown keys); underlying optimiser spied'),
            run_native('C07:bounded:bounds-handover', 'c07_handover.py', [],
                       bound='4 bound-supporting algorithms x 6 bound lists mixing None / 0 / negative / positive / one- and two-sided entries; underlying optimiser spied'),
            run_native('C07:bounded:estimation', 'c07_estimation.py', [tier, str(seed)],
                       bound='see the harness bound string: generated concave logit problems x bound configurations x 3 starts x 8 algorithms', timeout=1500)]

REPLAYS['C07:static:calculate_likelihood_and_derivatives:output-arrays-allocated-by-this-call'] = """
import subprocess, sys
r = subprocess.run([sys.executable, '/verif/bounded/c07_results_stability.py'], capture_output=True, text=True)
violated = r.returncode == 1
detail = (r.stdout + r.stderr)[-1500:]
"""
