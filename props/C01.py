"""C01 - every expression evaluates to its mathematical value on both evaluation paths."""
CONTRACT_MODULES = ['c01_values', 'c01_signatures', 'c01c_nary']
LEVEL = 'other'
TRUSTED = ['pyvc (VC generator, Python semantics of the stated subset)', 'z3 5.1.0 / cvc5 1.0.3',
           'ENGINE-SPEC: the compiled engine evaluates the decoded tree to its mathematical value (assumed; sampled by the bounded conformance harness)']
ASSUMPTIONS = ['A-REAL: floats are mathematical reals', 'A-DISPATCH: children are evaluated through the abstract get_value contract (structural induction)',
               'A-STR-TOK (c01c): the text of an f-string hole contains none of the characters , < > { } ( ) " [ ] (numbers by construction; '
               'the parameter / variable NAMES written unquoted into a bioLinearUtility line by assumption)',
               'ENGINE-LEX laws (c01c, specs/c01c_lines.py): appending ",item" pieces to a line leaves its header fields and earlier items unchanged '
               '(property of first-occurrence bracket extraction and of split on commas)',
               'c01c: the child layout the LogLogit / bioLinearUtility lines rely on (every referenced id is a member of self.children) is established by the '
               'constructors: bounded only (bounded/c01c_nary.py)']
EXPLANATION = ('Python evaluator: the get_value body of every node class is proved equal to its defining equation over the values of its children '
               '(all trees by structural induction, all values).  Engine path: assumed ENGINE-SPEC, sampled by a bounded conformance harness.'
               '  Round 2 (c01c): the LOOP-BUILT signature lines of bioMultSum, ConditionalSum, Elem, bioLinearUtility, _bioLogLogit, '
               '_bioLogLogitFullChoiceSet and BelongsTo are under contract for any number of terms (loop invariants over the engine lexer readings of the '
               'partially built line: class tag, id, count, and for every term k the ids / keys / indices at the positions bioFormula.cc reads; '
               'children signatures first, in order, as a recursive concatenation).'
               '  Round 3 (m4): PowerConstant.get_value has no domain precondition any more: outside the domain it raises BiogemeError IFF '
               'the base is negative and the exponent is not an integer.')
LEVEL_TEXT = ('Deductive proof for the Python evaluator and the Python-side plumbing; the compiled engine is an assumed dependency contract '
              'sampled by a bounded harness (not counted as proved).'
              '  The n-ary signature lines are deductive for all arities (c01c); the child layout set by the constructors is bounded.')
LEVEL_NOTE = 'Trusted: pyvc, z3/cvc5, A-REAL, ENGINE-SPEC (cythonbiogeme evaluates SEM), LIBSPEC for numpy.exp/log/sin/cos (uninterpreted).'
TECHNIQUE = 'contract-based deductive verification (AST -> VCs -> z3/cvc5) + bounded engine-conformance stand-in'
DESIGN_REF = 'DESIGN.md section 3 / C01'

REPLAYS = {'*': """
import sys, re
sys.path.insert(0, '/verif/bounded')
import c01_replay
m_ = re.search(r'([A-Za-z]+)\\.get_(value|signature)', payload['obligation'])
bad = c01_replay.check_class(m_.group(1)) if m_ else None
violated = bool(bad)
detail = str((bad or [])[:2])
"""}


def extra(tier, seed):
    from pyvc.bounded import run_native
    return [run_native('C01:bounded:per-class-value-and-signature', 'c01_replay.py', [],
                       bound='23 fixed-arity node classes x 6 operand pairs: Python value against the defining equation, signature line positions against ENGINE-SPEC')]


_extra0 = extra


def extra(tier, seed):
    from pyvc.bounded import run_native
    out = _extra0(tier, seed)
    out.append(run_native('C01:bounded:engine-conformance', 'c01_engine_conformance.py', [tier, str(seed)],
                          bound='see the harness bound string: 44 operator kinds over {free Beta, fixed Beta, Variable, Numeric}, depth <= 2 (3), 5 (9) grid points, sharing, side-by-side, name order', timeout=1500))
    return out


_extra1 = extra


def extra(tier, seed):
    from pyvc.bounded import run_native
    out = _extra1(tier, seed)
    out.append(run_native('C01:bounded:nary-signature-lines-and-child-layout', 'c01c_nary.py', [],
                          bound='7 n-ary classes x 1..4 terms x 3 operand mixes (expressions, shared operands, plain numbers): line decoded with a '
                                'transcription of the engine reader, ids defined before use, child layout set by the constructors'))
    return out
