"""C01 - every expression evaluates to its mathematical value on both evaluation paths."""
CONTRACT_MODULES = ['c01_values']
LEVEL = 'other'
TRUSTED = ['pyvc (VC generator, Python semantics of the stated subset)', 'z3 5.1.0 / cvc5 1.0.3',
           'ENGINE-SPEC: the compiled engine evaluates the decoded tree to its mathematical value (assumed; sampled by the bounded conformance harness)']
ASSUMPTIONS = ['A-REAL: floats are mathematical reals', 'A-DISPATCH: children are evaluated through the abstract get_value contract (structural induction)']
EXPLANATION = ('Python evaluator: the get_value body of every node class is proved equal to its defining equation over the values of its children '
               '(all trees by structural induction, all values).  Engine path: assumed ENGINE-SPEC, sampled by a bounded conformance harness.')
LEVEL_TEXT = ('Deductive proof for the Python evaluator and the Python-side plumbing; the compiled engine is an assumed dependency contract '
              'sampled by a bounded harness (not counted as proved).')
LEVEL_NOTE = 'Trusted: pyvc, z3/cvc5, A-REAL, ENGINE-SPEC (cythonbiogeme evaluates SEM), LIBSPEC for numpy.exp/log/sin/cos (uninterpreted).'
TECHNIQUE = 'contract-based deductive verification (AST -> VCs -> z3/cvc5) + bounded engine-conformance stand-in'
DESIGN_REF = 'DESIGN.md section 3 / C01'
