"""C03 - parameters are identified by name everywhere."""
CONTRACT_MODULES = ['c03_idmanager', 'c03_byname', 'c03c_positions', 'c03c_prepare', 'c03c_values']
LEVEL = 'other'
TRUSTED = ['pyvc (VC generator, Python semantics of the stated subset)', 'z3 5.1.0 / cvc5 1.0.3',
           'LIBSPEC sorted(): ordered permutation of its argument', 'ENGINE-SPEC: a Beta line is read as (unique index, parameter index, status)']
ASSUMPTIONS = ['A-STR-ATOM: names are compared by == and < only']
EXPLANATION = ('Numbering by sorted name (expressions_names_indices, for all dictionaries), index selection by name and status, by-name overrides, '
               'dictionary-to-list conversion and bounds lookup are proved for all inputs; IdManager.prepare and the end-to-end renaming '
               'invariance are covered by a bounded differential stand-in on the real code. '
               'Round 2 (c03c): IdManager.prepare is now proved as a whole (numbering by sorted name, bijective index maps that follow the name order, '
               'bounds / start values by name, blocks of the unique index, a name used twice refused), as are BIOGEME.change_init_values and '
               '_load_saved_iteration (position q receives the value given for names[q], nothing else changes), RawResults.__init__ and '
               'bioResults.get_beta_values (estimate, name and bounds paired by name), the dictionary of values of get_value_and_derivatives, and the '
               'hand-over of the vectors between these functions (static obligations on the AST). '
               'Round 3 (m4, mutation-driven): WHICH names are numbered (every name reported by a formula for a kind is in the table of that kind and '
               'only those; second contract IdManager.prepare[collection] of the same body), WHEN a Beta reports itself (kind / status), the new name '
               'after fix_betas, and the descent of change_init_values into every formula and every child (event predicate c03m4_told); '
               'no check_safe=False is left.')
LEVEL_TEXT = ('Deductive proof of the by-name plumbing functions; IdManager.prepare as a whole and estimation under renaming are bounded stand-ins. '
              'Round 2: prepare, change_init_values, the iteration-file restart, the results pairing and the value dictionary are deductive as well; '
              'the estimates (optimiser, engine) under renaming remain bounded.')
LEVEL_NOTE = ('Trusted: pyvc, z3/cvc5, LIBSPEC (sorted, dict order), ENGINE-SPEC for the reading of Beta lines. '
              'Round 2 adds: LEMMA card-of-list-set (pigeonhole), LIBSPEC open()/rpartition for the iteration file, assumed abstract contracts of the '
              'virtual descents (change_init_values, set_id_manager, audit and the placement collectors) listed in the evidence. '
              'Round 3 adds two assumed clauses on abstract contracts: Expression.change_init_values leaves the event c03m4_told(formula, dict); '
              'the keys returned by Expression.dict_of_elementary_expression are the uninterpreted relation c03m4_reports(formula, kind, name) '
              '(deterministic collector); DEFINITION c03m4_reported_upto (primitive recursion).')
TECHNIQUE = 'contract-based deductive verification (AST -> VCs -> z3/cvc5) + bounded renaming differential'
DESIGN_REF = 'DESIGN.md section 3 / C03'


def extra(tier, seed):
    from pyvc.bounded import run_native
    import contracts.c03c_prepare as c03c_prepare
    import contracts.c03c_static as c03c_static
    return c03c_prepare.lemmas() + c03c_static.obligations() + [run_native('C03:bounded:renaming', 'c03_renaming.py', [tier, str(seed)],
                       bound='see the harness bound string: 6 (20) logit specifications x 5-7 namings with shuffled terms, partial dictionaries, duplicate kinds', timeout=1500)]
