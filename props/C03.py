"""C03 - parameters are identified by name everywhere."""
CONTRACT_MODULES = ['c03_idmanager', 'c03_byname']
LEVEL = 'other'
TRUSTED = ['pyvc (VC generator, Python semantics of the stated subset)', 'z3 5.1.0 / cvc5 1.0.3',
           'LIBSPEC sorted(): ordered permutation of its argument', 'ENGINE-SPEC: a Beta line is read as (unique index, parameter index, status)']
ASSUMPTIONS = ['A-STR-ATOM: names are compared by == and < only']
EXPLANATION = ('Numbering by sorted name (expressions_names_indices, for all dictionaries), index selection by name and status, by-name overrides, '
               'dictionary-to-list conversion and bounds lookup are proved for all inputs; IdManager.prepare and the end-to-end renaming '
               'invariance are covered by a bounded differential stand-in on the real code.')
LEVEL_TEXT = 'Deductive proof of the by-name plumbing functions; IdManager.prepare as a whole and estimation under renaming are bounded stand-ins.'
LEVEL_NOTE = 'Trusted: pyvc, z3/cvc5, LIBSPEC (sorted, dict order), ENGINE-SPEC for the reading of Beta lines.'
TECHNIQUE = 'contract-based deductive verification (AST -> VCs -> z3/cvc5) + bounded renaming differential'
DESIGN_REF = 'DESIGN.md section 3 / C03'


def extra(tier, seed):
    from pyvc.bounded import run_native
    return [run_native('C03:bounded:renaming', 'c03_renaming.py', [tier, str(seed)],
                       bound='see the harness bound string: 6 (20) logit specifications x 5-7 namings with shuffled terms, partial dictionaries, duplicate kinds', timeout=1500)]
