"""C20 - every deprecated name behaves exactly like the function it points users to."""
import json
import os
import tempfile
import time

CONTRACT_MODULES = []          # no SMT contract: the wrappers are closures over *args/**kwargs (out of the pyvc subset)
LEVEL = 'other'
TRUSTED = ['pyvc.repo (AST extraction, class table)', 'contracts/c20_aliases.py (C3 linearisation, alias inventory, wrapper shape reader)',
           'Python semantics of f(*args, **kwargs) forwarding, attribute lookup along the MRO, functools.wraps']
ASSUMPTIONS = [
    'A-WRAPPER-SHAPE: the behaviour of biogeme.deprecated.deprecated is read off its AST (every return is new_func(*args, **kwargs), '
    'or the recognised receiver-dispatch form); any other shape makes the dispatch obligations unknown and they are decided by native replay',
    'A-STATIC-CLASSES: classes created dynamically (type(...), BIOGEME.initialize_properties) are outside the class table',
    'A-REVIEWED-PAIRS: cnl_avail->cnl, logcnl_avail->logcnl, segment_parameter->segmented_beta are accepted as matching names by review',
]
EXPLANATION = ('Static decision procedures over the whole package AST: one named obligation per alias site for (a) replacement exists / binding kind, '
               '(b) name match, (c) signature compatibility, (d) dynamic dispatch for every class that inherits the alias (one obligation per '
               '(alias, overriding class) pair), (e) every renamed keyword is a real parameter; plus structural obligations on the two wrappers. '
               'The wrappers\' run-time semantics and old-vs-new equality on real receivers are bounded stand-ins on the real code.')
LEVEL_TEXT = ('Exhaustive static analysis (finite domain: all alias sites x all classes of the package) decided from the current AST, under the '
              'wrapper semantics read off deprecated.py; the wrapper semantics itself (forwarding, one warning, keyword renaming) and the '
              'old-vs-new behavioural comparison are bounded native stand-ins, labelled bounded and never counted as proved.')
LEVEL_NOTE = ('Trusted: AST extraction and class table, the wrapper-shape reader, Python call/MRO semantics. The VC generator cannot take '
              'closures with *args/**kwargs, so no SMT obligation is generated for this property.')
TECHNIQUE = 'static obligations decided on the real AST (alias inventory x class table) + bounded stand-ins on the real code'
DESIGN_REF = 'DESIGN.md section 3 / C20'

_BOUNDED_PATH = "import sys\nsys.path.insert(0, '/verif/bounded')\n"

# ---- replays (run by tools/replay.py under /venv/bin/python; `m` is the witness of the failed obligation) -------------------------
_R_DISPATCH = _BOUNDED_PATH + r'''
import importlib, warnings
D = getattr(importlib.import_module(m['receiver_module']), m['receiver_class'].split('.')[-1])
Def = getattr(importlib.import_module(m['override_module']), m['override_in'].split('.')[-1])
old, new = m['old'], m['new']
# 1. spy on the override: does calling the alias on a D reach D's own method?
reached = []
orig = Def.__dict__[new]
def spy(*a, **k):
    reached.append(1)
    return 'C20-SPY'
setattr(Def, new, spy)
cls = D
if getattr(D, '__abstractmethods__', None):
    cls = type('_C20_' + D.__name__, (D,), {})
    cls.__abstractmethods__ = frozenset()
obj = object.__new__(cls)
with warnings.catch_warnings():
    warnings.simplefilter('ignore')
    try:
        got = getattr(obj, old)()
    except BaseException as e:
        got = repr(e)[:120]
setattr(Def, new, orig)
violated = not reached
detail = f'{D.__name__}().{old}() ' + ('reached' if reached else 'did NOT reach') + f' {Def.__name__}.{new} (spy installed on the override; result {got!r})'
# 2. illustration on a real instance, when one can be built
try:
    import c20_native
    fac = c20_native.expression_factories().get(D.__name__)
    args = {k: v[0]() for k, v in c20_native.EXPR_ARGS.items()}.get(old, ((), {}))
    if fac:
        def show(name):
            e = c20_native.prepared(fac[0])()
            with warnings.catch_warnings():
                warnings.simplefilter('ignore')
                try:
                    return repr(getattr(e, name)(*args[0], **args[1]))[:150]
                except Exception as ex:
                    return 'raises ' + repr(ex)[:150]
        detail += f'; on {fac[0]()}: .{old}{args[0]} -> {show(old)}   but   .{new}{args[0]} -> {show(new)}'
except Exception as ex:
    detail += f' (no illustration: {ex!r})'
'''

_R_TARGET = r'''
import importlib, warnings
mod = importlib.import_module(m['module'])
warnings.simplefilter('ignore')
if m.get('owner'):
    C = getattr(mod, m['owner'].split('.')[-1])
    obj = object.__new__(C)
    try:
        r = getattr(obj, m['old'])()
        violated, detail = False, f'instance call returned {r!r}'[:300]
    except TypeError as e:
        violated, detail = True, f"{C.__name__}().{m['old']}() raises TypeError: {e}  (while {C.__name__}.{m['old']}() on the class works)"
else:
    f = getattr(mod, m['old'], None)
    violated = f is None or not getattr(f, '__deprecated__', False)
    detail = f'{m["old"]} -> {getattr(f, "__newname__", None)}'
'''

_R_NAME = _BOUNDED_PATH + r'''
import importlib, warnings, re
warnings.simplefilter('ignore')
import c20_native
mod = importlib.import_module(m['module'])
scope = getattr(mod, m['owner'].split('.')[-1]) if m.get('owner') else mod
old = getattr(scope, m['old'])
doc = (old.__doc__ or '')
norm = lambda s: s.replace('_', '').lower()
mm = re.match(r'\s*[Ss]ame as (\w+)', doc)
expected = mm.group(1) if mm else None
if expected is None:      # the function of the same scope whose name is the snake_case form of the old name
    cands = [n for n in dir(scope) if norm(n) == norm(m['old']) and n != m['old'] and not getattr(getattr(scope, n), '__deprecated__', False)]
    expected = cands[0] if cands else None
detail = f"{m['old']}.__newname__ = {old.__newname__!r}; expected replacement: {expected!r}" + (f" (docstring: {doc.strip().splitlines()[0]!r})" if mm else '')
violated = expected is not None and expected != old.__newname__
cases = c20_native.function_cases('quick').get(f"{m['module']}.{m['old']}") if not m.get('owner') else None
if violated and hasattr(scope, expected) and cases:
    a, k = cases[0]()
    r_old = old(*a, **k)
    a, k = cases[0]()
    r_exp = getattr(scope, expected)(*a, **k)
    same = str(r_old) == str(r_exp)
    detail += f'; {m["old"]}(...) == {expected}(...) on sample arguments: {same}; old gives {str(r_old)[:90]}..., {expected} gives {str(r_exp)[:90]}...'
'''

_R_SIG = r'''
import importlib, inspect, warnings
warnings.simplefilter('ignore')
mod = importlib.import_module(m['module'])
if m.get('owner'):
    C = getattr(mod, m['owner'].split('.')[-1])
    old, new = getattr(C, m['old']), getattr(C, m['new'])
    recv = [object.__new__(C)]
else:
    old, new = getattr(mod, m['old']), getattr(mod, m['new'])
    recv = []
sig = inspect.signature(old)          # follows __wrapped__: the signature the alias advertises
names = [p for p in sig.parameters if p != 'self']
S = object()
problems = []
try:
    old(*recv, **{p: S for p in names})
except TypeError as e:
    if 'unexpected keyword' in str(e) or 'missing' in str(e) or 'positional' in str(e):
        problems.append(f"{m['old']}({', '.join(p + '=...' for p in names)}) raises TypeError: {e}")
except Exception as e:
    pass
so, sn = inspect.signature(old), inspect.signature(new)
for p, q in zip([x for x in so.parameters.values()], [x for x in sn.parameters.values()]):
    if p.default is not inspect._empty and q.default is not inspect._empty and repr(p.default) != repr(q.default):
        problems.append(f'default of {p.name}: {p.default!r} advertised by {m["old"]}, {q.default!r} used by {m["new"]}')
    if p.default is not inspect._empty and q.default is inspect._empty:
        problems.append(f'{p.name} optional in {m["old"]} but required in {m["new"]}')
violated = bool(problems)
detail = '; '.join(problems) or 'a call with every advertised parameter passed by keyword is accepted'
'''

_R_KW = r'''
import importlib, warnings
warnings.simplefilter('ignore')
mod = importlib.import_module(m['module'])
S = object()
owner = m.get('receiver_class') or m.get('owner')
if owner:
    C = getattr(importlib.import_module(m.get('receiver_module') or m['module']), owner.split('.')[-1])
    f, recv = getattr(C, m['func']), [object.__new__(C)]
else:
    f, recv = getattr(mod, m['func']), []
try:
    f(*recv, **{m['old_kw']: S})
    violated, detail = False, 'call accepted'
except TypeError as e:
    bad = 'unexpected keyword' in str(e)
    violated, detail = bad, f"{m['func']}({m['old_kw']}=...) raises TypeError: {e}"
except Exception as e:
    violated, detail = False, f'keyword accepted (later failure on the dummy value: {type(e).__name__})'
'''

_R_WRAPPER = _BOUNDED_PATH + r'''
import c20_native
cases, fails = c20_native.wrapper_cases(80, 0, '')
violated = bool(fails)
detail = str(fails[:3])
'''


class _Replays(dict):
    """REPLAYS keyed by obligation family (the driver asks for REPLAYS.get(<obligation base name>))."""
    FAMILIES = [('C20:static:dispatch:', _R_DISPATCH), ('C20:static:target:', _R_TARGET), ('C20:static:name-match:', _R_NAME),
                ('C20:static:signature-compatible:', _R_SIG), ('C20:static:keyword-exists:', _R_KW),
                ('C20:static:keyword-inherited:', _R_KW), ('C20:static:wrapper:', _R_WRAPPER)]

    def get(self, name, default=None):
        for prefix, code in self.FAMILIES:
            if isinstance(name, str) and name.startswith(prefix):
                if prefix == 'C20:static:dispatch:' and '@' not in name:
                    return default
                return code
        return default


REPLAYS = _Replays()


def extra(tier, seed):
    from pyvc.driver import Extra
    from pyvc.bounded import run_native
    from contracts.c20_aliases import static_obligations
    t0 = time.time()
    obs, summary = static_obligations()
    per = (time.time() - t0) / max(1, len(obs))
    out = [Extra(o.name, 'static', o.status, 'ast-static', round(per, 5), o.detail, o.witness) for o in obs]
    # (alias, receiver) pairs already reported by a static obligation: the bounded comparison does not report them twice
    skip = []
    for o in obs:
        if o.status != 'discharged' and o.witness:
            w = o.witness
            if o.name.startswith('C20:static:dispatch:') and 'receiver_class' in w:
                skip.append(f"{w['owner']}.{w['old']}@{w['receiver_class']}")
            elif o.name.startswith('C20:static:target:') and w.get('owner'):
                skip.append(f"{w['owner']}.{w['old']}->{w['new']}")
    n = 80 if tier == 'quick' else 2000
    out.append(run_native('C20:bounded:wrapper-semantics', 'c20_native.py', ['wrappers', str(n), str(seed), summary['mode']],
                          bound=f'{n} generated calls per wrapper (0-4 positional, 0-4 keywords incl. names used inside the wrapper, '
                                f'raising replacement every 5th), synthetic 3-class hierarchy; static mode = {summary["mode"]}'))
    fd, path = tempfile.mkstemp(prefix='c20-skip-', suffix='.json')
    try:
        with os.fdopen(fd, 'w') as f:
            json.dump(skip, f)
        out.append(run_native('C20:bounded:old-vs-new', 'c20_native.py', ['aliases', tier, str(seed), path],
                              bound=('every alias found at run time, called next to its replacement on identically built receivers/arguments '
                                     '(1-3 argument sets each; 40 expression classes, Database with/without panel, bioResults K=2,3, IdManager, BIOGEME); '
                                     'engine-backed aliases on non-raising cases only; '
                                     + f'{len(skip)} (alias, receiver) pairs already failed statically are not re-reported')))
    finally:
        os.unlink(path)
    return out
