"""C16 - catalogs span the product of their controllers; operators stay inside it."""
import time

CONTRACT_MODULES = ['c16_controller', 'c16_configuration', 'c16c_ctor', 'c16c_central']
LEVEL = 'other'
TRUSTED = ['pyvc (VC generator, Python semantics of the stated subset)', 'z3 5.1.0 / cvc5',
           'pyvc/libext/c16_modconst.py (imported module constants, tuple(seq), Configuration.selections getter, random.choices LIBSPEC)',
           'ASSUMED contract CentralController.get_configuration (out of subset; exercised natively)',
           'AST analyses of contracts/c16_static.py for the stated syntactic classes',
           'pyvc/libext/c16c_ext.py (round 2: tuple+sequence, len(set(seq)) pigeonhole, list[str]==list[str], NamedTuple objects built in a '
           'comprehension, super().__init__ inlined, classmethod cls, property setter, iter(set)/next ghost position, sorted() triggers, '
           'modifies-free contracts under a binder)',
           'specs/c16c_specs.py (has_class, set_at, iter_pos, iter_over)',
           'ASSUMED contracts (round 2): validate_and_convert returns an Expression argument unchanged; Expression.contains_catalog is a pure '
           'function; Expression.configure_catalogs records its argument in the GHOST field ghost_configured and may move controllers; '
           'Expression.set_of_configurations returns central_controller.all_configurations',
           'AST analyses of contracts/c16c_static.py for the stated syntactic classes']
ASSUMPTIONS = ['A-INT: Python ints are mathematical integers; a % n for n > 0 is the r of a = q*n + r, 0 <= r < n',
               'A-STR: strings are atoms (only ==, <, `in` as an uninterpreted predicate); split/join are not modelled, so '
               'the identifier round trip is decided natively (bounded)',
               'A-CONFIG-INV: a Configuration lists no controller twice (proved for __check_list_validity; static: only the '
               'validating setter writes the list)',
               'A-CLS: in the classmethod Catalog.from_dict, cls is Catalog (static: Catalog has no subclass)',
               'A-SET-IDENTITY: sets hold objects (static obligation on Controller.__eq__/__hash__; FAILS on a tree where controllers '
               'compare by name)',
               'A-TYPED: Catalog.__init__/from_dict receive inputs of the annotated classes (requires typed_*)',
               'LIBSPEC set enumeration: positions 0..len(s)-1 of a set deliver every member exactly once (iteration exactly once rests on it)']
EXPLANATION = ('Deductive (all inputs): Controller.set_index/set_name/modify_controller (range check, circular = (c+s) mod n, clamped, '
               'other controllers untouched), Catalog.selected (member at the controller index), MultipleExpression.__init__ rejects '
               'separators, Configuration.__check_list_validity/get_selection, CentralController.set_controller/set_configuration '
               '(every selection applied, closure) and the operators increased/decreased/two_controllers (closure; exact circular move '
               'for increase/decrease); z3 lemmas: increase then decrease returns.  Static (AST): 17 delegation obligations of '
               'MultipleExpression, coverage of the recursive tree operations, writers of the private lists, operators return the '
               'configuration read after the last move.  Bounded native stand-ins (never counted as proved): product count, '
               'enumeration, iteration exactly once, shared controllers, value == hand-written formula, identifier order-independence and '
               'round trip, constructors refuse names that break the identifier, operator sequences, helper generators.  '
               'Round 2 (c16c), deductive for all inputs: Controller.__init__, Catalog.__init__ and Catalog.from_dict (BiogemeError IFF the names are '
               'inadmissible or differ from the shared controller\'s names AS SEQUENCES; controller names == member names position by position, so '
               'catalogs sharing a controller follow it by name), get_configuration (one selection per controller; BiogemeError iff two controllers share '
               'a name), SelectedExpressionsIterator / Expression.__iter__ (call k returns the expression configured with element k-1 of the set '
               'enumeration, StopIteration after the last); static: both helper generators build ONE controller and take controller names and member '
               'names from the same function of the same list / the same literals; Controller equality must be identity (new defect: two different '
               'controllers with one name are merged by get_all_controllers).  Round 3 (m3, mutation review): MultipleExpression.__init__ leaves the '
               'Expression part initialised (empty children, no central controller / id manager); two_controllers returns normally only for a '
               'direction of the compass rose; the refusal of INCOMPLETE configurations in set_configuration stays bounded (operator family).')
LEVEL_TEXT = ('Mixed: deductive proof per function on the controller/configuration layer, AST-static obligations for the delegation '
              'layer, bounded native stand-ins (<= 3 controllers x <= 3 alternatives, sequences <= 20, identifiers <= 4 selections) '
              'for enumeration, iteration, identifiers and the helper generators.  Round 2: the constructors, get_configuration (count and '
              'raise condition) and the iterator protocol are deductive; CentralController.__init__ (product, enumeration) and the text of '
              'identifiers stay bounded.')
LEVEL_NOTE = ('Trusted: pyvc + the C16 libext, z3/cvc5, the assumed get_configuration contract; strings are atoms, so everything '
              'about the text of identifiers is bounded.')
TECHNIQUE = 'contract-based deductive verification (AST -> VCs -> z3/cvc5) + AST-static obligations + bounded stand-ins on the real code'
DESIGN_REF = 'DESIGN.md section 3 / C16'

_NATIVE = """
import sys
sys.path.insert(0, '/verif/bounded')
import c16_native
n, bad = c16_native.run('quick', 0, only=[{fam!r}])
violated = bool(bad)
detail = f'{{n}} cases; first mismatch: {{bad[0] if bad else None}}'
"""

_DELEG = """
import sys
sys.path.insert(0, '/verif/bounded')
import c16_native
n, bad = c16_native.delegation_cases(only=[{meth!r}] if {meth!r} else None)
n2, bad2 = c16_native.structure_cases(limit=8)
violated = bool(bad or bad2)
detail = f'{{n}} spied calls, {{n2}} structure cases; first mismatch: {{(bad + bad2)[0] if (bad or bad2) else None}}'
"""

_C16C = """
import sys
sys.path.insert(0, '/verif/bounded')
import c16c_ctor_native as N
n, bad = N.FAMILIES[{fam!r}]()
violated = bool(bad)
detail = f'{{n}} cases; first mismatch: {{bad[0] if bad else None}}'
"""

_LEMMA = """
# brute force of the arithmetic on small sizes (the lemma itself is about all integers)
violated = False
for n in range(1, 9):
    for c in range(n):
        for s in range(-20, 21):
            if ((c + s) % n + (-s)) % n != c or ((c + (-s)) % n + s) % n != c:
                violated = True
                detail = f'n={n} c={c} s={s}'
"""


class _Replays(dict):
    """Replay code per obligation name (static / lemma / bounded obligations have no contract to carry it)."""

    def get(self, name, default=None):
        if ':static:MultipleExpression.' in name:
            meth = name.split(':static:MultipleExpression.')[1].split(':')[0]
            return _DELEG.format(meth=meth)
        if ':static:Expression.' in name:
            return _DELEG.format(meth='')
        if ':static:CentralController.' in name:
            return _NATIVE.format(fam='operator')
        if ':static:Controller.controlled_catalogs' in name:
            return _NATIVE.format(fam='invariant')
        if ':static:Configuration.' in name:
            return _NATIVE.format(fam='identifier')
        for key, fam in ((':static:Controller.__eq__', 'same_name'), (':static:segmentation_catalogs', 'helpers'),
                         (':static:generic_alt_specific_catalogs', 'helpers'), (':static:Catalog:no-subclass', 'from_dict'),
                         (':static:ghost_configured', 'iterator'), (':static:Expression.configure_catalogs', 'iterator')):
            if key in name:
                return _C16C.format(fam=fam)
        if ':lemma:' in name:
            return _LEMMA
        return default


REPLAYS = _Replays()


def _lemmas():
    """Increase then decrease by the same step returns (and conversely), for every size n >= 1, index 0 <= c < n and
    integer step s, with x % n characterised by Euclidean division (A-INT).  These are the two moves proved for
    modify_controller(circular=True) / increased_controller / decreased_controller (`circular_mod`, `moved`)."""
    import z3
    from pyvc.driver import Extra
    out = []
    c, s, n, q1, r1, q2, r2 = z3.Ints('c s n q1 r1 q2 r2')
    for name, sg in (('increase-then-decrease-returns', 1), ('decrease-then-increase-returns', -1)):
        t0 = time.time()
        sol = z3.Solver()
        sol.set('timeout', 20000)
        sol.add(n >= 1, c >= 0, c < n)
        sol.add(c + sg * s == q1 * n + r1, 0 <= r1, r1 < n)           # r1 = (c +/- s) % n
        sol.add(r1 - sg * s == q2 * n + r2, 0 <= r2, r2 < n)          # r2 = (r1 -/+ s) % n
        sol.add(r2 != c)
        r = str(sol.check())
        st = {'unsat': 'discharged', 'sat': 'failed'}.get(r, 'unknown')
        wit = None
        if r == 'sat':
            m = sol.model()
            wit = {str(v): m[v].as_long() for v in (c, s, n) if m[v] is not None}
        out.append(Extra(f'C16:lemma:circular-move:{name}', 'lemma', st, f'z3-{z3.get_version_string()}', time.time() - t0,
                         '((c + s) mod n - s) mod n == c for n >= 1, 0 <= c < n, all integer s (Euclidean characterisation of mod)',
                         wit))
    # the modular result is always a valid index (closure of the circular move), whatever the current index
    t0 = time.time()
    sol = z3.Solver()
    sol.set('timeout', 20000)
    sol.add(n >= 1, z3.Not(z3.And((c + s) % n >= 0, (c + s) % n < n)))
    r = str(sol.check())
    out.append(Extra('C16:lemma:circular-move:result-in-range', 'lemma', {'unsat': 'discharged', 'sat': 'failed'}.get(r, 'unknown'),
                     f'z3-{z3.get_version_string()}', time.time() - t0, '0 <= (c + s) mod n < n for n >= 1'))
    return out


def extra(tier, seed):
    from pyvc.bounded import run_native
    from pyvc.driver import Extra
    from pyvc.repo import get_repo
    from contracts import c16_static
    out = []
    t0 = time.time()
    for name, ok, detail, witness in c16_static.all_static(get_repo()):
        out.append(Extra(f'C16:static:{name}', 'static', 'discharged' if ok else 'failed', 'ast-static',
                         round(time.time() - t0, 3), detail, witness if not ok else None))
        t0 = time.time()
    # round 2 (c16c): static obligations on the constructors' environment and the helper generators
    from contracts import c16c_static
    t0 = time.time()
    for name, ok, detail, witness in c16c_static.all_static(get_repo()):
        out.append(Extra(f'C16:static:{name}', 'static', 'discharged' if ok else 'failed', 'ast-static',
                         round(time.time() - t0, 3), detail, witness if not ok else None))
        t0 = time.time()
    out += _lemmas()
    bounds = {
        'structure': '22 generated structures (<= 3 controllers x <= 3 alternatives, shared, nested, segmentation_catalogs, '
                     'generic_alt_specific_catalogs), every configuration',
        'invariant': 'the same 22 structures: central-controller invariant CC_WF assumed by the contracts',
        'identifier': ('40' if tier == 'quick' else '400') + ' configurations of <= 4 selections, every listing order',
        'constructor': '17 name patterns containing ; or : or duplicates over Controller / Catalog / from_dict / both helpers, '
                       '4 admissible controls',
        'operator': ('12' if tier == 'quick' else '120') + ' random operator sequences of length 20 (steps -3..7), inc/dec '
                    'inverse for steps in {-5,-1,0,1,2,3,7}',
        'controller': ('60' if tier == 'quick' else '600') + ' controllers of size 1..4, 8 random moves each, steps -7..7',
        'delegation': 'every override found at run time x 3 selected members (spies)',
    }
    names = {
        'structure': 'C16:bounded:product-enumeration-iteration-selection-value',
        'invariant': 'C16:bounded:constructors-establish-central-controller-invariant',
        'identifier': 'C16:bounded:identifier-order-independent-roundtrip-injective',
        'constructor': 'C16:bounded:constructors-refuse-names-that-break-identifiers',
        'operator': 'C16:bounded:operators-closure-arithmetic-inverse',
        'controller': 'C16:bounded:controller-moves-match-arithmetic',
        'delegation': 'C16:bounded:overrides-forward-to-selected-member',
    }
    for fam, bound in bounds.items():
        out.append(run_native(names[fam], 'c16_native.py', [tier, str(seed), fam], bound=bound))
    out.append(run_native('C16:bounded:catalogs-sharing-a-controller-follow-by-name', 'c16_shared_order.py', [],
                          bound='2-3 alternatives, every order of the member names of a second catalog sharing the controller, list and from_dict construction'))
    # round 2 (c16c): native evaluation of the clauses of the constructor / iterator contracts, the helpers end to end,
    # and formulas in which two DIFFERENT controllers have ONE name
    out.append(run_native('C16:bounded:constructor-and-iterator-contract-clauses-natively', 'c16c_ctor_native.py',
                          ['controller_ctor,catalog_ctor,from_dict,get_configuration,iterator'],
                          bound='12 name lists x 3 controller names; catalogs of <= 4 members x every permutation / longer / shorter controller; '
                                'formulas of <= 3 catalogs of <= 4 members'))
    out.append(run_native('C16:bounded:helper-generators-share-one-controller-names-in-order', 'c16c_ctor_native.py', ['helpers'],
                          bound='<= 3 segmentations x maximum 0..3 x <= 3 parameters; 2-3 alternatives x <= 2 parameters x with/without segmentation'))
    out.append(run_native('C16:bounded:different-controllers-with-one-name-refused-or-both-enumerated', 'c16c_ctor_native.py', ['same_name'],
                          bound='two catalogs of sizes (2,3), (2,2), (1,2) whose controllers are different objects with one name'))
    return out
