/-
C06 (special cases and generating functions agree): the published term ln G_i of the nested logit IS the logarithm of
the partial derivative of the textbook generating function
    G(y) = sum_m ( sum_{j in m} y_j ^ mu_m ) ^ (1 / mu_m)  +  sum_{i alone} y_i        at  y = exp V.
Only nest m of alternative i depends on y_i; writing c = sum_{j in m, j != i} y_j ^ mu_m >= 0 for the rest of the nest,
the contribution of the nest is  t |-> (c + t ^ mu) ^ (1 / mu).  Statements over the SPECIFICATION (the closed form
c05c_lng of specs/c05c_specs.py proved for the code by contracts/c05c_nested.py), not over the code.
-/
import Mathlib

/-- d/dy (c + y^mu)^(1/mu) = y^(mu-1) (c + y^mu)^(1/mu - 1) -/
theorem nest_term_hasDerivAt (c μ y : ℝ) (hy : 0 < y) (hc : 0 ≤ c) (hμ : μ ≠ 0) :
    HasDerivAt (fun t : ℝ => (c + t ^ μ) ^ (1 / μ)) (y ^ (μ - 1) * (c + y ^ μ) ^ (1 / μ - 1)) y := by
  have h1 : HasDerivAt (fun t : ℝ => t ^ μ) (μ * y ^ (μ - 1)) y :=
    Real.hasDerivAt_rpow_const (Or.inl hy.ne')
  have h2 : HasDerivAt (fun t : ℝ => c + t ^ μ) (μ * y ^ (μ - 1)) y := h1.const_add c
  have hpos : 0 < c + y ^ μ := add_pos_of_nonneg_of_pos hc (Real.rpow_pos_of_pos hy μ)
  have h3 := h2.rpow_const (p := 1 / μ) (Or.inl hpos.ne')
  convert h3 using 1
  field_simp

/-- its logarithm is the published term: (mu-1) log y + (1/mu - 1) log (c + y^mu) -/
theorem log_nest_term_deriv (c μ y : ℝ) (hy : 0 < y) (hc : 0 ≤ c) :
    Real.log (y ^ (μ - 1) * (c + y ^ μ) ^ (1 / μ - 1))
      = (μ - 1) * Real.log y + (1 / μ - 1) * Real.log (c + y ^ μ) := by
  have hpos : 0 < c + y ^ μ := add_pos_of_nonneg_of_pos hc (Real.rpow_pos_of_pos hy μ)
  rw [Real.log_mul (Real.rpow_pos_of_pos hy _).ne' (Real.rpow_pos_of_pos hpos _).ne',
    Real.log_rpow hy, Real.log_rpow hpos]

/-- at y = exp V:  ln dG/dy_i = (mu-1) V_i + (1/mu - 1) log ( c + exp (mu V_i) ),  c + exp(mu V_i) = sum_{j in m} exp (mu V_j) -/
theorem published_term_is_log_derivative (c μ V : ℝ) (hc : 0 ≤ c) :
    Real.log ((Real.exp V) ^ (μ - 1) * (c + (Real.exp V) ^ μ) ^ (1 / μ - 1))
      = (μ - 1) * V + (1 / μ - 1) * Real.log (c + Real.exp (μ * V)) := by
  rw [log_nest_term_deriv c μ (Real.exp V) (Real.exp_pos V) hc, Real.log_exp, ← Real.exp_mul, mul_comm V μ]

/-- an alternative outside every nest enters G as y_i: derivative 1, published term log 1 = 0 -/
theorem alone_term_hasDerivAt (y : ℝ) : HasDerivAt (fun t : ℝ => t) 1 y := hasDerivAt_id y

theorem alone_published_term : Real.log (1 : ℝ) = 0 := Real.log_one
