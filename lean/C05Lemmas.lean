/-
C05 (choice models return proper probability distributions): facts about the SPECIFICATION
  P_i = exp(h_i) / sum_{j in s} exp(h_j)      (s = finite nonempty set of available alternatives)
used to lift the deductively proved log-logit kernel contract
  LogLogit.get_value = - log (sum_{j in s} exp (h_j - h_c))
to "probabilities lie in [0,1], sum to one, do not change under a common shift, and the log version is the
logarithm of the probability version".  These are statements over the specification, not over the code.
-/
import Mathlib

open Finset

noncomputable def softmax {ι : Type*} (s : Finset ι) (h : ι → ℝ) (i : ι) : ℝ :=
  Real.exp (h i) / ∑ j ∈ s, Real.exp (h j)

theorem softmax_denom_pos {ι : Type*} (s : Finset ι) (hs : s.Nonempty) (h : ι → ℝ) :
    0 < ∑ j ∈ s, Real.exp (h j) :=
  Finset.sum_pos (fun j _ => Real.exp_pos (h j)) hs

/-- probabilities of the available alternatives sum to one -/
theorem softmax_sum_one {ι : Type*} (s : Finset ι) (hs : s.Nonempty) (h : ι → ℝ) :
    ∑ i ∈ s, softmax s h i = 1 := by
  unfold softmax
  rw [← Finset.sum_div]
  exact div_self (ne_of_gt (softmax_denom_pos s hs h))

theorem softmax_nonneg {ι : Type*} (s : Finset ι) (hs : s.Nonempty) (h : ι → ℝ) (i : ι) :
    0 ≤ softmax s h i :=
  div_nonneg (Real.exp_pos _).le (softmax_denom_pos s hs h).le

theorem softmax_le_one {ι : Type*} (s : Finset ι) (h : ι → ℝ) (i : ι) (hi : i ∈ s) :
    softmax s h i ≤ 1 := by
  unfold softmax
  have hpos : 0 < ∑ j ∈ s, Real.exp (h j) :=
    Finset.sum_pos (fun j _ => Real.exp_pos (h j)) ⟨i, hi⟩
  rw [div_le_one hpos]
  exact Finset.single_le_sum (f := fun j => Real.exp (h j)) (fun j _ => (Real.exp_pos (h j)).le) hi

/-- adding one constant to all utilities does not change the probabilities -/
theorem softmax_shift {ι : Type*} (s : Finset ι) (h : ι → ℝ) (c : ℝ) (i : ι) :
    softmax s (fun j => h j + c) i = softmax s h i := by
  unfold softmax
  simp only [Real.exp_add]
  rw [← Finset.sum_mul]
  exact mul_div_mul_right _ _ (Real.exp_pos c).ne'

/-- the log version is the logarithm of the probability version -/
theorem log_softmax {ι : Type*} (s : Finset ι) (hs : s.Nonempty) (h : ι → ℝ) (i : ι) :
    Real.log (softmax s h i) = h i - Real.log (∑ j ∈ s, Real.exp (h j)) := by
  unfold softmax
  rw [Real.log_div (Real.exp_pos _).ne' (softmax_denom_pos s hs h).ne', Real.log_exp]

/-- the form computed by the kernel (utilities shifted by the chosen one) is the log-probability -/
theorem kernel_form {ι : Type*} (s : Finset ι) (hs : s.Nonempty) (h : ι → ℝ) (c : ι) :
    - Real.log (∑ j ∈ s, Real.exp (h j - h c)) = Real.log (softmax s h c) := by
  have e : ∑ j ∈ s, Real.exp (h j - h c) = (∑ j ∈ s, Real.exp (h j)) / Real.exp (h c) := by
    rw [Finset.sum_div]
    apply Finset.sum_congr rfl
    intro j _
    rw [Real.exp_sub]
  rw [log_softmax s hs h c, e,
    Real.log_div (softmax_denom_pos s hs h).ne' (Real.exp_pos _).ne', Real.log_exp]
  ring
